// hv-mir: rustc_private driver that dumps the type-checked MIR of the local crate as JSON facts.
// It is injected with RUSTC_WORKSPACE_WRAPPER under `cargo +nightly check`; it only *produces facts*,
// every verdict is taken by the rule engine in /verif/rules.
#![feature(rustc_private)]
#![allow(clippy::all)]

extern crate rustc_abi;
extern crate rustc_driver;
extern crate rustc_hir;
extern crate rustc_interface;
extern crate rustc_middle;
extern crate rustc_session;
extern crate rustc_span;

use rustc_driver::Compilation;
use rustc_hir::def::DefKind;
use rustc_hir::def_id::{DefId, LOCAL_CRATE};
use rustc_middle::mir::*;
use rustc_middle::ty::print::with_no_trimmed_paths;
use rustc_middle::ty::{self, Instance, Ty, TyCtxt, TypingEnv};
use rustc_span::{ExpnKind, Span};
use std::fmt::Write as _;

fn js(s: &str) -> String {
    let mut o = String::with_capacity(s.len() + 2);
    o.push('"');
    for c in s.chars() {
        match c {
            '"' => o.push_str("\\\""),
            '\\' => o.push_str("\\\\"),
            '\n' => o.push_str("\\n"),
            '\r' => o.push_str("\\r"),
            '\t' => o.push_str("\\t"),
            c if (c as u32) < 0x20 => {
                let _ = write!(o, "\\u{:04x}", c as u32);
            }
            c => o.push(c),
        }
    }
    o.push('"');
    o
}

struct Cx<'tcx> {
    tcx: TyCtxt<'tcx>,
}

impl<'tcx> Cx<'tcx> {
    fn path(&self, d: DefId) -> String {
        let tcx = self.tcx;
        let krate = tcx.crate_name(d.krate).to_string();
        let p = tcx.def_path(d).to_string_no_crate_verbose();
        format!("{}{}", krate, p)
    }

    fn ty(&self, t: Ty<'tcx>) -> String {
        format!("{}", t)
    }

    fn span(&self, sp: Span) -> String {
        let sm = self.tcx.sess.source_map();
        // location of the outermost call site, so that expansion-internal code is attributed to
        // the line the user wrote
        let root = sp.source_callsite();
        let lo = sm.lookup_char_pos(root.lo());
        let name = format!("{}", lo.file.name.prefer_local_unconditionally());
        let mut s = format!("{}:{}:{}", name, lo.line, lo.col.0 + 1);
        let mut exps: Vec<String> = Vec::new();
        for e in sp.macro_backtrace() {
            match e.kind {
                ExpnKind::Macro(_, name) => exps.push(format!("macro:{}", name)),
                ExpnKind::Desugaring(k) => exps.push(format!("desugar:{:?}", k)),
                ExpnKind::AstPass(k) => exps.push(format!("astpass:{:?}", k)),
                ExpnKind::Root => {}
            }
        }
        s = format!("{{\"at\":{},\"exp\":[{}]}}", js(&s), exps.iter().map(|x| js(x)).collect::<Vec<_>>().join(","));
        s
    }

    fn place(&self, body: &Body<'tcx>, p: &Place<'tcx>) -> String {
        let tcx = self.tcx;
        let mut proj: Vec<String> = Vec::new();
        for (base, elem) in p.iter_projections() {
            let bty = base.ty(&body.local_decls, tcx);
            match elem {
                ProjectionElem::Deref => proj.push("\"deref\"".to_string()),
                ProjectionElem::Field(f, fty) => {
                    let mut name = format!("{}", f.index());
                    match bty.ty.kind() {
                        ty::Adt(adt, _) => {
                            let vi = bty.variant_index.unwrap_or(rustc_abi::FIRST_VARIANT);
                            if adt.is_enum() || adt.is_struct() || adt.is_union() {
                                if let Some(v) = adt.variants().get(vi) {
                                    if let Some(fd) = v.fields.get(f) {
                                        name = fd.name.to_string();
                                    }
                                }
                            }
                        }
                        ty::Closure(def, _) => {
                            let caps: Vec<_> = tcx.closure_captures(def.expect_local()).iter().collect();
                            if let Some(c) = caps.get(f.index()) {
                                name = format!("upvar:{}", c.var_ident.name);
                            }
                        }
                        _ => {}
                    }
                    proj.push(format!(
                        "{{\"f\":{},\"n\":{},\"ty\":{}}}",
                        f.index(),
                        js(&name),
                        js(&self.ty(fty))
                    ));
                }
                ProjectionElem::Index(l) => proj.push(format!("{{\"i\":{}}}", l.index())),
                ProjectionElem::ConstantIndex { offset, min_length: _, from_end } => {
                    proj.push(format!("{{\"ci\":{},\"from_end\":{}}}", offset, from_end))
                }
                ProjectionElem::Subslice { from, to, from_end } => {
                    proj.push(format!("{{\"sub\":[{},{}],\"from_end\":{}}}", from, to, from_end))
                }
                ProjectionElem::Downcast(name, vi) => proj.push(format!(
                    "{{\"dc\":{},\"v\":{}}}",
                    js(&name.map(|n| n.to_string()).unwrap_or_default()),
                    vi.index()
                )),
                other => proj.push(format!("{{\"other\":{}}}", js(&format!("{:?}", other)))),
            }
        }
        format!("{{\"l\":{},\"proj\":[{}]}}", p.local.index(), proj.join(","))
    }

    fn konst(&self, body_def: DefId, c: &ConstOperand<'tcx>) -> String {
        let tcx = self.tcx;
        let ty = c.const_.ty();
        let tys = self.ty(ty);
        if let ty::FnDef(def, args) = ty.kind() {
            return format!("{{\"k\":\"const\",\"ty\":{},\"fn\":{}}}", js(&tys), self.callee(body_def, *def, args));
        }
        let mut extra = String::new();
        match c.const_ {
            Const::Unevaluated(u, _) => {
                let _ = write!(extra, ",\"uneval\":{}", js(&self.path(u.def)));
                if let Some(p) = u.promoted {
                    let _ = write!(extra, ",\"promoted\":{}", p.index());
                }
            }
            _ => {}
        }
        let typing_env = TypingEnv::post_analysis(tcx, body_def);
        if ty.is_integral() || ty.is_bool() || ty.is_char() {
            if let Some(si) = c.const_.try_eval_scalar_int(tcx, typing_env) {
                let size = si.size();
                let bits = si.to_bits(size);
                let v: String = if ty.is_signed() {
                    format!("{}", size.sign_extend(bits))
                } else {
                    format!("{}", bits)
                };
                let _ = write!(extra, ",\"int\":{},\"bits\":{}", js(&v), size.bits());
            }
        } else if let Const::Val(cv, _) = c.const_ {
            if let ConstValue::Slice { .. } = cv {
                if let Some(bytes) = cv.try_get_slice_bytes_for_diagnostics(tcx) {
                    match std::str::from_utf8(bytes) {
                        Ok(s) if ty.peel_refs().is_str() => {
                            let _ = write!(extra, ",\"str\":{}", js(s));
                        }
                        _ => {
                            let _ = write!(
                                extra,
                                ",\"bytes\":[{}]",
                                bytes.iter().map(|b| b.to_string()).collect::<Vec<_>>().join(",")
                            );
                        }
                    }
                }
            } else if let ConstValue::Indirect { alloc_id, offset } = cv {
                // byte-string literals (&[u8; N]) and other by-ref constants
                if let ty::Ref(_, inner, _) = ty.kind() {
                    let _ = inner;
                }
                let alloc = tcx.global_alloc(alloc_id);
                if let rustc_middle::mir::interpret::GlobalAlloc::Memory(mem) = alloc {
                    let a = mem.inner();
                    let len = a.len();
                    let off = offset.bytes() as usize;
                    if a.provenance().ptrs().is_empty() && len <= 65536 {
                        let bytes = a.inspect_with_uninit_and_ptr_outside_interpreter(off..len);
                        let _ = write!(
                            extra,
                            ",\"bytes\":[{}]",
                            bytes.iter().map(|b| b.to_string()).collect::<Vec<_>>().join(",")
                        );
                    } else {
                        // a reference to another allocation: follow one level (e.g. &&[u8; N], &[u8;N])
                        let ptrs: Vec<_> = a.provenance().ptrs().iter().collect();
                        if ptrs.len() == 1 {
                            let (_, prov) = ptrs[0];
                            let inner_id = prov.alloc_id();
                            if let rustc_middle::mir::interpret::GlobalAlloc::Memory(m2) = tcx.global_alloc(inner_id) {
                                let a2 = m2.inner();
                                if a2.provenance().ptrs().is_empty() && a2.len() <= 65536 {
                                    let bytes = a2.inspect_with_uninit_and_ptr_outside_interpreter(0..a2.len());
                                    let _ = write!(
                                        extra,
                                        ",\"bytes\":[{}]",
                                        bytes.iter().map(|b| b.to_string()).collect::<Vec<_>>().join(",")
                                    );
                                }
                            }
                        }
                    }
                }
            } else if let ConstValue::Scalar(rustc_middle::mir::interpret::Scalar::Ptr(ptr, _)) = cv {
                let (prov, off) = ptr.into_raw_parts();
                let alloc_id = prov.alloc_id();
                if let rustc_middle::mir::interpret::GlobalAlloc::Memory(mem) = tcx.global_alloc(alloc_id) {
                    let a = mem.inner();
                    if a.provenance().ptrs().is_empty() && a.len() <= 65536 {
                        let bytes = a.inspect_with_uninit_and_ptr_outside_interpreter(off.bytes() as usize..a.len());
                        let _ = write!(
                            extra,
                            ",\"bytes\":[{}]",
                            bytes.iter().map(|b| b.to_string()).collect::<Vec<_>>().join(",")
                        );
                    }
                } else if let rustc_middle::mir::interpret::GlobalAlloc::Static(d) = tcx.global_alloc(alloc_id) {
                    let _ = write!(extra, ",\"static\":{}", js(&self.path(d)));
                }
            }
        }
        format!("{{\"k\":\"const\",\"ty\":{}{},\"dbg\":{}}}", js(&tys), extra, js(&format!("{}", c.const_)))
    }

    fn callee(&self, body_def: DefId, def: DefId, args: ty::GenericArgsRef<'tcx>) -> String {
        let tcx = self.tcx;
        let mut s = format!("{{\"def\":{}", js(&self.path(def)));
        let _ = write!(
            s,
            ",\"gargs\":[{}]",
            args.iter().map(|a| js(&format!("{}", a))).collect::<Vec<_>>().join(",")
        );
        if matches!(tcx.def_kind(def), DefKind::AssocFn) {
            if let Some(tr) = tcx.trait_of_assoc(def) {
                let _ = write!(s, ",\"trait\":{}", js(&self.path(tr)));
            } else if let Some(imp) = tcx.impl_of_assoc(def) {
                let _ = write!(
                    s,
                    ",\"impl_self\":{}",
                    js(&self.ty(tcx.type_of(imp).instantiate_identity().skip_norm_wip()))
                );
                if let Some(tr) = tcx.impl_opt_trait_ref(imp) {
                    let _ = write!(s, ",\"impl_trait\":{}", js(&self.path(tr.skip_binder().def_id)));
                }
            }
        }
        let typing_env = TypingEnv::post_analysis(tcx, body_def);
        match Instance::try_resolve(tcx, typing_env, def, args) {
            Ok(Some(inst)) => {
                let rd = inst.def_id();
                let _ = write!(s, ",\"resolved\":{}", js(&self.path(rd)));
                let kind = match inst.def {
                    ty::InstanceKind::Item(_) => "item",
                    ty::InstanceKind::Virtual(..) => "virtual",
                    ty::InstanceKind::Intrinsic(_) => "intrinsic",
                    ty::InstanceKind::ClosureOnceShim { .. } => "closure_once_shim",
                    ty::InstanceKind::FnPtrShim(..) => "fn_ptr_shim",
                    ty::InstanceKind::CloneShim(..) => "clone_shim",
                    ty::InstanceKind::DropGlue(..) => "drop_glue",
                    _ => "other",
                };
                let _ = write!(s, ",\"rkind\":{}", js(kind));
                if rd != def && matches!(tcx.def_kind(rd), DefKind::AssocFn) {
                    if let Some(imp) = tcx.impl_of_assoc(rd) {
                        let _ = write!(
                            s,
                            ",\"resolved_self\":{}",
                            js(&self.ty(tcx.type_of(imp).instantiate_identity().skip_norm_wip()))
                        );
                    }
                }
            }
            _ => {}
        }
        s.push('}');
        s
    }

    fn operand(&self, body: &Body<'tcx>, def: DefId, o: &Operand<'tcx>) -> String {
        match o {
            Operand::Copy(p) => format!("{{\"k\":\"copy\",\"p\":{}}}", self.place(body, p)),
            Operand::Move(p) => format!("{{\"k\":\"move\",\"p\":{}}}", self.place(body, p)),
            Operand::Constant(c) => self.konst(def, c),
            #[allow(unreachable_patterns)]
            other => format!("{{\"k\":\"other\",\"dbg\":{}}}", js(&format!("{:?}", other))),
        }
    }

    fn rvalue(&self, body: &Body<'tcx>, def: DefId, r: &Rvalue<'tcx>) -> String {
        let tcx = self.tcx;
        match r {
            Rvalue::Use(o, ..) => format!("{{\"k\":\"use\",\"x\":{}}}", self.operand(body, def, o)),
            Rvalue::Repeat(o, n) => format!(
                "{{\"k\":\"repeat\",\"x\":{},\"n\":{}}}",
                self.operand(body, def, o),
                js(&format!("{}", n))
            ),
            Rvalue::Ref(_, bk, p) => format!(
                "{{\"k\":\"ref\",\"mut\":{},\"p\":{}}}",
                matches!(bk, BorrowKind::Mut { .. }),
                self.place(body, p)
            ),
            Rvalue::RawPtr(k, p) => format!(
                "{{\"k\":\"rawptr\",\"kind\":{},\"p\":{}}}",
                js(&format!("{:?}", k)),
                self.place(body, p)
            ),
            Rvalue::Cast(kind, o, t) => format!(
                "{{\"k\":\"cast\",\"kind\":{},\"x\":{},\"from\":{},\"to\":{}}}",
                js(&format!("{:?}", kind)),
                self.operand(body, def, o),
                js(&self.ty(o.ty(&body.local_decls, tcx))),
                js(&self.ty(*t))
            ),
            Rvalue::BinaryOp(op, ab) => format!(
                "{{\"k\":\"bin\",\"op\":{},\"l\":{},\"r\":{}}}",
                js(&format!("{:?}", op)),
                self.operand(body, def, &ab.0),
                self.operand(body, def, &ab.1)
            ),
            Rvalue::UnaryOp(op, o) => format!(
                "{{\"k\":\"un\",\"op\":{},\"x\":{}}}",
                js(&format!("{:?}", op)),
                self.operand(body, def, o)
            ),
            Rvalue::Discriminant(p) => format!("{{\"k\":\"discr\",\"p\":{}}}", self.place(body, p)),
            Rvalue::Aggregate(kind, fields) => {
                let mut s = String::from("{\"k\":\"agg\"");
                match &**kind {
                    AggregateKind::Array(t) => {
                        let _ = write!(s, ",\"agg\":\"array\",\"elem\":{}", js(&self.ty(*t)));
                    }
                    AggregateKind::Tuple => s.push_str(",\"agg\":\"tuple\""),
                    AggregateKind::Adt(did, vi, _, _, _) => {
                        let adt = tcx.adt_def(*did);
                        let v = adt.variant(*vi);
                        let _ = write!(
                            s,
                            ",\"agg\":\"adt\",\"adt\":{},\"variant\":{},\"vi\":{},\"fields_n\":[{}]",
                            js(&self.path(*did)),
                            js(&v.name.to_string()),
                            vi.index(),
                            v.fields.iter().map(|f| js(&f.name.to_string())).collect::<Vec<_>>().join(",")
                        );
                    }
                    AggregateKind::Closure(did, _) => {
                        let _ = write!(s, ",\"agg\":\"closure\",\"closure\":{}", js(&self.path(*did)));
                        let caps: Vec<String> = tcx
                            .closure_captures(did.expect_local())
                            .iter()
                            .map(|c| js(&c.var_ident.name.to_string()))
                            .collect();
                        let _ = write!(s, ",\"fields_n\":[{}]", caps.join(","));
                    }
                    other => {
                        let _ = write!(s, ",\"agg\":\"other\",\"dbg\":{}", js(&format!("{:?}", other)));
                    }
                }
                let _ = write!(
                    s,
                    ",\"fields\":[{}]}}",
                    fields.iter().map(|o| self.operand(body, def, o)).collect::<Vec<_>>().join(",")
                );
                s
            }
            Rvalue::CopyForDeref(p) => format!("{{\"k\":\"use\",\"x\":{{\"k\":\"copy\",\"p\":{}}},\"cfd\":true}}", self.place(body, p)),
            other => format!("{{\"k\":\"other\",\"dbg\":{}}}", js(&format!("{:?}", other))),
        }
    }

    fn body(&self, def: DefId, body: &Body<'tcx>, kind: &str) -> String {
        let tcx = self.tcx;
        let mut s = String::new();
        let _ = write!(
            s,
            "{{\"path\":{},\"kind\":{},\"span\":{},\"argc\":{}",
            js(&self.path(def)),
            js(kind),
            self.span(body.span),
            body.arg_count
        );
        if matches!(tcx.def_kind(def), DefKind::Fn | DefKind::AssocFn) {
            let sig = tcx.fn_sig(def).instantiate_identity().skip_norm_wip().skip_binder();
            let _ = write!(
                s,
                ",\"sig\":{{\"inputs\":[{}],\"output\":{}}}",
                sig.inputs().iter().map(|t| js(&self.ty(*t))).collect::<Vec<_>>().join(","),
                js(&self.ty(sig.output()))
            );
            let _ = write!(s, ",\"vis\":{}", js(&format!("{:?}", tcx.visibility(def))));
            if let Some(imp) = tcx.impl_of_assoc(def) {
                let _ = write!(
                    s,
                    ",\"impl_self\":{}",
                    js(&self.ty(tcx.type_of(imp).instantiate_identity().skip_norm_wip()))
                );
                if let Some(tr) = tcx.impl_opt_trait_ref(imp) {
                    let _ = write!(s, ",\"impl_trait\":{}", js(&self.path(tr.skip_binder().def_id)));
                }
            }
            if let Some(tr) = tcx.trait_of_assoc(def) {
                let _ = write!(s, ",\"in_trait\":{}", js(&self.path(tr)));
            }
        }
        if matches!(tcx.def_kind(def), DefKind::Closure) {
            let _ = write!(s, ",\"parent\":{}", js(&self.path(tcx.parent(def))));
        }
        if matches!(tcx.def_kind(def), DefKind::Fn | DefKind::AssocFn) {
            let preds = tcx.predicates_of(def).instantiate_identity(tcx);
            let ps: Vec<String> = preds.predicates.iter().map(|p| js(&format!("{}", p.skip_norm_wip()))).collect();
            let _ = write!(s, ",\"preds\":[{}]", ps.join(","));
        }
        // locals
        s.push_str(",\"locals\":[");
        for (i, d) in body.local_decls.iter().enumerate() {
            if i > 0 {
                s.push(',');
            }
            let _ = write!(
                s,
                "{{\"ty\":{},\"mut\":{}}}",
                js(&self.ty(d.ty)),
                matches!(d.mutability, Mutability::Mut)
            );
        }
        s.push_str("],\"debug\":[");
        for (i, v) in body.var_debug_info.iter().enumerate() {
            if i > 0 {
                s.push(',');
            }
            let _ = write!(s, "{{\"name\":{}", js(&v.name.to_string()));
            match &v.value {
                VarDebugInfoContents::Place(p) => {
                    let _ = write!(s, ",\"place\":{}", self.place(body, p));
                }
                VarDebugInfoContents::Const(c) => {
                    let _ = write!(s, ",\"const\":{}", self.konst(def, c));
                }
            }
            if let Some(a) = v.argument_index {
                let _ = write!(s, ",\"arg\":{}", a);
            }
            s.push('}');
        }
        s.push_str("],\"blocks\":[");
        for (bi, bb) in body.basic_blocks.iter().enumerate() {
            if bi > 0 {
                s.push(',');
            }
            let _ = write!(s, "{{\"cleanup\":{},\"stmts\":[", bb.is_cleanup);
            let mut first = true;
            for st in &bb.statements {
                let js_st = match &st.kind {
                    StatementKind::Assign(b) => {
                        let (p, r) = &**b;
                        Some(format!(
                            "{{\"k\":\"assign\",\"p\":{},\"r\":{},\"span\":{}}}",
                            self.place(body, p),
                            self.rvalue(body, def, r),
                            self.span(st.source_info.span)
                        ))
                    }
                    StatementKind::SetDiscriminant { place, variant_index } => Some(format!(
                        "{{\"k\":\"setdiscr\",\"p\":{},\"v\":{},\"span\":{}}}",
                        self.place(body, place),
                        variant_index.index(),
                        self.span(st.source_info.span)
                    )),
                    StatementKind::StorageLive(_)
                    | StatementKind::StorageDead(_)
                    | StatementKind::Nop
                    | StatementKind::FakeRead(..)
                    | StatementKind::PlaceMention(..)
                    | StatementKind::AscribeUserType(..)
                    | StatementKind::Coverage(..)
                    | StatementKind::ConstEvalCounter
                    | StatementKind::BackwardIncompatibleDropHint { .. } => None,
                    other => Some(format!(
                        "{{\"k\":\"other\",\"dbg\":{},\"span\":{}}}",
                        js(&format!("{:?}", other)),
                        self.span(st.source_info.span)
                    )),
                };
                if let Some(x) = js_st {
                    if !first {
                        s.push(',');
                    }
                    first = false;
                    s.push_str(&x);
                }
            }
            s.push_str("],\"term\":");
            let t = bb.terminator();
            let sp = self.span(t.source_info.span);
            let tj = match &t.kind {
                TerminatorKind::Goto { target } => format!("{{\"k\":\"goto\",\"t\":{}", target.index()),
                TerminatorKind::SwitchInt { discr, targets } => {
                    let mut arms: Vec<String> = Vec::new();
                    for (v, bbx) in targets.iter() {
                        arms.push(format!("[{},{}]", js(&v.to_string()), bbx.index()));
                    }
                    format!(
                        "{{\"k\":\"switch\",\"x\":{},\"xty\":{},\"arms\":[{}],\"otherwise\":{}",
                        self.operand(body, def, discr),
                        js(&self.ty(discr.ty(&body.local_decls, tcx))),
                        arms.join(","),
                        targets.otherwise().index()
                    )
                }
                TerminatorKind::Return => "{\"k\":\"return\"".to_string(),
                TerminatorKind::Unreachable => "{\"k\":\"unreachable\"".to_string(),
                TerminatorKind::UnwindResume => "{\"k\":\"resume\"".to_string(),
                TerminatorKind::UnwindTerminate(_) => "{\"k\":\"terminate\"".to_string(),
                TerminatorKind::Drop { place, target, unwind, .. } => format!(
                    "{{\"k\":\"drop\",\"p\":{},\"t\":{},\"unwind\":{}",
                    self.place(body, place),
                    target.index(),
                    match unwind {
                        UnwindAction::Cleanup(b) => b.index().to_string(),
                        _ => "null".to_string(),
                    }
                ),
                TerminatorKind::Call { func, args, destination, target, unwind, .. } => {
                    let f = match func {
                        Operand::Constant(c) => {
                            if let ty::FnDef(d, ga) = c.const_.ty().kind() {
                                self.callee(def, *d, ga)
                            } else {
                                format!("{{\"indirect\":{}}}", self.operand(body, def, func))
                            }
                        }
                        _ => format!(
                            "{{\"indirect\":{},\"fty\":{}}}",
                            self.operand(body, def, func),
                            js(&self.ty(func.ty(&body.local_decls, tcx)))
                        ),
                    };
                    format!(
                        "{{\"k\":\"call\",\"f\":{},\"args\":[{}],\"argtys\":[{}],\"dest\":{},\"t\":{},\"unwind\":{}",
                        f,
                        args.iter().map(|a| self.operand(body, def, &a.node)).collect::<Vec<_>>().join(","),
                        args.iter()
                            .map(|a| js(&self.ty(a.node.ty(&body.local_decls, tcx))))
                            .collect::<Vec<_>>()
                            .join(","),
                        self.place(body, destination),
                        target.map(|b| b.index().to_string()).unwrap_or("null".to_string()),
                        match unwind {
                            UnwindAction::Cleanup(b) => b.index().to_string(),
                            _ => "null".to_string(),
                        }
                    )
                }
                TerminatorKind::Assert { cond, expected, msg, target, .. } => {
                    let (kind, ops): (String, Vec<String>) = match &**msg {
                        AssertKind::BoundsCheck { len, index } => (
                            "BoundsCheck".to_string(),
                            vec![self.operand(body, def, len), self.operand(body, def, index)],
                        ),
                        AssertKind::Overflow(op, a, b) => (
                            format!("Overflow({:?})", op),
                            vec![self.operand(body, def, a), self.operand(body, def, b)],
                        ),
                        AssertKind::OverflowNeg(a) => ("OverflowNeg".to_string(), vec![self.operand(body, def, a)]),
                        AssertKind::DivisionByZero(a) => ("DivisionByZero".to_string(), vec![self.operand(body, def, a)]),
                        AssertKind::RemainderByZero(a) => ("RemainderByZero".to_string(), vec![self.operand(body, def, a)]),
                        other => (format!("{:?}", other).split('(').next().unwrap_or("Other").to_string(), vec![]),
                    };
                    format!(
                        "{{\"k\":\"assert\",\"cond\":{},\"expected\":{},\"kind\":{},\"ops\":[{}],\"t\":{}",
                        self.operand(body, def, cond),
                        expected,
                        js(&kind),
                        ops.join(","),
                        target.index()
                    )
                }
                TerminatorKind::FalseEdge { real_target, .. } => format!("{{\"k\":\"goto\",\"t\":{}", real_target.index()),
                TerminatorKind::FalseUnwind { real_target, .. } => format!("{{\"k\":\"goto\",\"t\":{}", real_target.index()),
                other => format!("{{\"k\":\"other\",\"dbg\":{}", js(&format!("{:?}", other))),
            };
            let _ = write!(s, "{},\"span\":{}}}}}", tj, sp);
        }
        s.push_str("]}");
        s
    }
}

struct Cb;

impl rustc_driver::Callbacks for Cb {
    fn after_analysis<'tcx>(&mut self, _c: &rustc_interface::interface::Compiler, tcx: TyCtxt<'tcx>) -> Compilation {
        let out_dir = match std::env::var("HV_FACTS_DIR") {
            Ok(d) => d,
            Err(_) => return Compilation::Continue,
        };
        let crate_name = tcx.crate_name(LOCAL_CRATE).to_string();
        let want = std::env::var("HV_CRATES").unwrap_or_default();
        if !want.is_empty() && !want.split(',').any(|w| w == crate_name) {
            return Compilation::Continue;
        }
        let crate_type = format!("{:?}", tcx.crate_types());
        let cx = Cx { tcx };
        let mut out = String::new();
        with_no_trimmed_paths!({
            let _ = write!(out, "{{\"crate\":{},\"crate_types\":{},\"bodies\":[", js(&crate_name), js(&crate_type));
            let mut first = true;
            for ldef in tcx.hir_body_owners() {
                let def = ldef.to_def_id();
                let kind = tcx.def_kind(def);
                let (body, k): (&Body<'tcx>, &str) = match kind {
                    DefKind::Fn => (tcx.optimized_mir(def), "fn"),
                    DefKind::AssocFn => (tcx.optimized_mir(def), "assoc_fn"),
                    DefKind::Closure => (tcx.optimized_mir(def), "closure"),
                    DefKind::Const { .. } | DefKind::AssocConst { .. } | DefKind::Static { .. } => (tcx.mir_for_ctfe(def), "const"),
                    _ => continue,
                };
                if !first {
                    out.push(',');
                }
                first = false;
                out.push_str(&cx.body(def, body, k));
                out.push('\n');
                // promoted constants of the body (e.g. `&[..]` tables)
                {
                    let promoted = tcx.promoted_mir(def);
                    for (pi, pb) in promoted.iter_enumerated() {
                        out.push(',');
                        let mut b = cx.body(def, pb, "promoted");
                        // tag with promoted index
                        b.insert_str(1, &format!("\"promoted\":{},", pi.index()));
                        out.push_str(&b);
                        out.push('\n');
                    }
                }
            }
            out.push_str("],\"impls\":[");
            let mut first = true;
            for id in tcx.hir_free_items() {
                let did = id.owner_id.to_def_id();
                if let DefKind::Impl { .. } = tcx.def_kind(did) {
                    if !first {
                        out.push(',');
                    }
                    first = false;
                    let self_ty = cx.ty(tcx.type_of(did).instantiate_identity().skip_norm_wip());
                    let tr = tcx.impl_opt_trait_ref(did).map(|t| cx.path(t.skip_binder().def_id));
                    let _ = write!(
                        out,
                        "{{\"self\":{},\"trait\":{},\"items\":[",
                        js(&self_ty),
                        tr.map(|t| js(&t)).unwrap_or("null".to_string())
                    );
                    let mut f2 = true;
                    for it in tcx.associated_items(did).in_definition_order() {
                        if !f2 {
                            out.push(',');
                        }
                        f2 = false;
                        let aty = if it.is_type() {
                            js(&cx.ty(tcx.type_of(it.def_id).instantiate_identity().skip_norm_wip()))
                        } else {
                            "null".to_string()
                        };
                        let _ = write!(
                            out,
                            "{{\"name\":{},\"def\":{},\"trait_item\":{},\"assoc_ty\":{}}}",
                            js(&it.name().to_string()),
                            js(&cx.path(it.def_id)),
                            it.trait_item_def_id().map(|d| js(&cx.path(d))).unwrap_or("null".to_string()),
                            aty
                        );
                    }
                    out.push_str("]}");
                }
            }
            out.push_str("]}");
        });
        let suffix = std::env::var("HV_FACTS_SUFFIX").unwrap_or_default();
        let kind = if crate_type.contains("Executable") { "bin" } else { "lib" };
        let file = format!("{}/{}.{}{}.json", out_dir, crate_name, kind, suffix);
        std::fs::write(&file, out).expect("hv-mir: cannot write facts");
        Compilation::Continue
    }
}

fn main() {
    // RUSTC_WORKSPACE_WRAPPER passes the real rustc path as argv[1]
    let mut args: Vec<String> = std::env::args().collect();
    if args.len() > 1 && (args[1].ends_with("rustc") || args[1].contains("/rustc")) {
        args.remove(1);
    }
    rustc_driver::run_compiler(&args, &mut Cb);
}
