#!/bin/bash
# usage: tools/scratch.sh <patchdir> <prop> [hv args]   -- debugging helper: apply a patch to a scratch copy and run one check
set -e
pd=$(realpath "$1")
d=$(mktemp -d /tmp/hvscr-XXXX); mkdir -p $d/repo
cp -r /repo/src /repo/Cargo.toml /repo/Cargo.lock $d/repo/
(cd $d/repo && patch -s -p1 -i "$pd/patch.diff")
HV_REPO=$d/repo HV_CACHE=/verif/.cache/seed0 HV_EVIDENCE_DIR=$d/ev /verif/hv check $2 "${@:3}" || true
rm -rf $d
