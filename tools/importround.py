#!/usr/bin/env python3
"""Confirm and import one agent's candidates.

usage: tools/importround.py seed <srcdir e.g. /tmp/seed10/C01> <worktree> <round tag e.g. r10>
       tools/importround.py ref  <srcdir e.g. /tmp/ref6/C02>  <worktree> <corpus letter e.g. w>
Each candidate (sub-directory with patch.diff and meta.json) is confirmed with tools/confirm.sh in the scratch worktree
(never /repo).  A seeded change is kept only if build=0 suite=0 doc=0 demo_clean=0 demo_mut!=0; a behaviour-preserving
commit only if build=0 suite=0 doc=0.  Kept candidates are copied to /verif/seeded/<Cxx>-<tag><name> resp.
/verif/refactorings/<Cxx>-<letter><n>."""
import json, os, shutil, subprocess, sys
VERIF = os.path.dirname(os.path.dirname(os.path.abspath(__file__)))
mode, src, wt, tag = sys.argv[1:5]
prop = os.path.basename(src.rstrip('/'))
head = subprocess.run(['git', '-C', '/repo', 'rev-parse', '--short', 'HEAD'], capture_output=True, text=True).stdout.strip()
for name in sorted(os.listdir(src)):
    d = os.path.join(src, name)
    if not (os.path.isdir(d) and os.path.exists(os.path.join(d, 'patch.diff')) and os.path.exists(os.path.join(d, 'meta.json'))):
        continue
    out = subprocess.run([os.path.join(VERIF, 'tools/confirm.sh'), d, wt], capture_output=True, text=True).stdout.strip().splitlines()
    line = out[-1] if out else 'no output'
    kv = dict(x.split('=', 1) for x in line.split() if '=' in x)
    ok = kv.get('build') == '0' and kv.get('suite') == '0' and kv.get('doc') == '0'
    if mode == 'seed':
        ok = ok and kv.get('demo_clean') == '0' and kv.get('demo_mut') not in ('0', '-', None)
        dst = os.path.join(VERIF, 'seeded', f'{prop}-{tag}{name}')
    else:
        dst = os.path.join(VERIF, 'refactorings', f'{prop}-{tag}{name[-1]}')
    print(prop, name, line, 'KEPT' if ok else 'REJECTED', flush=True)
    if not ok:
        continue
    try:
        meta = json.load(open(os.path.join(d, 'meta.json')))
    except Exception as e:
        print('  bad meta.json', e); continue
    meta['confirmed_by_builder'] = line
    meta['confirmation'] = (f'applied in a scratch worktree of /repo HEAD {head}: build, lib tests + 7 integration test binaries and doc tests pass with the patch'
                            + ('; the demonstration passes on the clean tree and fails with the patch' if mode == 'seed' else ''))
    if os.path.exists(dst):
        shutil.rmtree(dst)
    os.makedirs(dst)
    for f in os.listdir(d):
        if f in ('patch.diff', 'demo_test.rs', 'demo.sh'):
            shutil.copy(os.path.join(d, f), dst)
    json.dump(meta, open(os.path.join(dst, 'meta.json'), 'w'), indent=1, ensure_ascii=False)
