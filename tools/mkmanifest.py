#!/usr/bin/env python3
"""regenerate MANIFEST.json from the rule modules that exist (keeps it valid at all times)"""
import importlib, json, os, sys
VERIF = os.path.dirname(os.path.dirname(os.path.abspath(__file__)))
sys.path.insert(0, VERIF)
props = [json.loads(l) for l in open(os.path.join(VERIF, "properties.jsonl"), encoding="utf-8")]
NA = {}  # property -> reason, for properties deliberately not claimed
na_file = os.path.join(VERIF, "not_applicable.json")
if os.path.exists(na_file):
    NA = json.load(open(na_file))
checks, na = [], []
for p in props:
    pid = p["id"]
    mp = os.path.join(VERIF, "rules", "p_%s.py" % pid.lower())
    if pid in NA:
        na.append({"property_id": pid, "reason": NA[pid]})
        continue
    if not os.path.exists(mp):
        na.append({"property_id": pid, "reason": "check not built yet (work in progress; see DESIGN.md section 11)"})
        continue
    m = importlib.import_module("rules.p_%s" % pid.lower())
    rules = ", ".join(r[0] for r in m.RULES)
    checks.append({
        "property_id": pid,
        "quick_cmd": "./hv check %s --tier quick" % pid,
        "thorough_cmd": "./hv check %s --tier thorough" % pid,
        "evidence_file": "/verif/evidence/%s.json" % pid,
        "replay_cmd_template": "./hv explain {path}",
        "engine": "hv",
        "level_claimed": {"category": m.LEVEL, "text": m.EXPLANATION, "design_ref": "DESIGN.md section 4, %s" % pid},
        "level_note": "Trusted base: " + "; ".join(m.TRUSTED) + ". Assumptions: " + " | ".join(m.ASSUMPTIONS),
        "technique": getattr(m, "TECHNIQUE", "static analysis of rustc MIR: " + rules) + "; audited table of order/extent-changing sequence operations and narrowing casts per function (A-ORD); rule bundles of the properties whose code this one rests on",
    })
manifest = {
    "version": 1,
    "setup_cmd": "./hv setup",
    "hooks": {
        "guard": "none",
        "enable": "none: static analysis needs no instrumentation of /repo; the checks read /repo's current source through a rustc_private driver",
        "baseline_off_cmd": "cd /repo && cargo test --workspace --no-fail-fast --offline",
        "source_commits": [],
        "add_only": True,
    },
    "engines": [
        {"name": "hv-mir", "path": "/verif/driver", "serves_properties": [c["property_id"] for c in checks], "kind_free_text": "rustc_private driver (nightly) dumping type-checked MIR, resolved callees, impls and predicates of /repo as JSON facts; injected with RUSTC_WORKSPACE_WRAPPER under cargo +nightly check"},
        {"name": "hv-rules", "path": "/verif/rules", "serves_properties": [c["property_id"] for c in checks], "kind_free_text": "Python rule engine: CFG/dominators, origin slicing, guarded event automata with language equality, cut-based must/may dataflow, call graph, audited-site tables"},
    ],
    "checks": checks,
    "notes": "Static analysis only (DESIGN.md). Every check re-extracts facts from /repo's current working tree (cached by content hash under /verif/.cache). Known findings: /verif/known-findings.txt.",
    "not_applicable": na,
}
json.dump(manifest, open(os.path.join(VERIF, "MANIFEST.json"), "w"), indent=1, ensure_ascii=False)
print("checks:", [c["property_id"] for c in checks], "not_applicable:", [n["property_id"] for n in na])
