#!/usr/bin/env python3
"""Run the registered checks against the seeded changes under /verif/seeded and /verif/selftest.

usage: tools/seedtest.py [--props C01,C02] [--only C01-m1,...] [--jobs N]
For each patch a scratch copy of /repo (src + Cargo files) is made under a temporary directory,
the patch is applied there, and `HV_REPO=<copy> ./hv check <prop>` is run for the mutant's own
property and, with --all-props, for every property. /repo itself is never touched."""
import json, os, shutil, subprocess, sys, tempfile, concurrent.futures, glob

VERIF = os.path.dirname(os.path.dirname(os.path.abspath(__file__)))
REPO = "/repo"


def run_one(d, props, cache_dir):
    name = os.path.basename(d)
    tmp = tempfile.mkdtemp(prefix="hvseed-")
    try:
        dst = os.path.join(tmp, "repo")
        os.makedirs(dst)
        for f in ("src", "Cargo.toml", "Cargo.lock"):
            s = os.path.join(REPO, f)
            if os.path.isdir(s):
                shutil.copytree(s, os.path.join(dst, f))
            else:
                shutil.copy(s, dst)
        p = subprocess.run(["git", "apply", "--unsafe-paths", "--directory=" + dst, os.path.join(d, "patch.diff")], cwd="/", capture_output=True, text=True)
        if p.returncode != 0:
            p = subprocess.run(["patch", "-p1", "-d", dst, "-i", os.path.join(d, "patch.diff")], capture_output=True, text=True)
            if p.returncode != 0:
                return name, {"apply": "FAILED " + p.stderr[-300:]}
        res = {}
        env = dict(os.environ, HV_REPO=dst, HV_CACHE=cache_dir, HV_EVIDENCE_DIR=os.path.join(tmp, "evidence"))
        for prop in props:
            q = subprocess.run([os.path.join(VERIF, "hv"), "check", prop], env=env, capture_output=True, text=True)
            keys = [l.strip() for l in q.stdout.splitlines() if l.startswith("  - [")]
            res[prop] = {"rc": q.returncode, "keys": keys[:6]}
        return name, res
    finally:
        shutil.rmtree(tmp, ignore_errors=True)


def main():
    args = sys.argv[1:]
    only = None
    props_override = None
    jobs = 4
    allprops = False
    dirs = ["seeded"]
    i = 0
    while i < len(args):
        if args[i] == "--only":
            only = set(args[i + 1].split(","))
            i += 1
        elif args[i] == "--props":
            props_override = args[i + 1].split(",")
            i += 1
        elif args[i] == "--jobs":
            jobs = int(args[i + 1])
            i += 1
        elif args[i] == "--all-props":
            allprops = True
        elif args[i] == "--dir":
            dirs = args[i + 1].split(",")
            i += 1
        i += 1
    avail = [p[2:].upper() for p in (os.path.basename(x)[:-3] for x in glob.glob(os.path.join(VERIF, "rules", "p_c*.py")))]
    ds = []
    for dd in dirs:
        ds += sorted(glob.glob(os.path.join(VERIF, dd, "*")))
    ds = [d for d in ds if os.path.isdir(d) and os.path.exists(os.path.join(d, "patch.diff"))]
    if only:
        ds = [d for d in ds if os.path.basename(d) in only]
    caches = [os.path.join(VERIF, ".cache", "seed%d" % k) for k in range(jobs)]
    out = {}
    with concurrent.futures.ThreadPoolExecutor(max_workers=jobs) as ex:
        futs = []
        for k, d in enumerate(ds):
            meta = json.load(open(os.path.join(d, "meta.json")))
            own = meta.get("property")
            extra = meta.get("also", [])
            props = props_override or (sorted(avail) if allprops else [p for p in [own] + extra if p in avail])
            futs.append(ex.submit(run_one, d, props, caches[k % jobs]))
        for f in futs:
            name, res = f.result()
            out[name] = res
            det = [p for p, r in res.items() if isinstance(r, dict) and r.get("rc") == 1]
            print("%-10s %s  %s" % (name, "DETECTED by " + ",".join(det) if det else "missed", {p: (r.get("rc") if isinstance(r, dict) else r) for p, r in res.items()}), flush=True)
            for p in det:
                for k in res[p]["keys"][:2]:
                    print("            " + k[:230])
    json.dump(out, open(os.path.join(VERIF, ".cache", "seedtest.json"), "w"), indent=1)


if __name__ == "__main__":
    main()
