#!/bin/bash
# usage: tools/confirm.sh <candidate dir with patch.diff (+ demo_test.rs | demo.sh)> <scratch worktree of /repo>
# Confirms a candidate change in a scratch worktree (never /repo): with the patch the crate builds, the pinned suite and
# the doc tests pass; the demonstration passes on the clean tree and fails with the patch.  Candidates without a
# demonstration (behaviour-preserving commits) get demo_clean=- demo_mut=-.
# Prints one line: build=<rc> suite=<rc> doc=<rc> demo_clean=<rc> demo_mut=<rc>
cand=$(realpath "$1"); wt=$(realpath "$2")
case "$wt" in /repo*|/verif*) echo "refusing to work in $wt"; exit 2;; esac
export CARGO_NET_OFFLINE=true
J=${J:-4}
SUITE="--lib --test big_number_test --test code_test --test execute_test --test io_test --test number_test --test optimize_test --test parse_test"
clean() { git -C "$wt" checkout -q -- . ; git -C "$wt" clean -fdq -e target; }
demo() {
  if [ -f "$cand/demo_test.rs" ]; then
    cp "$cand/demo_test.rs" "$wt/tests/demo_test.rs"
    (cd "$wt" && timeout 600 cargo test --offline -j $J --test demo_test >/dev/null 2>&1); echo $?
    rm -f "$wt/tests/demo_test.rs"
  elif [ -f "$cand/demo.sh" ]; then
    (cd "$wt" && timeout 300 cargo build --offline -j $J >/dev/null 2>&1 && timeout 300 bash "$cand/demo.sh" "$wt/target/debug/hyeong" >/dev/null 2>&1); echo $?
  else echo -; fi
}
clean
dc=$(demo)
if ! git -C "$wt" apply "$cand/patch.diff" 2>/dev/null; then echo "apply=FAILED"; clean; exit 1; fi
(cd "$wt" && timeout 600 cargo build --offline -j $J >/dev/null 2>&1); b=$?
(cd "$wt" && timeout 900 cargo test --offline -j $J --no-fail-fast $SUITE >/dev/null 2>&1); s=$?
(cd "$wt" && timeout 900 cargo test --offline -j $J --doc >/dev/null 2>&1); d=$?
dm=$(demo)
clean
echo "build=$b suite=$s doc=$d demo_clean=$dc demo_mut=$dm"
