#!/usr/bin/env python3
"""Blind-spot finder for the rules (a development aid, not a registered check).

Generates simple single-token mutants of /repo's sources (operator swaps, boundary changes, small constants,
dropped negations) and one-line statement deletions, applies each to a scratch copy, and runs all fourteen checks on it (HV_REPO).  A mutant that
does not compile is dropped.  A mutant on which every check stays silent is a *survivor*: either an equivalent
mutant, code outside the fourteen properties, or a clause the rules do not pin.  Survivors are listed with file,
line and the change so that they can be judged by reading.

usage: tools/mutsweep.py [--files a.rs,b.rs] [--max N] [--jobs N] [--seed N] [--out FILE]
Nothing here runs the repository's code; it only re-runs the static checks on mutated sources."""
import json, os, random, re, shutil, subprocess, sys, tempfile, concurrent.futures

VERIF = os.path.dirname(os.path.dirname(os.path.abspath(__file__)))
REPO = "/repo"
DEFAULT_FILES = [
    "src/core/execute.rs", "src/core/optimize.rs", "src/core/compile.rs", "src/core/parse.rs", "src/core/area.rs",
    "src/core/state.rs", "src/core/code.rs", "src/number/num.rs", "src/number/big_number.rs", "src/app/debug.rs",
    "src/app/interpreter.rs", "src/app/run.rs", "src/app/build.rs", "src/app/check.rs", "src/util/io.rs", "src/util/ext.rs",
    "src/util/option.rs", "src/util/error.rs", "src/main.rs",
]
SWAPS = [
    (r"<=", "<"), (r"(?<![<=!>-])<(?![<=])", "<="), (r">=", ">"), (r"(?<![-=>])>(?![>=])", ">="), (r"==", "!="), (r"!=", "=="),
    (r"&&", "||"), (r"\|\|", "&&"), (r" \+ ", " - "), (r" - ", " + "), (r"\+= 1\b", "+= 2"), (r"-= 1\b", "-= 2"),
    (r"\btrue\b", "false"), (r"\bfalse\b", "true"), (r"!(?=[a-z_(*])", ""), (r"\.is_empty\(\)", ".is_empty() == false"),
    (r"\b0\b", "1"), (r"\b1\b", "2"), (r"\b2\b", "3"), (r"\b3\b", "4"), (r"\b4\b", "5"),
]


# wrong-variable mutants: identifiers that come in pairs in this code base (one is written where the other belongs)
PAIRS = [("left", "right"), ("out", "err"), ("stdout", "stderr"), ("lhs", "rhs"), ("up", "down"), ("get_hangul_count", "get_dot_count"),
         ("hangul_count", "dot_count"), ("min", "max"), ("add_core", "sub_core"), ("Less", "Greater"), ("i", "j"), ("a", "b"),
         ("push_stack", "pop_stack"), ("is_pos", "is_nan"), ("get_area_count", "get_hangul_count"), ("first", "last"), ("Some", "None"),
         ("add", "sub"), ("mul", "div"), ("area", "qu_area"), ("leaf", "qu_leaf"), ("get_stack(1)", "get_stack(2)"), ("idx", "i")]
SWAPS2 = [(r"\.rev\(\)", ""), (r"\.clone\(\)", ""), (r"\b(\d\d+)\b", "+1"), (r"\b([5-9])\b", "+1"), (r" \* ", " + "), (r" / ", " * "), (r" % ", " / "), (r"<<", ">>"), (r">>", "<<"),
          (r"\^=", "|="), (r"\.0\b", ".1"), (r"\.1\b", ".0"), (r"\.is_empty\(\)", ".is_empty() == false"), (r"\bcontinue;", "break;"), (r"\bbreak;", "continue;")]


# API-level mutants: a sibling method, a narrower cast, a dropped adapter
API = [(r"\.chars\(\)", ".chars().skip(1)"), (r"\.chars\(\)", ".chars().rev()"), (r"\.trim\(\)", ".trim_end()"), (r"\.trim\(\)", ".trim_start()"),
       (r" as isize", " as i32 as isize"), (r" as isize", " as u16 as isize"), (r" as usize", " as u8 as usize"), (r" as u64", " as u32 as u64"), (r" as u32", " as u16 as u32"),
       (r" as i64", " as i32 as i64"), (r" as u8", " as u8 & 0x7f"), (r" as u128", " as u64 as u128"),
       (r"\.iter\(\)", ".iter().rev()"), (r"\.iter\(\)", ".iter().skip(1)"), (r"\.pop\(\)", ".last().cloned()"),
       (r"\.push\(", ".insert(0, "), (r"\.last\(\)", ".first()"), (r"\.len\(\)", ".capacity()"), (r"\.len\(\)", ".len().saturating_sub(1)"),
       (r"\.is_zero\(\)", ".is_pos()"), (r"\.is_nan\(\)", ".is_zero()"), (r"\.is_pos\(\)", ".is_zero()"), (r"set_move", "set_copy"),
       (r"\.minus\(\)", ".flip()"), (r"\.flip\(\)", ".minus()"), (r"\.minus\(\);", ".shrink_to_fit();"), (r"\.to_string\(\)", ".to_string().trim().to_string()"),
       (r"\.clone\(\)", ".clone().into()"), (r"\.contains\(", ".starts_with("), (r"\.extend\(", ".clone().extend("), (r"\.unwrap_or\(", ".unwrap_or_default().max("),
       (r"\.rev\(\)", ".rev().skip(1)"), (r"\.enumerate\(\)", ".enumerate().skip(1)"), (r"\.zip\(", ".rev().zip(")]


def code_lines(path):
    """(line number, text) of lines that are code: not comments, not doc tests, not inside string-only template lines"""
    out = []
    in_test = False
    for i, l in enumerate(open(path, encoding="utf-8").read().split("\n")):
        s = l.strip()
        if s.startswith("//") or not s:
            continue
        if s.startswith("#[cfg(test)]"):
            in_test = True
        if in_test:
            continue
        if s.startswith('"') or s.startswith("\\n") or s.startswith("'"):
            continue
        out.append((i, l))
    return out


def mutants(files, rnd):
    ms = []
    for f in files:
        p = os.path.join(REPO, f)
        if not os.path.exists(p):
            continue
        for i, l in code_lines(p):
            code = l.split("//")[0]
            for pat, rep in SWAPS:
                for m in re.finditer(pat, code):
                    # skip generics / arrows / lifetimes / attributes
                    ctx = code[max(0, m.start() - 2): m.end() + 2]
                    if "->" in ctx or "=>" in ctx or "::<" in ctx or code.lstrip().startswith("#") or "fn " in code and ("<" in m.group(0) or ">" in m.group(0)):
                        continue
                    if m.group(0) in ("<", ">") and re.search(r"(Vec|Option|Result|Box|HashMap|impl|dyn|&mut|&)\s*<|<[A-Z]", code):
                        continue
                    new = code[: m.start()] + rep + code[m.end():] + l[len(code):]
                    if new != l:
                        ms.append({"file": f, "line": i, "old": l.strip(), "new": new.strip(), "text": new})
            for pat, rep in SWAPS2:
                for m in re.finditer(pat, code):
                    r_ = str(int(m.group(1)) + 1) if rep == "+1" else rep
                    new = code[: m.start()] + r_ + code[m.end():] + l[len(code):]
                    if new != l and "::<" not in code[max(0, m.start() - 3): m.end() + 3]:
                        ms.append({"file": f, "line": i, "old": l.strip(), "new": new.strip(), "text": new, "op": "swap2"})
            for x, y in PAIRS:
                for a_, b_ in ((x, y), (y, x)):
                    for m in re.finditer(r"(?<![A-Za-z0-9_])" + re.escape(a_) + r"(?![A-Za-z0-9_])", code):
                        if code[: m.start()].rstrip().endswith(("let", "let mut", "fn", "mut", "ref", "ref mut")) or code[m.end():].lstrip().startswith(":") and not code[m.end():].lstrip().startswith("::"):
                            continue  # a declaration or a struct field name, not a use
                        new = code[: m.start()] + b_ + code[m.end():] + l[len(code):]
                        ms.append({"file": f, "line": i, "old": l.strip(), "new": new.strip(), "text": new, "op": "pair"})
            for pat, rep in API:
                for m in re.finditer(pat, code):
                    new = code[: m.start()] + rep + code[m.end():] + l[len(code):]
                    ms.append({"file": f, "line": i, "old": l.strip(), "new": new.strip(), "text": new, "op": "api"})
            # ranges, error propagation, character literals
            for pat, rep in ((r"(?<![.=])\.\.(?![.=])", "..="), (r"\.\.=", ".."), (r"\b0\.\.", "1.."), (r"\)\?;", ").ok();"), (r"\)\?$", ").ok()")):
                for m in re.finditer(pat, code):
                    new = code[: m.start()] + rep + code[m.end():] + l[len(code):]
                    if new != l:
                        ms.append({"file": f, "line": i, "old": l.strip(), "new": new.strip(), "text": new, "op": "range_try"})
            for m in re.finditer(r"'([^'\\])'", code):
                c0 = m.group(1)
                c1 = chr(ord(c0) + 1)
                if c1 not in "'\\":
                    new = code[: m.start()] + "'" + c1 + "'" + code[m.end():] + l[len(code):]
                    ms.append({"file": f, "line": i, "old": l.strip(), "new": new.strip(), "text": new, "op": "charlit"})
            # a condition forced: the guarded code runs always / never
            m = re.match(r"^(\s*)(\} else )?if (?!let )(.+) \{\s*$", code)
            if m:
                for v in ("true", "false"):
                    new = "%s%sif %s {" % (m.group(1), m.group(2) or "", v)
                    ms.append({"file": f, "line": i, "old": l.strip(), "new": new.strip(), "text": new, "op": "ifforce"})
            m = re.match(r"^(\s*)while (?!let )(.+) \{\s*$", code)
            if m:
                new = "%swhile false {" % m.group(1)
                ms.append({"file": f, "line": i, "old": l.strip(), "new": new.strip(), "text": new, "op": "ifforce"})
            # statement deletion: a one-line statement that is not a declaration
            st = code.strip()
            if re.match(r"^(\*?[a-z_][A-Za-z0-9_.\[\]()&*]*\s*([-+*/%]?=)[^=]|[a-z_][A-Za-z0-9_.:]*(\.[a-z_]+)*\(|continue;|break;)", st) and st.endswith(";") and not st.startswith(("let ", "return", "use ", "pub ")) and st.count("(") == st.count(")"):
                ms.append({"file": f, "line": i, "old": st, "new": "/* deleted */", "text": l[: len(l) - len(l.lstrip())] + "/* deleted */"})
        # two neighbouring one-line statements exchanged (order of two updates)
        cl = code_lines(p)
        for (i1, l1), (i2, l2) in zip(cl, cl[1:]):
            if i2 != i1 + 1:
                continue
            s1, s2 = l1.strip(), l2.strip()
            ind = lambda x: len(x) - len(x.lstrip())
            if ind(l1) != ind(l2) or not s1.endswith(";") or not s2.endswith(";") or s1 == s2:
                continue
            if any(x.startswith(("let ", "use ", "return", "break", "continue", "pub ", "const ", "}")) for x in (s1, s2)) or s1.count("(") != s1.count(")") or s2.count("(") != s2.count(")"):
                continue
            ms.append({"file": f, "line": i1, "old": s1 + " / " + s2, "new": s2 + " / " + s1, "text": l2, "text2": l1, "op": "swaplines"})
    rnd.shuffle(ms)
    return ms


def run(m, cache):
    tmp = tempfile.mkdtemp(prefix="hvmut-")
    try:
        dst = os.path.join(tmp, "repo")
        os.makedirs(dst)
        shutil.copytree(os.path.join(REPO, "src"), os.path.join(dst, "src"))
        for f in ("Cargo.toml", "Cargo.lock"):
            shutil.copy(os.path.join(REPO, f), dst)
        p = os.path.join(dst, m["file"])
        lines = open(p, encoding="utf-8").read().split("\n")
        lines[m["line"]] = m["text"]
        if "text2" in m:
            lines[m["line"] + 1] = m["text2"]
        open(p, "w", encoding="utf-8").write("\n".join(lines))
        env = dict(os.environ, HV_REPO=dst, HV_CACHE=cache, HV_EVIDENCE_DIR=os.path.join(tmp, "ev"))
        q = subprocess.run([os.path.join(VERIF, "hv"), "all"], env=env, capture_output=True, text=True)
        out = q.stdout + q.stderr
        if "could not compile" in out or "error[E" in out or "extraction failed" in out or "error: " in out and "VIOLATION" not in out and "obligations" not in out:
            return m, "nocompile", []
        viol = sorted({l.split("property=")[1].split()[0] for l in out.splitlines() if l.startswith("VIOLATION")})
        return m, ("killed" if viol else "survived"), viol
    finally:
        shutil.rmtree(tmp, ignore_errors=True)


def main():
    a = sys.argv[1:]
    opt = {"--max": "200", "--jobs": "8", "--seed": "1", "--out": os.path.join(VERIF, ".cache", "mutsweep.json"), "--files": ",".join(DEFAULT_FILES), "--ops": ""}
    for i in range(0, len(a) - 1, 2):
        opt[a[i]] = a[i + 1]
    rnd = random.Random(int(opt["--seed"]))
    ms = mutants(opt["--files"].split(","), rnd)
    if opt["--ops"]:
        ms = [m for m in ms if m.get("op", "base") in opt["--ops"].split(",")]
    ms = ms[: int(opt["--max"])]
    jobs = int(opt["--jobs"])
    caches = [os.path.join(VERIF, ".cache", "mut%d" % k) for k in range(jobs)]
    res = []
    with concurrent.futures.ThreadPoolExecutor(max_workers=jobs) as ex:
        futs = [ex.submit(run, m, caches[k % jobs]) for k, m in enumerate(ms)]
        for f in concurrent.futures.as_completed(futs):
            m, st, viol = f.result()
            res.append({"file": m["file"], "line": m["line"] + 1, "old": m["old"], "new": m["new"], "status": st, "by": viol})
            if st == "survived":
                print("SURVIVED %s:%d\n    - %s\n    + %s" % (m["file"], m["line"] + 1, m["old"], m["new"]), flush=True)
    json.dump(res, open(opt["--out"], "w"), indent=1, ensure_ascii=False)
    n = {k: sum(1 for r in res if r["status"] == k) for k in ("killed", "survived", "nocompile")}
    print("mutants %d: killed %d, survived %d, did not compile %d" % (len(res), n["killed"], n["survived"], n["nocompile"]))


if __name__ == "__main__":
    main()
