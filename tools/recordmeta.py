#!/usr/bin/env python3
"""Record the last tools/seedtest.py results (.cache/seedtest.json) into the meta.json files:
seeded/ and selftest/ get detected_by + detecting_rules, refactorings/ get alarms + alarming_rules.
usage: tools/recordmeta.py   (after seedtest.py --all-props over the directories to refresh)"""
import json, os, re

VERIF = os.path.dirname(os.path.dirname(os.path.abspath(__file__)))


def main():
    res = json.load(open(os.path.join(VERIF, ".cache", "seedtest.json")))
    n = 0
    for name, per in sorted(res.items()):
        by = sorted(p for p, x in per.items() if x["rc"])
        rules = sorted({m.group(1) for p, x in per.items() if x["rc"] for k in x["keys"] for m in [re.match(r"- \[([A-Z0-9.]+?)[:\]]", k)] if m})
        for base, a, b in (("seeded", "detected_by", "detecting_rules"), ("selftest", "detected_by", "detecting_rules"), ("refactorings", "alarms", "alarming_rules")):
            mp = os.path.join(VERIF, base, name, "meta.json")
            if not os.path.exists(mp):
                continue
            m = json.load(open(mp))
            if len(per) < 14:
                # partial run: keep what was recorded for the properties not run
                by = sorted(set(by) | {p for p in m.get(a, []) if p not in per})
                rules = sorted(set(rules) | {r for r in m.get(b, []) if r.split(".")[0] not in per})
            m[a], m[b] = by, rules
            json.dump(m, open(mp, "w"), indent=1, ensure_ascii=False)
            n += 1
    print("recorded %d" % n)


if __name__ == "__main__":
    main()
