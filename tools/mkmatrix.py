#!/usr/bin/env python3
"""Print the detection matrix (seeded changes, reverts of fixes) and the false-alarm matrix (behaviour-preserving
refactorings) as Markdown tables, from the meta.json files that tools/seedtest.py results were recorded into.
usage: tools/mkmatrix.py > /tmp/matrix.md   (pasted into DESIGN.md section 13/14)"""
import glob, json, os

VERIF = os.path.dirname(os.path.dirname(os.path.abspath(__file__)))


def rows(d):
    for p in sorted(glob.glob(os.path.join(VERIF, d, "*", "meta.json"))):
        yield os.path.basename(os.path.dirname(p)), json.load(open(p))


def short(s, n=150):
    s = " ".join(str(s).split())
    return s if len(s) <= n else s[: n - 1] + "…"


def main():
    import sys, io, re
    if "--write" in sys.argv:
        buf = io.StringIO()
        old = sys.stdout
        sys.stdout = buf
        try:
            tables()
        finally:
            sys.stdout = old
        txt = buf.getvalue()
        seeds, refs = txt.split("| refactoring |", 1)
        refs = "| refactoring |" + refs
        dp = os.path.join(VERIF, "DESIGN.md")
        d = open(dp).read()
        d = re.sub(r"(<!-- MATRIX:SEEDS -->\n).*?(<!-- /MATRIX:SEEDS -->)", lambda m: m.group(1) + seeds.strip() + "\n" + m.group(2), d, flags=re.S)
        d = re.sub(r"(<!-- MATRIX:REFS -->\n).*?(<!-- /MATRIX:REFS -->)", lambda m: m.group(1) + refs.strip() + "\n" + m.group(2), d, flags=re.S)
        d = re.sub(r"(<!-- RULES:INVENTORY -->\n).*?(<!-- /RULES:INVENTORY -->)", lambda m: m.group(1) + rules_table().strip() + "\n" + m.group(2), d, flags=re.S)
        open(dp, "w").write(d)
        return
    tables()


def rules_table():
    """every rule of every property as it is registered (own rules, single shared rules, bundles)"""
    import importlib, sys
    sys.path.insert(0, VERIF)
    from rules import share
    lines = ["| rule | what it decides |", "|------|-----------------|"]
    n = 0
    for i in range(1, 15):
        mod = importlib.import_module("rules.p_c%02d" % i)
        rules = list(mod.RULES)
        for spec in getattr(mod, "DEFERRED_BUNDLES", []):
            rules += share.bundle(spec["prop"], spec["tag"], spec["module"], only=spec.get("only"), skip=spec.get("skip", ()), why=spec.get("why", ""))
        from rules import order
        if "C%02d" % i in order.PREFIXES:
            rules.append(("C%02d.ORDER" % i, order.DOC, None))
        for rid, doc, fn in rules:
            n += 1
            d = " ".join(doc.split())
            lines.append("| %s | %s |" % (rid, (d if len(d) <= 220 else d[:219] + "…").replace("|", "\\|")))
    lines.append("")
    lines.append("%d rule instances (a rule shared by several properties is counted once per property)." % n)
    return "\n".join(lines) + "\n"


def tables():
    print("| change | what it breaks | own | detected by (rules) |")
    print("|--------|----------------|-----|---------------------|")
    tot = own = 0
    for name, m in list(rows("seeded")) + list(rows("selftest")):
        det = m.get("detected_by", [])
        rules = [r for r in m.get("detecting_rules", []) if r.startswith(m["property"]) or True]
        mine = [r for r in rules if r.startswith(m["property"] + ".")]
        others = sorted({r.split(".")[0] for r in rules if not r.startswith(m["property"] + ".")})
        tot += 1
        own += m["property"] in det
        print("| %s | %s | %s | %s%s |" % (name, short(m.get("summary", "")).replace("|", "\\|"), m["property"], ", ".join(mine) or "—", (" (+ " + ",".join(others) + ")") if others else ""))
    print()
    print("%d of %d changes are detected by a rule of the property they were written for." % (own, tot))
    print()
    print("| refactoring | what it rewrites | alarms |")
    print("|-------------|------------------|--------|")
    n = quiet = 0
    for name, m in rows("refactorings"):
        n += 1
        al = m.get("alarming_rules", [])
        quiet += not al
        print("| %s | %s | %s |" % (name, short(m.get("summary", m.get("what", ""))).replace("|", "\\|"), ", ".join(al) or "silent"))
    print()
    print("%d of %d behaviour-preserving refactorings leave all fourteen checks silent." % (quiet, n))


if __name__ == "__main__":
    main()
