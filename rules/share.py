"""Rules of one property re-run under another property's name.

Most of a change's effect is seen by the property whose code it touches; but several properties rest on the same
code (every property that computes with numbers rests on BigNum; every property that compares optimisation levels
rests on opt_execute; everything that shows captured output rests on CustomWriter).  A bundle re-runs the rules of
the owning property under the id of the dependent one, so that the dependent property's own check reports a defect
in the shared code."""
import importlib


def bundle(prop, tag, module, only=None, skip=(), why=""):
    """list of (rule id, doc, fn) entries `prop.tag.X` for every rule `Cnn.X` of `module` (lazy import)"""
    out = []
    mod_prop = "C" + module[-2:]

    def lazy(rid):
        def run(ctx, R):
            m = importlib.import_module("rules." + module)
            for r_id, doc, fn in m.RULES:
                if r_id == rid:
                    return fn(ctx, R)
            raise KeyError(rid)
        return run

    m = importlib.import_module("rules." + module)
    seen = set()
    for r_id, doc, fn in list(m.RULES):
        suffix = r_id.split(".", 1)[1]
        if (only is not None and suffix not in only) or suffix in skip or suffix in seen or suffix == "ORDER":
            continue
        # do not re-share what the owner itself only borrows from `prop` (avoids cycles and duplicates)
        if "shared with %s." % prop in doc:
            continue
        seen.add(suffix)
        out.append(("%s.%s.%s" % (prop, tag, suffix), "%s (shared with %s%s)" % (doc, r_id, "; " + why if why else ""), lazy(r_id)))
    return out
