"""C12 — entering a program line by line interactively equals running it whole (structural clauses)."""
import os, sys
from .cfg import CFG
from .facts import callee_name
from .interp import Events, normal_cfg
from .lang import Roles
from .origin import Origins, show, walk
from .util import Vars, reaches_without
from . import p_c01, p_c11

TECHNIQUE = 'static analysis: ownership threading of the session state (no in-place mutation), flush-before-prompt cut queries, writer language, shared interpreter-loop and reader rules'
LEVEL = "other"
EXPLANATION = (
    'Persistence and pairing rules of the interactive interpreter decided on all CFG paths of interpreter::run: '
    '(STATE) the interpreter state lives outside the line loop; inside the loop it is only ever replaced by the '
    'result of execute(.., state, command) — threading stacks, label table, last jump source and command log from '
    'line to line — or, under the `clear` command, by a freshly constructed state (UnOptState::new(), whose fields '
    'are all initial, so nothing of the previous session survives); every command of an entered line is executed in '
    "order on the line's own capturing writers; (FLUSH) every path from an executed line back to the prompt passes "
    'through a flush of both per-line writers, whose flush delivers the whole buffer exactly once (C11.ONCE rules '
    're-run) and program-requested exits flush first (C01.POP); (LOOP) execute() runs from the appended command until '
    'control passes it (C01.LOOP); (EOFMARK) the prompt loop leaves on an empty line, so the stdin reader must return '
    'every entered line with its terminator (otherwise an entered empty line ends the session). The line-by-line / '
    'whole-program equality itself is NOT decided.'
)
ASSUMPTIONS = ["rustc MIR (nightly 1.97, mir-opt-level=0); unwind edges ignored", "execute() and execute_one are the interpreter (C01)"]
TRUSTED = ["rustc nightly MIR", "/verif/rules A-ORG/A-DOM/A-GEA"]

INTERP = "hyeong::app::interpreter::run"
EXECUTE = "hyeong::core::execute::execute"
STATE_TY = "core::state::UnOptState"
NEW = "core::state::UnOptState::new"


def rule_state(ctx, R):
    fb = ctx.fb
    b = fb.bodies.get(INTERP)
    if not R.anchor(b is not None, "interpreter", "interpreter::run"):
        return
    R.analyse(b.name)
    cfg = normal_cfg(b)
    vars_ = Vars(b)
    org = Origins(b, fb)
    st = [l for l in p_c11.locals_of_type(b, STATE_TY)]
    # the persistent state: the UnOptState local that is passed (moved) into execute
    execs = [(bi, t) for bi, t in b.calls() if callee_name(t["f"], fb) == EXECUTE]
    if not R.anchor(len(execs) >= 1, "execute_call", "call of execute() for the commands of an entered line"):
        return
    keys = {vars_.root_key(t["args"][3]) for _, t in execs}
    if not R.anchor(len(keys) == 1 and None not in keys, "state_var", "the persistent interpreter state variable"):
        return
    sk = keys.pop()
    sl = sk[1]
    # the line loop: the loop containing the read of a line
    reads = [bi for bi, t in b.calls() if callee_name(t["f"], fb) == "hyeong::util::io::read_line_from"]
    loop_heads = {}
    for be in cfg.back_edges():
        loop_heads.setdefault(be[1], set()).update(cfg.natural_loop(be))
    line_loop = None
    for h, blocks in loop_heads.items():
        if any(r in blocks for r in reads) and (line_loop is None or len(blocks) > len(line_loop[1])):
            line_loop = (h, blocks)
    if not R.anchor(line_loop is not None, "line_loop", "the prompt loop"):
        return
    head, loop = line_loop
    # execute() may be called in a private helper that was spliced in (fn run_line(.., state, line) -> Result<state>): the
    # local handed to execute is then the helper's parameter, which received the session state by a plain move.  The
    # session variable is the one initialised before the prompt loop; the helper's parameter is a second member of the
    # family, and the value handed over (`passed`) may come back unchanged (a line without commands).
    def _through(l, n=0):
        """the named state local a compiler temporary was moved from"""
        ds_ = vars_.defs.get(l, [])
        if l not in st and n < 8 and len(ds_) == 1 and ds_[0][0] == "assign":
            r_ = ds_[0][3]["r"]
            if r_["k"] == "use" and r_["x"].get("k") in ("move", "copy") and not r_["x"]["p"]["proj"]:
                return _through(r_["x"]["p"]["l"], n + 1)
        return l

    outer, passed, handover = sl, [], set()
    for kind_, db_, di_, pl_ in vars_.defs.get(sl, []):
        if kind_ == "assign" and pl_["r"]["k"] == "use" and pl_["r"]["x"].get("k") in ("move", "copy") and not pl_["r"]["x"]["p"]["proj"]:
            x_ = _through(pl_["r"]["x"]["p"]["l"])
            if x_ in st and x_ != sl and any(d_[1] not in loop for d_ in vars_.defs.get(x_, [])) and all(d_[1] in loop for d_ in vars_.defs.get(sl, [])):
                outer = x_
                passed.append(org.of_rvalue(pl_["r"], db_, di_))
                handover.add(pl_["r"]["x"]["p"]["l"])
    members = [outer] + ([sl] if sl != outer else [])
    sks = {(sk[0], m) for m in members}
    roles = Roles(b, fb, param_roles={1: "TERM", 2: "OPT"}, overrides={m: "SESSION" for m in members})

    def _exec_ok(x):
        if not (x[0] == "call" and x[1] == EXECUTE):
            return False
        a3 = roles.of_origin(x[2][3])
        return a3 in ("SESSION", "LOOPVAR") or "SESSION" in a3 or "execute::execute" in a3 or "UnOptState::new" in a3 or (len(members) > 1 and _leaf_ok(x[2][3], 1))

    def _leaf_ok(o, depth=0):
        """family case: the value is the state as it was handed to the helper, or what execute() returned for it"""
        if o in passed:
            return True
        if o[0] == "phi":
            return all(_leaf_ok(x, depth) for x in o[1])
        if o[0] == "cycle":
            return depth > 0 or o[1] in handover or o[1] in members
        if o[0] in ("try", "continue") and len(o) > 1 and isinstance(o[1], tuple):
            return _exec_ok(o[1]) or _leaf_ok(o[1], depth + 1)
        return False

    n_in = 0
    for d in [d_ for m in members for d_ in vars_.defs.get(m, [])]:
        kind, db, di, payload = d
        inside = db in loop
        if len(members) > 1 and kind == "assign":
            rr = payload["r"]
            if rr["k"] == "use" and rr["x"].get("k") in ("move", "copy") and not rr["x"]["p"]["proj"] and _through(rr["x"]["p"]["l"]) in members:
                continue  # the hand-over itself
            o = org.of_rvalue(rr, db, di)
            if o != ("call", NEW, ()):
                n_in += 1 if inside else 0
                ok = _leaf_ok(o)
                # a value that arrives through another state-typed local (the unwrapped result): that local's definitions too
                if ok and rr["k"] == "use" and rr["x"].get("k") in ("move", "copy") and not rr["x"]["p"]["proj"] and _through(rr["x"]["p"]["l"]) in st:
                    ok = all(k2 == "assign" and _leaf_ok(org.of_rvalue(p2["r"], b2, i2)) for k2, b2, i2, p2 in vars_.defs.get(_through(rr["x"]["p"]["l"]), []))
                R.check(ok, "state:threaded:%d" % n_in, "inside the prompt loop the state is only replaced by the result of executing a command on it (execute() called in a helper): %s" % roles.of_origin(o)[:120], payload["span"]["at"])
                continue
        if kind == "call":
            n = callee_name(payload["f"], fb)
            if not inside:
                R.check(n == NEW, "state:init", "the session state starts as a fresh UnOptState::new()", payload["span"]["at"])
            else:
                n_in += 1
                R.check(n == NEW, "state:clear_is_new", "inside the prompt loop the state is constructed anew only by UnOptState::new() (the `clear` command)", payload["span"]["at"])
        else:
            o = org.of_rvalue(payload["r"], db, di)
            r = roles.of_origin(o)
            n_in += 1 if inside else 0
            if o == ("call", NEW, ()):
                R.check(inside, "state:clear_is_new", "inside the prompt loop the state is constructed anew only by UnOptState::new() (the `clear` command)", payload["span"]["at"])
                continue
            ok = o[0] == "try" and o[1][0] == "call" and o[1][1] == EXECUTE
            if ok:
                args = [roles.of_origin(a) for a in o[1][2]]
                ok = args[3] in ("SESSION", "LOOPVAR") or "SESSION" in args[3] or "execute::execute" in args[3] or "UnOptState::new" in args[3]
            R.check(ok, "state:threaded:%d" % n_in, "inside the prompt loop the state is only replaced by the result of executing a command on it: %s" % r[:120], payload["span"]["at"])
    R.floor("state_updates_in_loop", n_in, 2, "assignments to the session state inside the prompt loop (execute result, clear)")
    # nothing else writes the state: no &mut borrow handed to anything but execute (by value)
    for bi, t in b.calls():
        for a in t["args"]:
            if vars_.root_key(a) in sks and callee_name(t["f"], fb) != EXECUTE:
                R.fail("state:other_use:%s" % callee_name(t["f"], fb), "the session state is handed to something other than execute(): %s" % callee_name(t["f"], fb), t["span"]["at"])
    # no in-place mutation of the session state: it is never mutably borrowed or stored into field by field
    # (everything that changes it is the by-value round trip through execute(), or a fresh UnOptState::new())
    for bi, blk in enumerate(b.blocks):
        if blk["cleanup"]:
            continue
        for s in blk["stmts"]:
            if s["k"] != "assign":
                continue
            if s["r"]["k"] == "ref" and s["r"]["mut"] and s["r"]["p"]["l"] in members:
                R.fail("state:mut_borrow", "the session state is mutably borrowed (in-place modification instead of execute()'s result or a fresh state)", s["span"]["at"])
            if s["p"]["l"] in members and s["p"]["proj"]:
                R.fail("state:field_store", "a field of the session state is overwritten in place", s["span"]["at"])
    # the `clear` arm is selected by comparing the trimmed line with "clear"
    consts = set()
    for bi, t in b.calls():
        for a in t["args"]:
            for o in walk(org.of_operand(a, bi, "t")):
                if isinstance(o, tuple) and o[0] == "const" and isinstance(o[2], str):
                    consts.add(o[2])
    R.check("clear" in consts, "state:clear_keyword", "the keyword `clear` is recognised")
    # ... and `clear` does reset: on the edge where the trimmed line equals "clear", the fresh state is assigned before
    # the next prompt, and only there
    from .util import dominating_edge_labels
    evc = Events(b, fb, roles=roles)
    clear_edges = []
    for gb, blk in enumerate(b.blocks):
        tt = blk["term"]
        if tt["k"] == "switch" and not blk["cleanup"]:
            for s_ in cfg.succ[gb]:
                lab = evc.generic_edge(gb, tt, s_) or ""
                if "K'clear'" in lab and "str::trim(" in lab and lab.endswith("=1"):
                    clear_edges.append((gb, s_))
    resets = []
    for d in vars_.defs.get(outer, []):
        kind, db, di, payload = d
        if db in loop and ((kind == "call" and callee_name(payload["f"], fb) == NEW) or (kind == "assign" and org.of_rvalue(payload["r"], db, di) == ("call", NEW, ()))):
            resets.append(db)
    outside_ = [x for x in range(len(b.blocks)) if x not in loop]
    ok = len(clear_edges) == 1 and bool(resets) and all(not reaches_without(cfg, [head], rb, cut_edges=clear_edges) for rb in resets) and not reaches_without(cfg, [clear_edges[0][1]], [head], cut_blocks=resets + outside_)
    R.check(ok, "state:clear_resets", "`clear` (and nothing else) replaces the session state by a fresh one before the next prompt (clear edges %d, resets %d)" % (len(clear_edges), len(resets)), b.blocks[resets[0]]["term"]["span"]["at"] if resets else b.span)
    # commands of a line are executed in order: execute is called inside a for-loop over the parsed line
    for bi, t in execs:
        rs = [roles.of_operand(a, bi) for a in t["args"]]
        R.check(rs[4].startswith("ELEM<") and "parse::parse" in rs[4], "state:per_command", "every command parsed from the entered line is executed, in order: %s" % rs[4][:100], t["span"]["at"])
        w = [vars_.root_key(a) for a in t["args"][1:3]]
        R.check(w[0] is not None and w[1] is not None and w[0] != w[1] and all(b.lty(k[1]).startswith("util::io::CustomWriter<") for k in w), "state:writers", "the line runs on the two per-line capturing writers", t["span"]["at"])
    # UnOptState::new() is all-initial
    nb = fb.bodies.get(NEW)
    if R.anchor(nb is not None, "new", "UnOptState::new"):
        o2 = Origins(nb, fb)
        r2 = Roles(nb, fb)
        aggs = [r2.of_origin(o2.of_rvalue(s["r"], bi, si)) for bi, blk in enumerate(nb.blocks) for si, s in enumerate(blk["stmts"]) if s["k"] == "assign" and s["r"]["k"] == "agg" and s["r"].get("adt", "").endswith("UnOptState")]
        ok = len(aggs) == 1 and aggs[0].count("HashMap::new()") == 2 and "K3" in aggs[0] and "Option::None{}" in aggs[0]
        R.check(ok, "state:new_initial", "a fresh state has empty stacks, an empty command log, an empty label table, stack 3 selected and no jump source: %s" % aggs, nb.span)


def rule_flush(ctx, R):
    fb = ctx.fb
    b = fb.bodies.get(INTERP)
    if not R.anchor(b is not None, "interpreter", "interpreter::run"):
        return
    R.analyse(b.name)
    cfg = normal_cfg(b)
    vars_ = Vars(b)
    execs = [(bi, t) for bi, t in b.calls() if callee_name(t["f"], fb) == EXECUTE]
    reads = [bi for bi, t in b.calls() if callee_name(t["f"], fb) == "hyeong::util::io::read_line_from"]
    writers = [l for l, dcl in enumerate(b.locals) if dcl["ty"].startswith("util::io::CustomWriter<") and l in b.local_names()]
    if not R.anchor(len(writers) == 2 and execs and reads, "anchors", "two per-line writers, execute call, prompt read"):
        return
    for w in writers:
        fl = [bi for bi, t in b.calls() if callee_name(t["f"], fb) == "std::io::Write::flush" and vars_.root_key(t["args"][0]) == ("L", w)]
        for eb, t in execs:
            ok = bool(fl) and not any(reaches_without(cfg, cfg.succ[eb], rb, cut_blocks=fl) for rb in reads)
            R.check(ok, "flush:%s" % b.lname(w), "every path from an executed command back to the prompt flushes the %s writer (the `?` error exit leaves the loop)" % b.lname(w), t["span"]["at"])


def rule_eofmark(ctx, R, body_name=None):
    """An entered empty line must not look like end of input: where the prompt loop leaves on `line == ""`, the real
    stdin reader has to return every line with its terminator (C14.KEEPNL)."""
    from . import p_c14
    fb = ctx.fb
    b = fb.bodies.get(body_name or INTERP)
    if not R.anchor(b is not None, "prompt_loop_fn", body_name or INTERP):
        return
    R.analyse(b.name)
    cfg = normal_cfg(b)
    roles = Roles(b, fb, param_roles={1: "TERM", 2: "OPT"})
    ev = Events(b, fb, roles=roles)
    eof_edges = []
    for gb, blk in enumerate(b.blocks):
        tt = blk["term"]
        if tt["k"] == "switch":
            for s_ in cfg.succ[gb]:
                lab = ev.generic_edge(gb, tt, s_) or ""
                if "io::read_line_from" in lab and ("K''" in lab or "is_empty" in lab) and "trim" not in lab:
                    eof_edges.append((gb, s_, lab))
    exits = [bi for bi, t in b.calls() if callee_name(t["f"], fb) == "std::process::exit"]
    reads = [bi for bi, t in b.calls() if callee_name(t["f"], fb) == "hyeong::util::io::read_line_from"]
    uses_empty = [e for e in eof_edges if e[2].endswith("=1") and any(reaches_without(cfg, [e[1]], x, cut_blocks=reads) for x in exits)]
    # the session ends only at end of input or on the `exit` command: every process::exit of the prompt loop sits
    # behind one of these two tests taken the right way
    from .util import dominating_edge_labels
    for x in exits:
        labs = dominating_edge_labels(cfg, b, ev, x)
        by_eof = any("io::read_line_from" in l and ("K''" in l or "is_empty" in l) and "trim" not in l and l.endswith("=1") for l in labs)
        by_cmd = any("K'exit'" in l and l.endswith("=1") for l in labs)
        R.check(by_eof or by_cmd, "eofmark:exit_guard", "the prompt loop exits only when the line read is empty (end of input) or is the `exit` command: %s" % [l[-50:] for l in labs if "read_line_from" in l][:3], b.blocks[x]["term"]["span"]["at"])
    # ... and end of input does end the session: from the end-of-input edge the exit cannot be avoided (a loop that
    # went on would read the same end of input for ever)
    heads_ = [h for _, h in cfg.back_edges()]
    for e in uses_empty:
        R.check(not reaches_without(cfg, [e[1]], heads_ + list(cfg.returns) + reads, cut_blocks=exits), "eofmark:eof_exits", "end of input (an empty untrimmed line) ends the session on every path (no way back to the prompt)", b.blocks[e[0]]["term"]["span"]["at"])
    if not uses_empty:
        eofs_ = [e for e in eof_edges if e[2].endswith("=1")]
        R.check(not eofs_, "eofmark:eof_exits", "the test for end of input leads to the exit (found the test, but no exit behind it: the prompt would be repeated for ever at end of input)", b.blocks[eofs_[0][0]]["term"]["span"]["at"] if eofs_ else None)
        R.ok("eofmark:not_used", "the prompt loop does not take the untrimmed empty string as end of input; nothing to require of the reader")
        return
    R.ok("eofmark:used", "the prompt loop leaves on an empty (untrimmed) line: %s" % uses_empty[0][2][:100], b.blocks[uses_empty[0][0]]["term"]["span"]["at"])
    return dict((r[0], r[2]) for r in p_c14.RULES)["C14.KEEPNL"](ctx, R)


def rule_show(ctx, R):
    return p_c11.rule_show(ctx, R, INTERP)


RULES = [
    ("C12.STATE", "the session state is threaded through execute() from line to line; clear = fresh state", rule_state),
    ("C12.FLUSH", "per-line output is flushed before the next prompt", rule_flush),
    ("C12.ONCE", "capturing writer delivers text exactly once", p_c11.rule_once),
    ("C12.EXITFLUSH", "program-requested exits flush both writers first", p_c01.rule_pop),
    ("C12.LOOP", "execute(): run from the appended command until control passes it", p_c01.rule_loop),
    ("C12.SHOW", "the display callbacks of the per-line writers show every non-empty text (whitespace-only output is output)", rule_show),
    ("C12.EOFMARK", "the interactive loop takes the empty string as end of input, so the real stdin reader must hand every entered line back with its terminator (shared with C14.KEEPNL)", rule_eofmark),
]


RULES.append(("C12.STATECELL", "the state that is threaded from line to line obeys the NaN rule of the stack cell (shared with C01.NAN): NaN is stored on a non-empty stack and never at the bottom of an empty one", p_c01.rule_nan))


RULES.append(("C12.JUMP", "labels and the ♡ target work across lines: area evaluation, label lookup/registration and ♡ return of execute_one (shared with C01.JUMP)", p_c01.rule_area_jump))
RULES.append(("C12.STEP", "each entered command is executed as the language defines it: six arms of execute_one (shared with C01.ARM)", p_c01.rule_arms))

RULES.append(("C12.INIT", "the state a session starts from (and `clear` returns to): empty, stack 3 selected, no jump source (shared with C01.INIT)", p_c01.rule_init))

RULES.append(("C12.STATEAPI", "the accessors of the state (selected stack, jump source, label table, command log) read and write exactly their field (shared with C01.STATEAPI)", p_c01.rule_stateapi))


def _codeapi(ctx, R):
    from . import p_c01
    return p_c01.rule_codeapi(ctx, R)


RULES.append(("C12.CODEAPI", "the words kind / syllable count / dot count / area count / area mean the fields of the command record: getters and constructors of UnOptCode and OptCode (shared with C01.CODEAPI)", _codeapi))


def _clones(ctx, R):
    from . import p_c01
    return p_c01.rule_clones(ctx, R)


RULES.append(("C12.CLONE", "snapshots and copies are complete: Clone of states, commands, areas and numbers copies every field (shared with C01.CLONE)", _clones))


class _Only:
    """a recorder proxy that forwards the obligations whose key starts with one of `keys` (and every lost anchor,
    so the rule still fails closed) and drops the rest: a clause of another property's rule, not the whole rule"""

    def __init__(self, R, keys):
        self._R, self._keys = R, tuple(keys)

    def _mine(self, key):
        return key.startswith(self._keys)

    def analyse(self, what):
        self._R.analyse(what)

    def note(self, s):
        self._R.note(s)

    def ok(self, key, desc, where=None):
        if self._mine(key):
            self._R.ok(key, desc, where)

    def fail(self, key, desc, where=None, detail=None, kind="violation"):
        if self._mine(key) or kind == "anchor-lost":
            self._R.fail(key, desc, where, detail, kind)

    def check(self, cond, key, desc, where=None, detail=None):
        if cond:
            self.ok(key, desc, where)
        else:
            self.fail(key, desc, where, detail)
        return cond

    def anchor(self, cond, key, desc, where=None):
        return self._R.anchor(cond, key, desc, where)

    def floor(self, key, actual, counted, desc, slack=0.6):
        self._R.floor(key, actual, counted, desc, slack)


def rule_parse_local(ctx, R):
    """A line parses to the same commands whether it is parsed alone or as part of the whole file.  Two clauses of the
    parser are necessary for that and visible in its shape: (1) the acceptance test of a start syllable compares two
    positions counted in the same unit (a byte offset against a character index makes the verdict depend on how much
    non-ASCII text precedes, that is, on the lines entered before); (2) both partially built area trees are reset at
    every command start (nothing of an earlier command, possibly of an earlier line, leaks into the next one)."""
    from . import p_c04
    p_c04.rule_defs(ctx, _Only(R, ("parse:index_kind",)))
    p_c04.rule_reset(ctx, R)


RULES.append(("C12.PARSE", "a line parses alone as it parses inside the whole file: start-syllable acceptance compares positions of one unit; area trees are reset at every command start (clauses of C04.DEFS and C04.RESET)", rule_parse_local))

