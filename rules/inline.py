"""MIR-level inlining of helper functions (Python, over the JSON facts).

A *helper* is a local, non-recursive `fn` that did not exist in the tree the rules were written for
(rules/known_functions.txt lists the functions of that tree; they keep their identity because rules
anchor on them).  Calls of helpers are spliced into their callers, so that extracting part of an
anchored function into a new private function does not change what the analyses see: origins, event
languages, cut queries and audits all run on the inlined bodies."""
import copy, os

MAX_BLOCKS = 400
MAX_DEPTH = 3


def known_functions():
    p = os.path.join(os.path.dirname(os.path.abspath(__file__)), "known_functions.txt")
    with open(p, encoding="utf-8") as fh:
        return {l.strip() for l in fh if l.strip()}


def _renum(x, loff, boff, is_term=False):
    """deep copy with locals shifted by loff; block targets are handled by the caller"""
    if isinstance(x, dict):
        if "l" in x and "proj" in x and isinstance(x["l"], int):
            return {"l": x["l"] + loff, "proj": [_renum_proj(e, loff) for e in x["proj"]]}
        return {k: _renum(v, loff, boff) for k, v in x.items()}
    if isinstance(x, list):
        return [_renum(v, loff, boff) for v in x]
    return x


def _renum_proj(e, loff):
    if isinstance(e, dict) and "i" in e:
        d = dict(e)
        d["i"] = e["i"] + loff
        return d
    return copy.deepcopy(e)


def _shift_term(t, loff, boff):
    t2 = _renum(t, loff, boff)
    k = t2["k"]
    if k in ("goto", "drop", "assert", "call"):
        if t2.get("t") is not None:
            t2["t"] = t2["t"] + boff
    if k == "switch":
        t2["arms"] = [[v, bb + boff] for v, bb in t2["arms"]]
        t2["otherwise"] = t2["otherwise"] + boff
    if t2.get("unwind") is not None:
        t2["unwind"] = t2["unwind"] + boff
    return t2


def inline_body(raw, lookup, helpers, depth=0, stack=()):
    """returns a new raw body dict with calls to helpers spliced in"""
    if depth >= MAX_DEPTH:
        return raw
    out = None
    bi = 0
    changed = False
    work = raw
    while True:
        site = None
        for i, blk in enumerate(work["blocks"]):
            t = blk["term"]
            if t["k"] != "call" or blk["cleanup"] or "indirect" in t["f"]:
                continue
            r = t["f"].get("resolved") or t["f"].get("def")
            if r in helpers and r not in stack and r != work["path"] and not blk.get("_noinline"):
                callee = lookup(r)
                if callee is None or len(callee["blocks"]) > MAX_BLOCKS or callee["argc"] != len(t["args"]):
                    continue
                site = (i, r, callee)
                break
        if site is None:
            break
        if len(work["blocks"]) > 20 * MAX_BLOCKS:
            raise RuntimeError("inlining of helpers into %s does not converge (more than %d blocks)" % (work["path"], 20 * MAX_BLOCKS))
        i, r, callee = site
        callee = inline_body(callee, lookup, helpers, depth + 1, stack + (work["path"],))
        if work is raw:
            work = copy.deepcopy(raw)
        blk = work["blocks"][i]
        t = blk["term"]
        loff = len(work["locals"])
        boff = len(work["blocks"])
        # locals
        for d in callee["locals"]:
            work["locals"].append(dict(d))
        for d in callee.get("debug", []):
            d2 = _renum(d, loff, boff)
            d2.pop("arg", None)
            work.setdefault("debug", []).append(d2)
        # parameter passing
        for ai, a in enumerate(t["args"]):
            blk["stmts"].append({"k": "assign", "p": {"l": loff + 1 + ai, "proj": []}, "r": {"k": "use", "x": copy.deepcopy(a)}, "span": t["span"]})
        target = t["t"]
        dest = t["dest"]
        span = t["span"]
        blk["term"] = {"k": "goto", "t": boff, "span": span}
        # callee blocks
        for cb in callee["blocks"]:
            nb = {"cleanup": cb["cleanup"], "stmts": [_renum(s, loff, boff) for s in cb["stmts"]]}
            ct = cb["term"]
            if ct["k"] == "return":
                nb["stmts"].append({"k": "assign", "p": copy.deepcopy(dest), "r": {"k": "use", "x": {"k": "move", "p": {"l": loff, "proj": []}}}, "span": span})
                if target is None:
                    nb["term"] = {"k": "unreachable", "span": ct["span"]}
                else:
                    nb["term"] = {"k": "goto", "t": target, "span": span}
            else:
                nb["term"] = _shift_term(ct, loff, boff)
            work["blocks"].append(nb)
        changed = True
    if changed:
        work["_inlined"] = True
    return work
