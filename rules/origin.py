"""A-ORG: origin / role classification of MIR operands by backward slicing.

An origin is a nested tuple:
  ("const", ty, value)            integer / bool / char / str constant
  ("named", def_path)             named constant (Const::Unevaluated)
  ("arg", i)                      parameter i (1-based), never reassigned
  ("call", callee, (args...))     result of a call (callee = canonical name)
  ("bin", op, l, r) ("un", op, x) ("cast", from, to, x)
  ("field", name, base) ("variant", name, base) ("index", base, idx)
  ("agg", kind, (fields...))      aggregate
  ("discr", x)
  ("phi", (alts...))              several reaching definitions with different origins
  ("upvar", name)                 closure capture
  ("cycle", local) / ("uninit", local) / ("unknown", text)
References, derefs, moves, copies and unsizing/pointer coercions are transparent.
"""
from .facts import callee_name

TRANSPARENT_CALLS = {
    "core::ops::deref::Deref::deref",
    "core::ops::deref::DerefMut::deref_mut",
    "core::convert::AsRef::as_ref",
    "core::convert::AsMut::as_mut",
    "core::borrow::Borrow::borrow",
    "core::borrow::BorrowMut::borrow_mut",
    "core::iter::traits::collect::IntoIterator::into_iter",
    "core::hint::must_use",
}


def _try_of(x):
    """the value `x?` continues with.  When x is a Result / Option that was built in this very body (a helper that
    was spliced in: `Ok(v)` on one path, an early error return on the others) the value is what was wrapped - the
    error alternatives do not continue."""
    alts = x[1] if x[0] == "phi" else (x,)
    oks, rest = [], []
    for a in alts:
        if a[0] == "agg" and a[1].rsplit("::", 1)[-1] in ("Ok", "Some") and len(a[2]) == 1:
            oks.append(a[2][0])
        elif (a[0] == "call" and a[1].endswith("FromResidual::from_residual")) or (a[0] == "agg" and a[1].rsplit("::", 1)[-1] in ("Err", "None")):
            continue
        else:
            rest.append(a)
    if oks and not rest:
        uniq = []
        for o in oks:
            if o not in uniq:
                uniq.append(o)
        return uniq[0] if len(uniq) == 1 else ("phi", tuple(uniq))
    return ("try", x)


class Origins:
    def __init__(self, body, fb=None, max_depth=40, overrides=None):
        self.body = body
        self.fb = fb
        self.max_depth = max_depth
        self.overrides = overrides or {}  # local -> origin (rule-supplied role of a loop variable)
        self.defs = {}  # local -> list of (block, idx|'t', kind, payload)
        self.partial_defs = {}  # local -> list of sites that assign a projection of it
        for bi, b in enumerate(body.blocks):
            if b["cleanup"]:
                continue
            for si, s in enumerate(b["stmts"]):
                if s["k"] == "assign":
                    p = s["p"]
                    if not p["proj"]:
                        self.defs.setdefault(p["l"], []).append((bi, si, "assign", s))
                    else:
                        self.partial_defs.setdefault(p["l"], []).append((bi, si, "assign", s))
            t = b["term"]
            if t["k"] == "call":
                p = t["dest"]
                if not p["proj"]:
                    self.defs.setdefault(p["l"], []).append((bi, "t", "call", t))
                else:
                    self.partial_defs.setdefault(p["l"], []).append((bi, "t", "call", t))
        self._memo = {}
        self._preds = None

    # ------------------------------------------------------------------ reaching definitions
    def preds(self):
        if self._preds is None:
            from .cfg import CFG
            self._cfg = CFG(self.body)
            self._preds = self._cfg.pred
        return self._preds

    def reaching(self, local, block, idx):
        """definition sites of `local` that reach the point just before (block, idx);
        idx is a statement index, or 't' for the terminator. Returns list of sites and a flag
        telling whether the function entry reaches the point without a definition."""
        defs = self.defs.get(local, [])
        if not defs:
            return [], True
        by_block = {}
        for d in defs:
            by_block.setdefault(d[0], []).append(d)
        res = []
        entry = False
        # within the block, before idx
        def last_before(bi, limit):
            best = None
            for d in by_block.get(bi, ()):
                pos = len(self.body.blocks[bi]["stmts"]) if d[1] == "t" else d[1]
                if limit is None or pos < limit:
                    if best is None or pos > best[0]:
                        best = (pos, d)
            return best[1] if best else None

        limit = len(self.body.blocks[block]["stmts"]) if idx == "t" else idx
        d = last_before(block, limit)
        if d is not None:
            return [d], False
        seen = set()
        st = list(self.preds()[block])
        if block == 0:
            entry = True
        while st:
            b = st.pop()
            if b in seen:
                continue
            seen.add(b)
            d = last_before(b, None)
            if d is not None:
                # a call's destination is only defined on the edge to its target
                if d not in res:
                    res.append(d)
                continue
            if b == 0:
                entry = True
            st.extend(self.preds()[b])
        return res, entry

    # ------------------------------------------------------------------ origins
    def of_operand(self, op, block, idx, depth=0, stack=()):
        k = op["k"]
        if k == "const":
            return self._const(op)
        if k in ("copy", "move"):
            return self.of_place(op["p"], block, idx, depth, stack)
        return ("unknown", op.get("dbg", "?"))

    def _named_literal(self, path):
        """a named constant whose body is one integer or string literal stands for that literal (`const LIMB_BITS: u32 = 32`)"""
        fb = self.fb
        cb = getattr(fb, "by_path", {}).get(path) if fb is not None else None
        if cb is None or cb.kind != "const" or path.startswith("hvwitness::"):
            return None  # (the witness crate's constants are placeholders: they stand for a role, not for a number)
        vals = []
        for blk in cb.blocks:
            for st in blk["stmts"]:
                if st["k"] == "assign" and st["p"]["l"] == 0 and not st["p"]["proj"]:
                    r = st["r"]
                    if r["k"] == "use" and r["x"]["k"] == "const" and "int" in r["x"] and "uneval" not in r["x"]:
                        vals.append(("const", r["x"]["ty"], int(r["x"]["int"])))
                    elif r["k"] == "use" and r["x"]["k"] == "const" and "str" in r["x"] and "uneval" not in r["x"]:
                        vals.append(("const", "&str", r["x"]["str"]))
                    else:
                        return None
                elif st["k"] == "assign":
                    return None
            if blk["term"]["k"] not in ("return", "goto", "unreachable"):
                return None
        return vals[0] if len(vals) == 1 else None

    def _const(self, op):
        if "fn" in op:
            return ("fnitem", callee_name(op["fn"], self.fb))
        if "uneval" in op and "promoted" not in op:
            lit = self._named_literal(op["uneval"])
            if lit is not None:
                return lit
            if not op["uneval"].startswith("hvwitness::"):
                # a named constant the compiler has already evaluated (`const AREA_CHARS: &str = ".."`, `const N: u32 = 32`)
                if "int" in op:
                    return ("const", op["ty"], int(op["int"]))
                if "str" in op:
                    return ("const", "&str", op["str"])
            return ("named", op["uneval"])
        if "uneval" in op and "promoted" in op:
            return ("promoted", op["uneval"], op["promoted"])
        if "int" in op:
            return ("const", op["ty"], int(op["int"]))
        if "str" in op:
            return ("const", "&str", op["str"])
        if "bytes" in op:
            return ("const", op["ty"], bytes(op["bytes"]))
        d = op.get("dbg")
        if op["ty"] == "&str" and isinstance(d, str) and len(d) >= 2 and d[0] == '"' and d[-1] == '"':
            return ("const", "&str", _rust_unescape(d[1:-1]))
        return ("const", op["ty"], d)

    def of_place(self, place, block, idx, depth=0, stack=()):
        base = self.of_local(place["l"], block, idx, depth, stack)
        return self.project(base, place["proj"], block, idx, depth, stack)

    def project(self, base, proj, block, idx, depth, stack):
        cur = base
        for e in proj:
            if e == "deref":
                continue
            if "f" in e:
                cur = self._field(cur, e["n"], e["f"])
            elif "dc" in e:
                cur = ("variant", e["dc"], cur)
            elif "i" in e:
                cur = ("index", cur, self.of_local(e["i"], block, idx, depth + 1, stack))
            elif "ci" in e:
                cur = ("index", cur, ("const", "usize", e["ci"]))
            else:
                cur = ("proj", str(e), cur)
        return cur

    def _field(self, cur, name, idx):
        # aggregate field selection
        if cur[0] == "agg" and idx < len(cur[2]):
            return cur[2][idx]
        # (a op b) with overflow -> .0 is the result
        if cur[0] == "bin" and cur[1].endswith("WithOverflow"):
            if idx == 0:
                return ("bin", cur[1][: -len("WithOverflow")], cur[2], cur[3])
            return ("overflowed", cur)
        if cur[0] == "variant":
            v = cur[1]
            inner = cur[2]
            if v == "Continue" and inner[0] == "call" and inner[1] == "core::ops::try_trait::Try::branch":
                return _try_of(inner[2][0])
            if v in ("Some", "Ok", "Err", "Break", "Continue"):
                return (v.lower(), inner)
        if name.startswith("upvar:"):
            return ("upvar", name[6:])
        return ("field", name, cur)

    def of_local(self, local, block, idx, depth=0, stack=()):
        if local in self.overrides:
            return self.overrides[local]
        if depth > self.max_depth:
            return ("deep", local)
        defs = self.defs.get(local, [])
        if not defs:
            if 1 <= local <= self.body.argc:
                return ("arg", local)
            return ("uninit", local)
        if len(defs) == 1 and not (1 <= local <= self.body.argc):
            site = defs[0]
            key = (local, "single")
            if key in self._memo:
                return self._memo[key]
            if (local, site[0], site[1]) in stack:
                return ("cycle", local)
            r = self._site(local, site, depth, stack)
            self._memo[key] = r
            return r
        sites, entry = self.reaching(local, block, idx)
        alts = []
        for s in sites:
            if (local, s[0], s[1]) in stack:
                a = ("cycle", local)
            else:
                a = self._site(local, s, depth, stack)
            if a not in alts:
                alts.append(a)
        if entry:
            a = ("arg", local) if 1 <= local <= self.body.argc else ("uninit", local)
            if a not in alts:
                alts.append(a)
        if len(alts) == 1:
            return alts[0]
        return ("phi", tuple(sorted(alts, key=repr)))

    def _site(self, local, site, depth, stack):
        bi, si, kind, payload = site
        stack = stack + ((local, bi, si),)
        if kind == "assign":
            return self.of_rvalue(payload["r"], bi, si, depth + 1, stack)
        # call
        t = payload
        name = callee_name(t["f"], self.fb)
        args = tuple(self.of_operand(a, bi, "t", depth + 1, stack) for a in t["args"])
        if name in TRANSPARENT_CALLS and len(args) == 1:
            return args[0]
        if name in ("core::clone::Clone::clone",) and len(args) == 1:
            return ("clone", args[0])
        if name in ("core::option::Option::unwrap", "core::result::Result::unwrap", "core::option::Option::expect", "core::result::Result::expect", "std::option::Option::unwrap", "std::result::Result::unwrap", "std::option::Option::expect", "std::result::Result::expect"):
            return ("unwrap", args[0])
        return ("call", name, args)

    def of_rvalue(self, r, block, idx, depth=0, stack=()):
        k = r["k"]
        if k == "use":
            return self.of_operand(r["x"], block, idx, depth, stack)
        if k in ("ref", "rawptr"):
            return self.of_place(r["p"], block, idx, depth, stack)
        if k == "cast":
            x = self.of_operand(r["x"], block, idx, depth, stack)
            if r["kind"].startswith("PointerCoercion") or r["kind"] in ("Transmute", "PtrToPtr"):
                return x
            return ("cast", r["from"], r["to"], x)
        if k == "bin":
            return ("bin", r["op"], self.of_operand(r["l"], block, idx, depth, stack), self.of_operand(r["r"], block, idx, depth, stack))
        if k == "un":
            return ("un", r["op"], self.of_operand(r["x"], block, idx, depth, stack))
        if k == "discr":
            return ("discr", self.of_place(r["p"], block, idx, depth, stack))
        if k == "agg":
            kind = r["agg"]
            if kind == "adt":
                kind = "%s::%s" % (r["adt"], r["variant"])
            elif kind == "closure":
                kind = "closure:" + r["closure"]
            return ("agg", kind, tuple(self.of_operand(f, block, idx, depth, stack) for f in r["fields"]))
        if k == "repeat":
            return ("repeat", self.of_operand(r["x"], block, idx, depth, stack), r["n"])
        return ("unknown", r.get("dbg", k))


def _rust_unescape(s):
    import re
    def rep(m):
        g = m.group(0)
        if g.startswith("\\u{"):
            return chr(int(g[3:-1], 16))
        return {"\\n": "\n", "\\t": "\t", "\\r": "\r", "\\\\": "\\", '\\"': '"', "\\'": "'", "\\0": "\0"}.get(g, g)
    return re.sub(r"\\u\{[0-9a-fA-F]+\}|\\.", rep, s)


def show(o, body=None):
    """compact rendering of an origin"""
    if not isinstance(o, tuple):
        return str(o)
    k = o[0]
    if k == "const":
        return repr(o[2]) if not isinstance(o[2], int) else str(o[2])
    if k == "named":
        return o[1].rsplit("::", 1)[-1]
    if k == "arg":
        return "arg%d" % o[1] if body is None else body.lname(o[1])
    if k == "call":
        return "%s(%s)" % (o[1].rsplit("::", 2)[-2] + "::" + o[1].rsplit("::", 1)[-1] if "::" in o[1] else o[1], ", ".join(show(a, body) for a in o[2]))
    if k == "bin":
        return "(%s %s %s)" % (show(o[2], body), o[1], show(o[3], body))
    if k == "un":
        return "%s(%s)" % (o[1], show(o[2], body))
    if k == "cast":
        return "(%s as %s)" % (show(o[3], body), o[2])
    if k in ("field",):
        return "%s.%s" % (show(o[2], body), o[1])
    if k in ("variant",):
        return "%s@%s" % (show(o[2], body), o[1])
    if k == "agg":
        return "%s{%s}" % (o[1].rsplit("::", 2)[-1] if "::" in o[1] else o[1], ", ".join(show(a, body) for a in o[2]))
    if k == "phi":
        return "phi(%s)" % " | ".join(show(a, body) for a in o[1])
    if k in ("try", "clone", "unwrap", "some", "ok", "err", "discr", "continue", "break"):
        return "%s(%s)" % (k, show(o[1], body))
    if k == "index":
        return "%s[%s]" % (show(o[1], body), show(o[2], body))
    return "%s(%s)" % (k, ", ".join(show(a, body) for a in o[1:]))


def walk(o):
    """all sub-origins (pre-order)"""
    yield o
    if isinstance(o, tuple):
        for a in o[1:]:
            if isinstance(a, tuple):
                if a and isinstance(a[0], str):
                    yield from walk(a)
                else:
                    for x in a:
                        if isinstance(x, tuple):
                            yield from walk(x)


def contains(o, pred):
    return any(pred(x) for x in walk(o))
