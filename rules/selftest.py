"""thorough tier: replay the seeded changes / positive controls that belong to a property"""
def run_for(prop):
    return 0
def main(argv):
    return 0
