"""thorough tier: positive controls.  The seeded changes (independent agents) and the reverts of the fix
commits that belong to a property are replayed on scratch copies of /repo's *current* tree; each must make
the property's check report a violation.  A control whose patch no longer applies (the tree under test
differs) is skipped and reported.  A control that applies but does not fire means the checker is broken:
that is reported as a violation of kind checker-broken (exit 1), never as a pass."""
import glob, json, os, shutil, subprocess, sys, tempfile
from .engine import VERIF, REPO


def controls_for(prop):
    out = []
    for d in sorted(glob.glob(os.path.join(VERIF, "seeded", "*")) + glob.glob(os.path.join(VERIF, "selftest", "*"))):
        mf = os.path.join(d, "meta.json")
        if not os.path.exists(mf) or not os.path.exists(os.path.join(d, "patch.diff")):
            continue
        m = json.load(open(mf))
        # only the changes written *for* this property (and recorded as caught by it) are controls: detection by
        # another property's check is incidental and may legitimately disappear when that check gets more precise
        if m.get("property") == prop and prop in m.get("detected_by", []):
            out.append((d, m))
    return out


def negative_controls(prop):
    """behaviour-preserving refactorings written for this property that were recorded as silent must stay silent.
    An alarm here is a precision regression of the checker, not a violation of the property by /repo: it is
    reported as a NOTE and in the evidence file and does not change the exit status."""
    res = {"silent": 0, "skipped": 0, "alarming": []}
    for d in sorted(glob.glob(os.path.join(VERIF, "refactorings", "*"))):
        mf = os.path.join(d, "meta.json")
        if not os.path.exists(mf):
            continue
        m = json.load(open(mf))
        if m.get("property") != prop or m.get("alarms"):
            continue
        tmp = tempfile.mkdtemp(prefix="hvneg-")
        try:
            dst = os.path.join(tmp, "repo")
            os.makedirs(dst)
            for f in ("src", "Cargo.toml", "Cargo.lock"):
                s_ = os.path.join(REPO, f)
                if os.path.isdir(s_):
                    shutil.copytree(s_, os.path.join(dst, f))
                elif os.path.exists(s_):
                    shutil.copy(s_, dst)
            p = subprocess.run(["patch", "-p1", "-s", "-f", "-d", dst, "-i", os.path.join(d, "patch.diff")], capture_output=True, text=True)
            if p.returncode != 0:
                res["skipped"] += 1
                continue
            env = dict(os.environ, HV_REPO=dst, HV_EVIDENCE_DIR=os.path.join(tmp, "ev"), VERIF_TIER="quick")
            q = subprocess.run([os.path.join(VERIF, "hv"), "check", prop, "--tier", "quick"], env=env, capture_output=True, text=True)
            if q.returncode == 0:
                res["silent"] += 1
            else:
                res["alarming"].append(os.path.basename(d))
                print("   NOTE: refactoring control %s makes %s alarm although it preserves behaviour (checker precision regression)" % (os.path.basename(d), prop))
        finally:
            shutil.rmtree(tmp, ignore_errors=True)
    print("== %s thorough: %d behaviour-preserving refactorings stayed silent, %d skipped, %d alarming" % (prop, res["silent"], res["skipped"], len(res["alarming"])))
    return res


def run_for(prop):
    ctrls = controls_for(prop)
    fired = skipped = 0
    broken = []
    for d, m in ctrls:
        tmp = tempfile.mkdtemp(prefix="hvctl-")
        try:
            dst = os.path.join(tmp, "repo")
            os.makedirs(dst)
            for f in ("src", "Cargo.toml", "Cargo.lock"):
                s = os.path.join(REPO, f)
                if os.path.isdir(s):
                    shutil.copytree(s, os.path.join(dst, f))
                elif os.path.exists(s):
                    shutil.copy(s, dst)
            p = subprocess.run(["patch", "-p1", "-s", "-f", "-d", dst, "-i", os.path.join(d, "patch.diff")], capture_output=True, text=True)
            if p.returncode != 0:
                skipped += 1
                print("   control %-10s skipped: patch does not apply to the tree under test" % os.path.basename(d))
                continue
            env = dict(os.environ, HV_REPO=dst, HV_EVIDENCE_DIR=os.path.join(tmp, "ev"), VERIF_TIER="quick")
            q = subprocess.run([os.path.join(VERIF, "hv"), "check", prop, "--tier", "quick"], env=env, capture_output=True, text=True)
            if q.returncode == 1 and "VIOLATION property=%s" % prop in q.stdout:
                fired += 1
                first = [l for l in q.stdout.splitlines() if l.startswith("  - [")]
                print("   control %-10s fired: %s" % (os.path.basename(d), (first[0][:150] if first else "")))
            else:
                broken.append(os.path.basename(d))
                print("   control %-10s DID NOT FIRE (rc=%d)" % (os.path.basename(d), q.returncode))
        finally:
            shutil.rmtree(tmp, ignore_errors=True)
    print("== %s thorough: %d positive controls fired, %d skipped, %d silent" % (prop, fired, skipped, len(broken)))
    neg = negative_controls(prop)
    # record in the evidence file
    evf = os.path.join(os.environ.get("HV_EVIDENCE_DIR") or os.path.join(VERIF, "evidence"), prop + ".json")
    try:
        ev = json.load(open(evf))
        ev["coverage"]["positive_controls"] = {"fired": fired, "skipped": skipped, "silent": broken, "total": len(ctrls)}
        ev["coverage"]["negative_controls"] = neg
        if broken:
            ev["violations"] = ev.get("violations", 0) + len(broken)
        json.dump(ev, open(evf, "w"), ensure_ascii=False, indent=1)
    except Exception:
        pass
    if broken:
        rp = os.path.join(VERIF, "evidence", "violations", "%s.controls.json" % prop)
        os.makedirs(os.path.dirname(rp), exist_ok=True)
        json.dump({"property": prop, "kind": "checker-broken", "silent_controls": broken}, open(rp, "w"))
        print("VIOLATION property=%s replay=%s" % (prop, rp))
        return 1
    return 0


def main(argv):
    rc = 0
    for p in argv:
        rc |= run_for(p)
    return rc
