"""A-PATH: bounded enumeration of acyclic paths of a small body with path-precise origins."""
from .origin import Origins


def acyclic_paths(cfg, entry, exits, limit=20000):
    exits = set(exits)
    live = cfg.can_reach(exits)
    out = []
    st = [(entry, (entry,))]
    while st:
        b, p = st.pop()
        if b in exits:
            out.append(list(p))
            if len(out) > limit:
                raise RuntimeError("too many paths")
            continue
        for s in cfg.succ[b]:
            if s in live and s not in p:
                st.append((s, p + (s,)))
    return out


class PathOrigins(Origins):
    """origins along one acyclic path: the reaching definition of a multiply-defined local is the
    last definition that occurs earlier on the path"""

    def __init__(self, body, fb, path, overrides=None):
        super().__init__(body, fb, overrides=overrides)
        self.path = list(path)
        self.pos = {b: i for i, b in enumerate(self.path)}
        self._memo = {}

    def of_local(self, local, block, idx, depth=0, stack=()):
        # disable the single-definition memo across paths: definitions are still unique, fine
        return super().of_local(local, block, idx, depth, stack)

    def reaching(self, local, block, idx):
        defs = self.defs.get(local, [])
        if block not in self.pos:
            return super().reaching(local, block, idx)
        best = None
        limit = len(self.body.blocks[block]["stmts"]) if idx == "t" else idx
        for d in defs:
            db = d[0]
            if db not in self.pos:
                continue
            dpos = len(self.body.blocks[db]["stmts"]) if d[1] == "t" else d[1]
            if self.pos[db] < self.pos[block] or (db == block and dpos < limit):
                key = (self.pos[db], dpos)
                if best is None or key > best[0]:
                    best = (key, d)
        if best is None:
            if getattr(self, "_on_path_only", False):
                return [], True
            # defined before the path starts (e.g. ahead of the loop whose iteration is analysed)
            return Origins.reaching(self, local, self.path[0], 0)
        return [best[1]], False

    def _site(self, local, site, depth, stack):
        # definitions are evaluated at their own position on the path
        return super()._site(local, site, depth, stack)


def simplify(o):
    """constant folding of boolean origins (xor / not of constants)"""
    if not isinstance(o, tuple):
        return o
    if o[0] == "bin" and o[1] == "BitXor":
        a, b = simplify(o[2]), simplify(o[3])
        if a[0] == "const" and b[0] == "const" and isinstance(a[2], int) and isinstance(b[2], int):
            return ("const", a[1], a[2] ^ b[2])
        return ("bin", "BitXor", a, b)
    if o[0] == "un" and o[1] == "Not":
        a = simplify(o[2])
        if a[0] == "const" and isinstance(a[2], int) and a[1] == "bool":
            return ("const", "bool", 0 if a[2] else 1)
        return ("un", "Not", a)
    return o


class PathOriginsOv(PathOrigins):
    """overrides (symbolic names of loop variables) apply only until the variable is redefined on the path"""

    def of_local(self, local, block, idx, depth=0, stack=()):
        if local in self.overrides:
            self._on_path_only = True
            try:
                sites, entry = self.reaching(local, block, idx)
            finally:
                self._on_path_only = False
            if entry or not sites:
                return self.overrides[local]
            s0 = sites[0]
            if (local, s0[0], s0[1]) in stack:
                return ("cycle", local)
            return self._site(local, s0, depth, stack)
        return Origins.of_local(self, local, block, idx, depth, stack)


def path_event_set(body, fb, cfg, entry, exits, make_events, overrides=None, limit=20000, stop_at_exit=False):
    """event sequences of all feasible acyclic paths entry -> exits.
    make_events(org) -> Events object built on the given (path-precise) origins."""
    out = []
    for p in acyclic_paths(cfg, entry, exits, limit):
        org = PathOriginsOv(body, fb, p, overrides=overrides)
        ev = make_events(org)
        seq = []
        feasible = True
        for i, bi in enumerate(p):
            blk = body.blocks[bi]
            last = i + 1 == len(p)
            if last and stop_at_exit:
                break
            for si, s in enumerate(blk["stmts"]):
                l = ev.stmt(bi, si, s)
                if l:
                    seq += [l] if isinstance(l, str) else l
            t = blk["term"]
            l = ev.term(bi, t)
            if l:
                seq += [l] if isinstance(l, str) else l
            if not last:
                nxt = p[i + 1]
                if t["k"] == "switch":
                    c = simplify(org.of_operand(t["x"], bi, "t"))
                    if c[0] == "const" and isinstance(c[2], int):
                        taken = None
                        for v, bb in t["arms"]:
                            if int(v) == c[2] or (t["xty"] == "bool" and int(v) == (1 if c[2] else 0)):
                                taken = bb
                        if taken is None:
                            taken = t["otherwise"]
                        if taken != nxt:
                            feasible = False
                            break
                l = ev.edge(bi, t, nxt)
                if l and l != "<cut>":
                    seq.append(l)
        if feasible:
            out.append((tuple(seq), p))
    return out


def path_preds(body, org, p):
    """(cond origin, truth) for every two-way bool switch on the path"""
    out = []
    for i, bi in enumerate(p[:-1]):
        t = body.blocks[bi]["term"]
        if t["k"] == "switch" and t["xty"] == "bool":
            nxt = p[i + 1]
            vals = [int(v) for v, bb in t["arms"] if bb == nxt]
            if vals:
                truth = vals[0] != 0
            elif t["otherwise"] == nxt:
                truth = 0 in {int(v) for v, _ in t["arms"]}
            else:
                continue
            out.append((simplify(org.of_operand(t["x"], bi, "t")), truth, t["span"]["at"]))
        elif t["k"] == "switch":
            # a switch on the variant of an Option / Result that was built on this very path (a spliced-in helper
            # returning `Some(v)` / `None`): the arm taken must be the variant's
            x = simplify(org.of_operand(t["x"], bi, "t"))
            if x[0] == "discr" and x[1][0] == "agg":
                nxt = p[i + 1]
                vals = [int(v) for v, bb in t["arms"] if bb == nxt]
                if vals:
                    out.append((("bin", "Eq", x, ("const", "isize", vals[0])), True, t["span"]["at"]))
                elif t["otherwise"] == nxt:
                    for v, _ in t["arms"]:
                        out.append((("bin", "Eq", x, ("const", "isize", int(v))), False, t["span"]["at"]))
    return out


