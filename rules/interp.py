"""Event extraction for interpreter-like bodies (execute_one, opt_execute, push/pop wrappers):
regions (command arms, area segment, jump segment) and their guarded event automata."""
from .cfg import CFG, question_mark_error_edges, unreachable_blocks
from .facts import callee_name
from .gea import region_nfa, DFA, compare, spec_nfa
from .lang import Roles, EPSILON_CALLS, short, S, C, NUM, POP_WRAP, PUSH_WRAP
from .origin import Origins
from .util import Vars


def abstract_call(name, roles):
    """common vocabulary of events (DESIGN.md 3.2) from a call and the roles of its arguments"""
    sn = short(name)
    if name == PUSH_WRAP and roles[:3] == ["OUT", "ERR", "STATE"]:
        return "PUSH(%s,%s)" % (roles[3], roles[4])
    if name == POP_WRAP and roles[:4] == ["IN", "OUT", "ERR", "STATE"]:
        return "POP(%s)" % roles[4]
    if name == "core::ops::arith::AddAssign::add_assign":
        return "ACCOP(add,%s,%s)" % (roles[0], roles[1])
    if name == "core::ops::arith::MulAssign::mul_assign":
        return "ACCOP(mul,%s,%s)" % (roles[0], roles[1])
    if name == NUM + "minus":
        return "ELEMOP(minus,%s)" % roles[0]
    if name == NUM + "flip":
        return "ELEMOP(flip,%s)" % roles[0]
    if name == "std::vec::Vec::push":
        return "COLLECT(%s,%s)" % (roles[0], roles[1])
    if name in ("core::slice::<impl [T]>::reverse", "[T]::reverse"):
        return "REVERSE(%s)" % roles[0]
    if name == S + "set_current_stack" and roles[0] == "STATE":
        return "SELECT(%s)" % roles[1]
    if name == S + "get_point" and roles[0] == "STATE":
        return "GETP(%s)" % roles[1]
    if name == S + "set_point" and roles[0] == "STATE":
        return "SETP(%s,%s)" % (roles[1], roles[2])
    if name == S + "set_latest_loc" and roles[0] == "STATE":
        return "SETL(%s)" % roles[1]
    if name == S + "get_latest_loc" and roles[0] == "STATE":
        return "GETL"
    if name == "hyeong::core::area::calc":
        return "CALC(%s,%s,%s)" % tuple(roles[:3])
    if name == S + "push_stack" and roles[0] == "STATE":
        return "PUSHSTATE(%s,%s)" % (roles[1], roles[2])
    if name == S + "pop_stack" and roles[0] == "STATE":
        return "POPSTATE(%s)" % roles[1]
    if name == "core::iter::traits::collect::IntoIterator::into_iter":
        return "ITER(%s)" % roles[0]
    if name == "std::io::Write::flush":
        return "FLUSH(%s)" % roles[0]
    if name == "std::process::exit":
        return "EXIT(%s)" % roles[0]
    return "%s(%s)" % (sn, ",".join(roles))


class Events:
    """classifier turning MIR statements/terminators of one body into event labels"""

    def __init__(self, body, fb, roles=None, epsilon=None, extra_epsilon=(), branch_labels=None, stmt_events=None):
        self.body = body
        self.fb = fb
        self.roles = roles or Roles(body, fb)
        self.epsilon = set(epsilon if epsilon is not None else EPSILON_CALLS) | set(extra_epsilon)
        self.branch_labels = branch_labels  # fn(bi, term, succ) -> label|None|"<cut>"
        self.stmt_events = stmt_events  # fn(bi, si, stmt) -> label|None

    def term(self, bi, t):
        if t["k"] != "call":
            return None
        f = t["f"]
        if "indirect" in f:
            return "INDIRECT"
        n = callee_name(f, self.fb)
        to_ret = self.ret_events and t["dest"]["l"] == 0 and not t["dest"]["proj"]
        if n in self.epsilon:
            if to_ret:
                args = tuple(self.roles.org.of_operand(a, bi, "t") for a in t["args"])
                o = ("clone", args[0]) if n == "core::clone::Clone::clone" and len(args) == 1 else ("call", n, args)
                return "RET(%s)" % self.roles.of_origin(o)
            return None
        roles = [self.roles.of_operand(a, bi) for a in t["args"]]
        lab = abstract_call(n, roles)
        if to_ret:
            return [lab, "RET(%s)" % lab]
        return lab

    ret_events = True
    set_events = False

    def stmt(self, bi, si, s):
        if self.stmt_events:
            r = self.stmt_events(bi, si, s)
            if r is not NotImplemented:
                return r
        if self.ret_events and s["k"] == "assign" and s["p"]["l"] == 0 and not s["p"]["proj"]:
            o = self.roles.org.of_rvalue(s["r"], bi, si)
            return "RET(%s)" % self.roles.of_origin(o)
        if self.set_events and s["k"] == "assign" and s["p"]["proj"] and "deref" in s["p"]["proj"]:
            # store through a reference (field of *self etc.)
            dst = self.roles.of_origin(self.roles.org.of_place(s["p"], bi, si))
            val = self.roles.of_origin(self.roles.org.of_rvalue(s["r"], bi, si))
            return "SET(%s,%s)" % (dst, val)
        return None

    def edge(self, bi, t, s):
        if self.branch_labels:
            r = self.branch_labels(bi, t, s)
            if r is not NotImplemented:
                return r
        return self.generic_edge(bi, t, s)

    # ------------------------------------------------------------------ branch outcomes
    interesting = None  # optional predicate on the role expression of a branch condition

    def generic_edge(self, bi, t, s):
        if t["k"] != "switch":
            return None
        if "desugar:QuestionMark" in t["span"]["exp"] or "desugar:ForLoop" in t["span"]["exp"]:
            return None
        targets = [bb for _, bb in t["arms"]] + [t["otherwise"]]
        live = {x for x in targets}
        if len(live) < 2:
            return None
        vals = [v for v, bb in t["arms"] if bb == s]
        is_other = t["otherwise"] == s
        o = self.roles.org.of_operand(t["x"], bi, "t")
        truth = None
        if t["xty"] == "bool":
            # arms: value 0 -> false target; otherwise -> true target (or explicit 1)
            if vals and not is_other:
                truth = int(vals[0]) != 0
            elif is_other and not vals:
                explicit = {int(v) for v, _ in t["arms"]}
                truth = 0 in explicit
            else:
                return None
            neg = False
            while True:
                if o[0] == "un" and o[1] == "Not":
                    o = o[2]
                    neg = not neg
                    continue
                # `x == false`, `x != true`, ... on a boolean x: the test of x itself
                if o[0] == "bin" and o[1] in ("Eq", "Ne"):
                    a_, b_ = o[2], o[3]
                    if a_[0] == "const" and a_[1] == "bool":
                        a_, b_ = b_, a_
                    if b_[0] == "const" and b_[1] == "bool" and a_[0] != "const":
                        same = (o[1] == "Eq") == bool(b_[2])
                        o = a_
                        if not same:
                            neg = not neg
                        continue
                break
            if neg:
                truth = not truth
            if o[0] == "bin" and o[1] in ("Eq", "Ne", "Lt", "Le", "Gt", "Ge"):
                a, b = self.roles.of_origin(o[2]), self.roles.of_origin(o[3])
                op = o[1]
                if op in ("Eq", "Ne"):
                    x, y = sorted([a, b])
                    pred = "EQ[%s,%s]" % (x, y)
                    val = truth if op == "Eq" else (not truth)
                else:
                    # normal form  x < y ; comparisons with an integer constant become  x < K(n)
                    if op == "Lt":
                        x, y, val = a, b, truth
                    elif op == "Ge":
                        x, y, val = a, b, not truth
                    elif op == "Gt":
                        x, y, val = b, a, truth
                    else:  # Le
                        x, y, val = b, a, not truth
                    kx, ky = _intconst(x), _intconst(y)
                    if kx is not None and ky is None:
                        # K < y  ==  not (y < K+1)
                        x, y, val = y, "K%d" % (kx + 1), not val
                    pred = "LT[%s,%s]" % (x, y)
            elif o[0] == "call" and o[1] in ("core::cmp::PartialEq::eq", "core::cmp::PartialEq::ne") and len(o[2]) == 2:
                a, b = sorted([self.roles.of_origin(o[2][0]), self.roles.of_origin(o[2][1])])
                pred = "BR[PartialEq::eq(%s,%s)]" % (a, b)
                val = truth if o[1].endswith("::eq") else (not truth)
            else:
                pred = "BR[%s]" % self.roles.of_origin(o)
                val = truth
            if _only_consts(o):
                return None
            if self.interesting is not None and not self.interesting(pred):
                return None
            return "%s=%d" % (pred, 1 if val else 0)
        # integer / discriminant switch
        if _only_consts(o):
            return None
        role = self.roles.of_origin(o)
        if self.interesting is not None and not self.interesting("SW[%s]" % role):
            return None
        if vals and not is_other:
            return "SW[%s]=%s" % (role, "|".join(sorted(vals)))
        if is_other:
            explicit = sorted(v for v, _ in t["arms"])
            # two-variant enums (Option, Result, Area): "not 1" is "0" and vice versa
            if not vals and role.startswith("DISCR(") and t["xty"] == "isize" and explicit in (["0"], ["1"]):
                return "SW[%s]=%s" % (role, "1" if explicit == ["0"] else "0")
            return "SW[%s]!=%s" % (role, "|".join(explicit)) if not vals else "SW[%s]=%s|other" % (role, "|".join(sorted(vals)))
        return None


def _intconst(r):
    if r.startswith("K") and r[1:].lstrip("-").isdigit():
        return int(r[1:])
    return None


def _only_consts(o):
    """drop flags and other compiler-introduced booleans: constants, phis of constants, uninit"""
    from .origin import walk
    for x in walk(o):
        if isinstance(x, tuple) and x and x[0] in ("arg", "call", "upvar", "field", "variant", "try", "some", "index", "cast", "discr", "clone", "unwrap", "cycle", "named", "role"):
            return False
    return True


def normal_cfg(body, extra_cut_blocks=()):
    """CFG without `?` error edges and without blocks that are unreachable / explicitly cut"""
    return CFG(body, pruned_edges=question_mark_error_edges(body), removed_blocks=set(unreachable_blocks(body)) | set(extra_cut_blocks))


def kind_switch(body, fb):
    """the SwitchInt whose discriminant is Code::get_type() of the current command"""
    org = Origins(body, fb)
    best = None
    for bi, b in enumerate(body.blocks):
        t = b["term"]
        if t["k"] == "switch" and not b["cleanup"]:
            o = org.of_operand(t["x"], bi, "t")
            if o[0] == "call" and o[1] == C + "get_type":
                # the dispatch is the switch with the most distinct targets (a helper `match kind {0 => .., _ => ..}`
                # computed in front of it is not); first one wins on ties
                n = len({bb for _, bb in t["arms"]} | {t["otherwise"]})
                if best is None or n > best[0]:
                    best = (n, bi, t)
    if best is not None:
        return best[1], best[2]
    return None, None


def diverging_exits(body, fb, names=("std::process::exit",)):
    """blocks ending in a call that never returns to the caller (process::exit)"""
    out = []
    for bi, t in body.calls():
        if t["t"] is None and callee_name(t["f"], fb) in names:
            out.append(bi)
    return out


def language(body, fb, cfg, entry, exits, events, stop_at_exit=True):
    nfa = region_nfa(body, cfg, entry, exits, events.stmt, events.term, events.edge, stop_at_exit)
    d = DFA(nfa)
    d.path_lang = None
    # acyclic regions: also the path-precise language (values that depend on the path taken, such as a
    # boolean computed by `a || b` and tested later, are resolved along each path; infeasible paths vanish)
    if events.stmt_events is None and events.branch_labels is None and not stop_at_exit:
        try:
            d.path_lang = path_language(body, fb, cfg, entry, exits, events)
        except Exception:
            d.path_lang = None
    return d


def path_language(body, fb, cfg, entry, exits, events, limit=4000):
    from .paths import acyclic_paths, PathOriginsOv, simplify
    from .gea import is_guard, normalise_guards
    reach = cfg.reachable_from(entry) & cfg.can_reach(exits)
    # acyclic?
    for (a, b_) in cfg.back_edges(entry):
        if a in reach and b_ in reach:
            return None
    paths = acyclic_paths(cfg, entry, exits, limit)
    out = set()
    base_roles = events.roles
    for p in paths:
        org = PathOriginsOv(body, fb, p, overrides=dict(base_roles.org.overrides))
        roles = Roles(body, fb, param_roles=base_roles.param_roles, upvar_roles=base_roles.upvar_roles, local_roles=base_roles.local_roles, org=org)
        ev = Events(body, fb, roles=roles, epsilon=events.epsilon)
        ev.ret_events = events.ret_events
        ev.set_events = events.set_events
        ev.interesting = events.interesting
        seq = []
        feasible = True
        for i, bi in enumerate(p):
            blk = body.blocks[bi]
            for si, s in enumerate(blk["stmts"]):
                l = ev.stmt(bi, si, s)
                if l:
                    seq += [l] if isinstance(l, str) else l
            t = blk["term"]
            l = ev.term(bi, t)
            if l:
                seq += [l] if isinstance(l, str) else l
            if i + 1 < len(p):
                nxt = p[i + 1]
                if t["k"] == "switch":
                    c = simplify(org.of_operand(t["x"], bi, "t"))
                    if c[0] == "const" and isinstance(c[2], int):
                        taken = None
                        for v, bb in t["arms"]:
                            if int(v) == c[2]:
                                taken = bb
                        if taken is None:
                            taken = t["otherwise"]
                        if taken != nxt:
                            feasible = False
                            break
                        continue
                l = ev.edge(bi, t, nxt)
                if l and l != "<cut>":
                    seq += [l] if isinstance(l, str) else l
        if not feasible:
            continue
        # condense: guards between events become a normalised conjunction
        res = []
        g = []
        ok = True
        for l in seq + ["$"]:
            if l != "$" and is_guard(l):
                g.append(l)
                continue
            ng = normalise_guards(g)
            if ng is None:
                ok = False
                break
            gl = "&".join("%s%s(%s%s)" % ("" if t else "!", k, a, ("," + b_) if b_ else "") for k, a, b_, t in ng)
            res.append("<%s> %s" % (gl, l))
            g = []
        if ok:
            out.add(tuple(res))
    return out
