"""C09 — numbers survive being written as text and read back (writer/reader table agreement)."""
from .cfg import CFG
from .evalo import ev as evalo, Unknown, promoted_range
from .facts import callee_name
from .gea import Seq, Alt
from .interp import Events, normal_cfg, language
from .lang import Roles
from .origin import Origins, show, walk
from .paths import acyclic_paths, PathOriginsOv, simplify, path_preds
from .util import Vars, reaches_without
from . import p_c01, p_c06
from .p_c05 import PR

TECHNIQUE = "static analysis: finite-domain evaluation of writer/reader digit expressions over all digits; Horner/divmod step shape; abstract interpretation of Num::from_string over the shape domain of Display's image; embedding rule of the stack literal"
LEVEL = "other"
EXPLANATION = (
    "Writer/reader agreement decided from the code's own digit expressions by finite-domain evaluation over all 36 "
    'digit values and a probe set of characters: the digit function of to_string_base (arithmetic or table idiom) is '
    'the conventional 0-9A-Z, the digit function of from_string_base inverts it on every digit and rejects everything '
    'else, both accept exactly bases 1..=36; structural rules: the writer emits digit = n % base then n /= base, '
    'appends \'-\' after the digits and reverses once, prints "0" for zero; the reader accepts \'-\' only at index 0, '
    'accumulates res = res*base + digit in that order and applies the sign at the end; Num::from_string is abstractly '
    "interpreted over the shape domain of Display's image (NaN text, D, -D, D/D, -D/D with opaque digit blocks) and "
    'must return NaN / the number with that sign, numerator and denominator for every shape; the level-2 stack '
    'restore embeds Display text (String) with Debug quoting, every element of the stack, in order, with no selecting '
    'adapter. The repeated-division loop and the Horner accumulation as arithmetic are NOT decided.'
)
ASSUMPTIONS = ["rustc MIR (nightly 1.97, mir-opt-level=0)", "BigNum arithmetic is exact (C05)", "String/char std operations behave as documented"]
TRUSTED = ["rustc nightly MIR", "/verif/rules A-PATH/A-ORG + finite-domain evaluator (rules/evalo.py)"]

B = "number::big_number::BigNum::"
DIGITS = "0123456789ABCDEFGHIJKLMNOPQRSTUVWXYZ"


def loop_of(body, cfg, pred):
    """(head, loop blocks, back edges) of the loop containing a call satisfying pred"""
    allbe = cfg.back_edges()
    for be in allbe:
        same = [e for e in allbe if e[1] == be[1]]
        loop = set()
        for e in same:
            loop |= cfg.natural_loop(e)
        for b in loop:
            t = body.blocks[b]["term"]
            if t["k"] == "call" and pred(t):
                return be[1], loop, same
    return None, None, None


def is_k(o):
    return o[0] == "call" and o[1] == "core::ops::index::Index::index" and any(isinstance(x, tuple) and x[0] == "call" and x[1] == "core::ops::arith::Rem::rem" for x in walk(o)) and o[2][1] == ("const", "usize", 0)


def rule_writer(ctx, R):
    fb = ctx.fb
    b = fb.bodies.get(B + "to_string_base")
    if not R.anchor(b is not None, "to_string_base", "BigNum::to_string_base"):
        return
    R.analyse(b.name)
    cfg = normal_cfg(b)
    head, loop, bes = loop_of(b, cfg, lambda t: callee_name(t["f"], fb) == "std::string::String::push")
    if not R.anchor(head is not None, "writer:loop", "digit loop of to_string_base"):
        return
    sub = CFG(b, removed_blocks=set(range(len(b.blocks))) - loop)
    pushes = [bi for bi in loop if b.blocks[bi]["term"]["k"] == "call" and callee_name(b.blocks[bi]["term"]["f"], fb) == "std::string::String::push"]
    table = {}
    samples = []
    for pb in pushes:
        for p in acyclic_paths(sub, head, [pb]):
            org = PathOriginsOv(b, fb, p)
            preds = path_preds(b, org, p)
            ch = org.of_operand(b.blocks[pb]["term"]["args"][1], pb, "t")
            for k in range(36):
                env = [(is_k, k)]
                try:
                    if all(bool(evalo(c, env, fb, b)) == t for c, t, _ in preds if any(is_k(x) for x in walk(c))):
                        table.setdefault(k, []).append(evalo(ch, env, fb, b))
                except Unknown as e:
                    table.setdefault(k, []).append(("unknown", show(e.args[0], b)[:80]))
            samples.append(show(ch, b)[:120])
    got = "".join(chr(v[0]) if len(v) == 1 and isinstance(v[0], int) and 0 <= v[0] < 0x110000 else "?" for v in (table.get(k, ["?"]) for k in range(36)))
    R.check(got == DIGITS, "writer:digits", "digit k is rendered as the conventional digit (0-9 then A-Z) for every k in 0..35: got %r from %s" % (got, samples), b.blocks[pushes[0]]["term"]["span"]["at"] if pushes else None)
    # digit = num % base ; num /= base, same base, base = new(param as isize)
    org = Origins(b, fb)
    roles = Roles(b, fb, param_roles=PR(b))
    # the digits are those of the magnitude: the working copy is made non-negative before the loop
    sets_ = []
    for bi_, blk_ in enumerate(b.blocks):
        if blk_["cleanup"]:
            continue
        for si_, st_ in enumerate(blk_["stmts"]):
            if st_["k"] == "assign" and any(isinstance(e, dict) and e.get("n") == "pos" for e in st_["p"]["proj"]):
                sets_.append((roles.of_origin(org.of_rvalue(st_["r"], bi_, si_)), bi_ in loop, st_["span"]["at"]))
    R.check(sets_ == [("K1", False, sets_[0][2])] if sets_ else False, "writer:magnitude", "the number that is divided down is the magnitude (its sign flag is set to non-negative once, before the loop): %s" % [(a, l) for a, l, _ in sets_], b.span)
    # every text that is handed out comes from the division loop: no Ok result is built on a path around it
    okb = [bi for bi, blk in enumerate(b.blocks) if not blk["cleanup"] for st in blk["stmts"] if st["k"] == "assign" and st["p"]["l"] == 0 and st["r"]["k"] == "agg" and st["r"].get("variant") == "Ok"]
    heads_ = {h for _, h in cfg.back_edges()}
    R.check(bool(okb) and not reaches_without(cfg, [0], okb, cut_blocks=[head]) and heads_ == {head}, "writer:one_route", "to_string_base has one way of producing text, the division loop (Ok results %d, loops %d): a second route for some bases would have to agree with the reader on its own" % (len(okb), len(heads_)), b.span)
    # the loop runs while the remaining number is not zero
    evw = Events(b, fb, roles=roles)
    stay, leave = [], []
    for gb in loop:
        tt = b.blocks[gb]["term"]
        if tt["k"] == "switch":
            for s_ in cfg.succ[gb]:
                lab = evw.generic_edge(gb, tt, s_) or ""
                if lab.startswith("BR[BigNum::is_zero("):
                    (leave if lab.endswith("=1") else stay).append((gb, s_, s_ in loop))
    R.check(len(stay) == 1 and len(leave) == 1 and stay[0][2] and not leave[0][2], "writer:loop_condition", "digits are produced while the remaining number is not zero (the loop is left exactly when it is zero): stay %s leave %s" % ([x[2] for x in stay], [x[2] for x in leave]), b.span)
    rems = [(bi, b.blocks[bi]["term"]) for bi in loop if b.blocks[bi]["term"]["k"] == "call" and callee_name(b.blocks[bi]["term"]["f"], fb) == "core::ops::arith::Rem::rem"]
    divs = [(bi, b.blocks[bi]["term"]) for bi in loop if b.blocks[bi]["term"]["k"] == "call" and callee_name(b.blocks[bi]["term"]["f"], fb) == "core::ops::arith::DivAssign::div_assign"]
    vars_ = Vars(b)
    ok = len(rems) == 1 and len(divs) == 1
    if ok:
        rn, rb = vars_.root_key(rems[0][1]["args"][0]), roles.of_operand(rems[0][1]["args"][1], rems[0][0])
        dn, db = vars_.root_key(divs[0][1]["args"][0]), roles.of_operand(divs[0][1]["args"][1], divs[0][0])
        ok = rn == dn and rb == db == "BigNum::new(P2)" and not reaches_without(cfg, [divs[0][0]], rems[0][0], cut_blocks=[head])
        R.check(ok, "writer:divmod", "each iteration takes digit = n %% base and then n /= base with base = BigNum::new(base parameter) (%s, %s)" % (rb, db), rems[0][1]["span"]["at"])
        # loop condition: !num.is_zero(), num = clone of self made non-negative
    else:
        R.fail("writer:divmod", "expected one remainder and one division per iteration", b.span)
    # after the loop: empty -> "0"; !pos -> push '-'; then chars().rev().collect()
    evs = Events(b, fb, roles=roles, epsilon=p_c06.PURE | {"std::string::String::new", "core::convert::From::from", "std::string::String::is_empty", "core::ops::arith::Rem::rem"})
    tail_paths = []
    exits = [s for x in loop for s in cfg.succ[x] if s not in loop]
    for e in set(exits):
        for p in acyclic_paths(cfg, e, cfg.returns):
            org2 = PathOriginsOv(b, fb, p)
            r2 = Roles(b, fb, param_roles=PR(b), org=org2)
            seq = []
            for i, bi in enumerate(p):
                t = b.blocks[bi]["term"]
                if t["k"] == "call":
                    n = callee_name(t["f"], fb)
                    if n == "std::string::String::push":
                        v = r2.of_operand(t["args"][1], bi)
                        seq.append("ZERO" if v == "K48" else "PUSH(%s)" % v)
                    elif n == "core::convert::From::from" and r2.of_operand(t["args"][0], bi) == "K'0'":
                        seq.append("ZERO")
                    elif n == "core::iter::traits::iterator::Iterator::rev":
                        seq.append("REV")
                    elif n == "core::iter::traits::iterator::Iterator::collect":
                        seq.append("COLLECT")
                if i + 1 < len(p) and t["k"] == "switch" and t["xty"] == "bool":
                    l = Events(b, fb, roles=r2).generic_edge(bi, t, p[i + 1])
                    if l and "is_empty" in l:
                        seq.append("EMPTY=" + l[-1])
                    elif l and "pos" in l:
                        seq.append(l)
            tail_paths.append(tuple(seq))
    want = set()
    for e_ in (("EMPTY=0",), ("EMPTY=1", "ZERO")):
        for s_ in (("BR[P1.pos]=1",), ("BR[P1.pos]=0", "PUSH(K45)")):
            want.add(e_ + s_ + ("REV", "COLLECT"))
    got = set(tail_paths)
    R.check(got == want, "writer:sign_and_reverse", "after the digits: an empty digit string is replaced by \"0\" (and only then), '-' is appended iff the value is negative, then the text is reversed exactly once", b.span, sorted(got))


def rule_reader(ctx, R):
    fb = ctx.fb
    b = fb.bodies.get(B + "from_string_base")
    if not R.anchor(b is not None, "from_string_base", "BigNum::from_string_base"):
        return
    R.analyse(b.name)
    cfg = normal_cfg(b)
    head, loop, bes = loop_of(b, cfg, lambda t: callee_name(t["f"], fb) == "core::ops::arith::AddAssign::add_assign")
    if not R.anchor(head is not None, "reader:loop", "digit loop of from_string_base"):
        return
    sub = CFG(b, removed_blocks=set(range(len(b.blocks))) - loop)

    def is_i(o):
        return o[0] == "field" and o[1] == "0" and o[2][0] == "some"

    def is_c(o):
        return o[0] == "field" and o[1] == "1" and o[2][0] == "some"

    adds = [bi for bi in loop if b.blocks[bi]["term"]["k"] == "call" and callee_name(b.blocks[bi]["term"]["f"], fb) == "core::ops::arith::AddAssign::add_assign"]
    muls = [bi for bi in loop if b.blocks[bi]["term"]["k"] == "call" and callee_name(b.blocks[bi]["term"]["f"], fb) == "core::ops::arith::MulAssign::mul_assign"]
    # Err(ParseError) returns reached from the loop
    errs = [bi for bi, blk in enumerate(b.blocks) if not blk["cleanup"] and any(s["k"] == "assign" and s["p"]["l"] == 0 and s["r"]["k"] == "agg" and s["r"].get("variant") == "Err" for s in blk["stmts"])]
    full = CFG(b, pruned_edges=set())
    outcomes = {}

    def run(i, c):
        res = []
        # digit paths
        for ab in adds:
            for p in acyclic_paths(sub, head, [ab]):
                org = PathOriginsOv(b, fb, p)
                preds = path_preds(b, org, p)
                env = [(is_i, i), (is_c, c)]
                try:
                    if all(bool(evalo(cd, env, fb, b)) == t for cd, t, _ in preds):
                        arg = org.of_operand(b.blocks[ab]["term"]["args"][1], ab, "t")
                        # BigNum::new(k)
                        if arg[0] == "call" and arg[1] == B + "new":
                            res.append(("digit", evalo(arg[2][0], env, fb, b)))
                        else:
                            res.append(("digit?", show(arg, b)[:60]))
                except Unknown as e:
                    res.append(("unknown", show(e.args[0], b)[:60]))
        # error paths (leave the loop into an Err return)
        for eb in errs:
            for p in acyclic_paths(normal_cfg(b), head, [eb]):
                if not all(x in loop or x == eb or x in cfg.reachable_from(eb) for x in p[:-1]):
                    pass
                org = PathOriginsOv(b, fb, p)
                preds = path_preds(b, org, p)
                env = [(is_i, i), (is_c, c)]
                try:
                    rel = [(cd, t) for cd, t, _ in preds if any(is_i(x) or is_c(x) for x in walk(cd))]
                    if rel and all(bool(evalo(cd, env, fb, b)) == t for cd, t in rel):
                        res.append(("err",))
                except Unknown:
                    pass
        # sign path: back to the head without add
        for tail, _ in bes:
            for p in acyclic_paths(sub, head, [tail]):
                if any(x in adds for x in p):
                    continue
                org = PathOriginsOv(b, fb, p)
                preds = path_preds(b, org, p)
                env = [(is_i, i), (is_c, c)]
                try:
                    rel = [(cd, t) for cd, t, _ in preds if any(is_i(x) or is_c(x) for x in walk(cd))]
                    if rel and all(bool(evalo(cd, env, fb, b)) == t for cd, t in rel):
                        res.append(("sign",))
                except Unknown:
                    pass
        return sorted(set(res))

    bad = []
    for k, ch in enumerate(DIGITS):
        r = run(1, ord(ch))
        if r != [("digit", k)]:
            bad.append((ch, r))
        r0 = run(0, ord(ch))
        if r0 != [("digit", k)]:
            bad.append((ch + "@0", r0))
    R.check(not bad, "reader:digits", "every conventional digit character is read back as its value, at index 0 and elsewhere (36 digits x 2 positions)", b.span, bad[:6])
    bad = []
    for ch in "/:@[`az-+ .é가":
        r = run(1, ord(ch))
        if r != [("err",)]:
            bad.append((ch, r))
    R.check(not bad, "reader:rejects", "characters outside 0-9A-Z (and '-' after index 0) are rejected with a parse error", b.span, bad[:6])
    R.check(run(0, ord("-")) == [("sign",)], "reader:sign_at_0", "'-' at index 0 is taken as the sign and consumes no digit", b.span, run(0, ord("-")))
    okb = [bi for bi, blk in enumerate(b.blocks) if not blk["cleanup"] for st in blk["stmts"] if st["k"] == "assign" and st["p"]["l"] == 0 and st["r"]["k"] == "agg" and st["r"].get("variant") == "Ok"]
    heads_ = {h for _, h in cfg.back_edges()}
    R.check(bool(okb) and not reaches_without(cfg, [0], okb, cut_blocks=[head]) and heads_ == {head}, "reader:one_route", "from_string_base has one way of producing a number, the digit loop (Ok results %d, loops %d)" % (len(okb), len(heads_)), b.span)
    # accumulate: res *= base before res += digit; base = new(param)
    roles = Roles(b, fb, param_roles=PR(b))
    ok = len(adds) == 1 and len(muls) == 1 and not reaches_without(sub, [head], adds[0], cut_blocks=muls) and roles.of_operand(b.blocks[muls[0]]["term"]["args"][1], muls[0]) == "BigNum::new(P2)"
    vars_ = Vars(b)
    ok = ok and vars_.root_key(b.blocks[muls[0]]["term"]["args"][0]) == vars_.root_key(b.blocks[adds[0]]["term"]["args"][0])
    R.check(ok, "reader:horner", "each digit updates res = res * base + digit (multiply first, same accumulator, base = BigNum::new(base parameter))", b.blocks[adds[0]]["term"]["span"]["at"] if adds else None)
    # sign applied after the loop: SET(res.pos, false) under flip
    sets = [(bi, si, s) for bi, blk in enumerate(b.blocks) for si, s in enumerate(blk["stmts"]) if s["k"] == "assign" and any(isinstance(e, dict) and e.get("n") == "pos" for e in s["p"]["proj"])]
    ok = len(sets) == 1 and sets[0][0] not in loop and sets[0][2]["r"]["k"] == "use" and sets[0][2]["r"]["x"].get("int") == "0"
    R.check(ok, "reader:sign_applied", "the sign flag is cleared once, after all digits were accumulated", sets[0][2]["span"]["at"] if sets else None)
    # the accumulator starts at zero
    acc = vars_.root_key(b.blocks[adds[0]]["term"]["args"][0]) if adds else None
    inits = [roles.of_origin(roles.org._site(acc[1], d, 0, ())) for d in vars_.defs.get(acc[1], []) if d[1] not in loop] if acc and acc[0] == "L" else []
    R.check(inits == ["BigNum::new(K0)"], "reader:start", "the accumulator starts at zero: %s" % inits, b.span)
    # the flag that clears the sign: false at the start, set on the sign path (and only there), tested after the loop
    ok, why = False, "no sign flag found"
    if sets:
        sb = sets[0][0]
        for gb, blk in enumerate(b.blocks):
            tt = blk["term"]
            if blk["cleanup"] or tt["k"] != "switch" or tt["xty"] != "bool" or gb in loop:
                continue
            fk = vars_.key_of_operand(tt["x"])
            if not fk or fk[0] != "L" or fk[1] not in b.local_names():
                continue
            zero = [bb for v, bb in tt["arms"] if int(v) == 0]
            one = tt["otherwise"] if zero else None
            if one is None or reaches_without(cfg, [0], sb, cut_edges=[(gb, one)]):
                continue
            ds = vars_.defs.get(fk[1], [])
            outside = [d for d in ds if d[1] not in loop]
            inside = [d for d in ds if d[1] in loop]
            cst = lambda d: d[0] == "assign" and d[3]["r"]["k"] == "use" and d[3]["r"]["x"].get("int")
            sign_only = len(inside) == 1 and not reaches_without(sub, [inside[0][1]], adds[0], cut_blocks=[head]) and not reaches_without(sub, [head], [t for t, _ in bes], cut_blocks=set(adds) | {inside[0][1]})
            ok = len(outside) == 1 and cst(outside[0]) == "0" and len(inside) == 1 and cst(inside[0]) == "1" and sign_only
            why = "flag %s: initial %s, in the loop %s, set on every sign path and on no digit path: %s" % (b.lname(fk[1]), [cst(d) for d in outside], [cst(d) for d in inside], sign_only)
            break
    R.check(ok, "reader:sign_flag", "the sign is cleared exactly when a leading '-' was seen (flag false at the start, set to true on the sign path only, tested after the loop): %s" % why, sets[0][2]["span"]["at"] if sets else None)


def rule_bases(ctx, R):
    fb = ctx.fb
    got = {}
    for nm in ("to_string_base", "from_string_base"):
        b = fb.bodies.get(B + nm)
        if not R.anchor(b is not None, nm, nm):
            continue
        org = Origins(b, fb)
        for bi, t in b.calls():
            if callee_name(t["f"], fb).endswith("RangeInclusive::contains") and org.of_operand(t["args"][1], bi, "t") == ("arg", 2):
                got[nm] = promoted_range(fb, b, org.of_operand(t["args"][0], bi, "t"))
    # ... and reject exactly the bases outside it: the error return is taken when `contains` is false
    for nm in ("to_string_base", "from_string_base"):
        b = fb.bodies.get(B + nm)
        if b is None:
            continue
        cfg_ = normal_cfg(b)
        r_ = Roles(b, fb, param_roles=PR(b))
        e_ = Events(b, fb, roles=r_)
        inside, outside = [], []
        for gb, blk in enumerate(b.blocks):
            tt = blk["term"]
            if tt["k"] == "switch" and not blk["cleanup"]:
                for s_ in cfg_.succ[gb]:
                    lab = e_.generic_edge(gb, tt, s_) or ""
                    if "RangeInclusive::contains" in lab and "P2" in lab:
                        (inside if lab.endswith("=1") else outside).append((gb, s_))
        errs = [bi for bi, blk in enumerate(b.blocks) for st in blk["stmts"] if st["k"] == "assign" and st["r"]["k"] == "agg" and "BaseSizeError" in str(st["r"].get("variant", "")) + str(st["r"].get("adt", "")) + str(st["r"])[:200]]
        ok = len(inside) == 1 and len(outside) == 1 and bool(errs) and all(not reaches_without(cfg_, [0], eb, cut_edges=outside) for eb in errs) and not any(reaches_without(cfg_, [outside[0][1]], x) for x in [bi for bi, t in b.calls() if callee_name(t["f"], fb).endswith("BigNum::new")])
        R.check(ok, "bases:reject:%s" % nm, "%s returns the base error exactly for bases outside the range (and does no work for them)" % nm, b.span)
    # the text form of a number is decimal on both sides: Display writes base 10 and from_string reads base 10
    dec = {}
    for nm, callee in (("<number::big_number::BigNum as core::fmt::Display>::fmt", B + "to_string_base"), (B + "from_string", B + "from_string_base")):
        cands = [n for n in fb.bodies if n == nm or (nm.startswith("<") and n.endswith("BigNum as core::fmt::Display>::fmt"))]
        for n in cands[:1]:
            b_ = fb.bodies[n]
            R.analyse(n)
            r_ = Roles(b_, fb, param_roles=PR(b_))
            cs = [r_.of_operand(t["args"][1], bi) for bi, t in b_.calls() if callee_name(t["f"], fb) == callee]
            dec[callee.rsplit("::", 1)[-1]] = cs
    R.check(dec.get("to_string_base") == ["K10"] and dec.get("from_string_base") == ["K10"], "bases:decimal", "Display writes and from_string reads the same base, ten: %s" % dec)
    R.check(got.get("to_string_base") == got.get("from_string_base") and got.get("to_string_base") is not None and got["to_string_base"][1] == 36 and got["to_string_base"][0] in (1, 2), "bases:agree", "writer and reader accept the same base range ending at 36: %s" % got)


def rule_num_codec(ctx, R):
    """Num::from_string inverts Display for NaN, integers and fractions, with and without sign: abstract
    interpretation of the decoder over the shape domain of Display's image (rules/shape.py)"""
    from .shape import decode_table
    fb = ctx.fb
    b = fb.bodies.get("number::num::Num::from_string")
    if not R.anchor(b is not None, "from_string", "Num::from_string"):
        return
    R.analyse(b.name)
    # the shapes Display prints: the NaN text (read from Display's own body), D, -D, D/D, -D/D (C06.DISPLAY / C09.DISPLAY
    # decide that these are the shapes; the sign is printed by BigNum's writer in front of the numerator, C09.WRITER)
    disp = fb.bodies.get("<number::num::Num as core::fmt::Display>::fmt")
    dlits = set()
    if disp is not None:
        od = Origins(disp, fb)
        for bi, t in disp.calls():
            for a_ in t["args"]:
                o = od.of_operand(a_, bi, "t")
                if o[0] == "const" and isinstance(o[2], str) and len(o[2]) > 1:
                    dlits.add(o[2])
    if not R.anchor(len(dlits) == 1, "nan_text", "the one text literal Display prints (NaN): %s" % sorted(dlits)):
        return
    nan_text = dlits.pop()
    inputs = {"nan": ("NAN",), "integer": ("D1",), "negative integer": ("-", "D1"), "fraction": ("D1", "/", "D2"), "negative fraction": ("-", "D1", "/", "D2")}
    want = {"nan": ("nan",), "integer": ("num", 1, "D1", "1"), "negative integer": ("num", -1, "D1", "1"), "fraction": ("num", 1, "D1", "D2"), "negative fraction": ("num", -1, "D1", "D2")}
    flip = lambda v: ("num", -v[1], v[2], v[3]) if isinstance(v, tuple) and v[0] == "num" else v
    table, n_paths = decode_table(b, fb, inputs, {nan_text: ("NAN",)}, {"number::num::Num::minus": flip})
    R.floor("decoder_paths", n_paths, 5, "acyclic paths of Num::from_string")
    for nm in inputs:
        got = table[nm]
        ok = got == ("value", want[nm])
        R.check(ok, "num:decode:%s" % nm.replace(" ", "_"), "the text Display prints for a %s (%s) is read back as %s; the analysis found %s" % (nm, " ".join(inputs[nm]), want[nm], got), b.span)


def rule_embed(ctx, R):
    fb = ctx.fb
    b = fb.bodies.get("hyeong::core::compile::vec_to_str")
    if not R.anchor(b is not None, "vec_to_str", "compile::vec_to_str"):
        return
    R.analyse(b.name)
    ok = False
    tys = []
    bodies = [b] + fb.closures_of(b)
    for bb in bodies:
        for bi, t in bb.calls():
            n = callee_name(t["f"], fb)
            if n.endswith("Argument::new_debug") or n.endswith("Argument::new_display"):
                tys.append((n.rsplit("::", 1)[-1], [g for g in t["f"]["gargs"] if not g.startswith("'")]))
    R.check(tys == [("new_debug", ["std::string::String"])], "embed:quoted_display", "stack values are embedded in emitted source as Debug-quoted Display text (a String), never as a bare token: %s" % tys, b.span)
    tos = [t for bb in bodies for bi, t in bb.calls() if callee_name(t["f"], fb) == "alloc::string::ToString::to_string" or callee_name(t["f"], fb).endswith("ToString::to_string")]
    R.check(any("number::num::Num" in g for t in tos for g in t["f"]["gargs"]), "embed:display_of_num", "the embedded text is Num's Display rendering")
    # every element of the stack, in order, unconditionally
    names = [callee_name(t["f"], fb) for bb in bodies for _, t in bb.calls()]
    SELECT = ("filter", "filter_map", "skip", "skip_while", "take", "take_while", "step_by", "rev", "dedup", "retain", "truncate", "pop", "remove", "flat_map", "zip", "chain", "cycle", "nth", "last", "first")
    sel = sorted({n for n in names if n.rsplit("::", 1)[-1] in SELECT and ("iter" in n.lower() or "Vec" in n or "slice" in n)})
    R.check(not sel, "embed:no_selection", "no selecting or reordering adapter is applied to the stack before it is embedded: %s" % sel, b.span)
    cfg = normal_cfg(b)
    roles = Roles(b, fb, param_roles={1: "P1"})
    fmt_of = lambda bb: [bi for bi, t in bb.calls() if callee_name(t["f"], fb) in ("alloc::fmt::format", "std::fmt::Write::write_fmt", "core::fmt::Write::write_fmt")]
    its = [(bi, roles.of_operand(t["args"][0], bi)) for bi, t in b.calls() if callee_name(t["f"], fb) == "core::iter::traits::collect::IntoIterator::into_iter"]
    if cfg.back_edges():
        src_ok = len(its) == 1 and its[0][1] in ("P1", "[T]::iter(P1)", "COPY(P1)")
        ok = src_ok
        if ok:
            head = cfg.back_edges()[0][1]
            appends = [bi for bi, t in b.calls() if callee_name(t["f"], fb).rsplit("::", 1)[-1] in ("push_str", "push", "write_fmt", "extend", "add_assign")]
            ok = bool(appends) and not reaches_without(cfg, cfg.succ[head], head, cut_blocks=appends) and all(not reaches_without(cfg, [head], a_, cut_blocks=fmt_of(b)) for a_ in appends)
        R.check(ok, "embed:every_element", "the loop runs over the whole stack (%s) and every iteration appends one formatted value" % [r for _, r in its], b.span)
    else:
        ret = [roles.of_origin(("call", callee_name(t["f"], fb), tuple(roles.org.of_operand(a, bi, "t") for a in t["args"]))) for bi, t in b.calls() if t["dest"]["l"] == 0 and not t["dest"]["proj"]]
        ok = ret == ["Iterator::collect(Iterator::map([T]::iter(P1),CLOSURE))"]
        for c in fb.closures_of(b):
            ccfg = normal_cfg(c)
            f = fmt_of(c)
            ok = ok and bool(f) and not reaches_without(ccfg, [0], ccfg.returns, cut_blocks=f)
        R.check(ok, "embed:every_element", "the whole stack is mapped element by element through the formatting closure and collected: %s" % ret, b.span)


RULES = [
    ("C09.WRITER", "to_string_base: conventional digits, divmod step, sign last, single reversal, zero", rule_writer),
    ("C09.READER", "from_string_base: inverts the digit function, rejects other characters, sign only at index 0, Horner step", rule_reader),
    ("C09.BASES", "writer and reader accept the same bases", rule_bases),
    ("C09.NUM", "Num::from_string inverts Display (NaN text, '/', sign for every shape)", rule_num_codec),
    ("C09.DISPLAY", "Num's Display (integer iff denominator equals one)", p_c06.rule_display),
    ("C09.EMBED", "level-2 stack restore embeds quoted Display text", rule_embed),
]


def rule_restore(ctx, R):
    from . import p_c03
    return p_c03.rule_units(ctx, R)


RULES.append(("C09.RESTORE", "every non-empty stack of the pre-executed state is written into the emitted program, at its own index, and read back with Num::from_string (shared with C03.UNITS)", rule_restore))


# rules of other properties re-run under this property's name; resolved by rules/main.py once every module can be
# imported (the owners import this module themselves)
DEFERRED_BUNDLES = [
    {'prop': 'C09', 'tag': 'INT', 'module': 'p_c05', 'only': ('CTOR', 'CONSTS', 'NORMALISE', 'SIGN', 'OPS'), 'skip': (), 'why': 'what is written and read back is a BigNum in normal form'},
    {'prop': 'C09', 'tag': 'RAT', 'module': 'p_c06', 'only': ('CANON', 'ARITH'), 'skip': (), 'why': 'a rational that is written is canonical'},
]
