"""C06 — rationals compute exactly, stay canonical, NaN is absorbing.  C07 re-uses the helpers."""
from .facts import callee_name
from .gea import Seq, Star, Alt, Opt
from .interp import Events, normal_cfg, language
from .lang import Roles
from .origin import Origins, show, walk
from .util import reaches_without
from . import p_c01
from .p_c05 import fn_paths, PR, EPS

TECHNIQUE = 'static analysis: event-language equality of the rational operations against their definitions; canonical-aggregate dataflow (every Num constructed is canonicalised before it escapes); the integer rules of C05'
LEVEL = "other"
EXPLANATION = (
    'The rational type is a thin, definitional layer over the big integers, so its functions are compared on all CFG '
    'paths with the mathematical definitions: add builds (a*d + b*c)/(b*d), mul builds (a*c)/(b*d), both return NaN '
    'exactly when an operand is NaN and pass every non-NaN result through the canonicaliser; the canonicaliser '
    'divides both parts by their gcd and THEN moves the sign to the numerator; flip swaps and repairs the sign, '
    'leaving NaN alone; neg/minus touch only the numerator; is_pos/is_nan/floor/Display have their defining shape '
    '(integer printed without denominator iff the denominator equals one, fixed NaN text); every Num aggregate in the '
    'crate is a canonical constant, is canonicalised before it can escape, or is a field-wise negation of a canonical '
    'value; operator impls delegate with operands in order. The integer layer underneath (sign dispatch, operator '
    'delegation, Euclid step of the gcd used by optimize, limb conservation laws, quotient search, magnitude '
    'comparison) is decided by the rules of C05, re-run here as C06.INT.*; the inductions over whole numbers are NOT '
    'mechanised.'
)
ASSUMPTIONS = [
    "rustc MIR (nightly 1.97, mir-opt-level=0); unwind edges ignored",
    "BigNum arithmetic is exact and gcd returns a value whose magnitude is the gcd (C05; limb arithmetic not verified)",
    "inputs of the public functions are canonical (induction hypothesis of the canonical-form invariant)",
]
TRUSTED = ["rustc nightly MIR", "/verif/rules A-GEA/A-PATH/A-ORG", "definition table in rules/p_c06.py"]

N = "number::num::Num::"
PURE = EPS | {
    "core::ops::arith::Mul::mul", "core::ops::arith::Add::add", "core::ops::arith::Sub::sub", "core::ops::arith::Div::div", "core::ops::arith::Rem::rem",
    "core::ops::arith::Neg::neg", N + "nan", N + "zero", N + "one", N + "is_nan", N + "is_pos",
    "number::big_number::BigNum::one", "number::big_number::BigNum::zero", "number::big_number::BigNum::new", "number::big_number::BigNum::gcd",
    "number::big_number::BigNum::is_pos", "number::big_number::BigNum::is_zero", "core::cmp::PartialEq::eq", "core::cmp::PartialEq::ne", "core::cmp::PartialOrd::lt",
    "core::fmt::rt::Argument::new_display", "std::fmt::Arguments::new", "std::fmt::Arguments::from_str", "core::cmp::PartialOrd::partial_cmp",
}


def fn_lang(fb, name, epsilon=PURE, set_events=False):
    b = fb.bodies.get(name)
    if b is None:
        return None, None
    cfg = normal_cfg(b)
    ev = Events(b, fb, roles=Roles(b, fb, param_roles=PR(b)), epsilon=set(epsilon))
    ev.set_events = set_events
    return b, language(b, fb, cfg, 0, cfg.returns, ev, stop_at_exit=False)


def nan_guard(tail):
    """NaN short-circuit in either operand order, then the arithmetic: two accepted variants"""
    a, b = "BR[Num::is_nan(P1)]", "BR[Num::is_nan(P2)]"
    return [
        Alt(Seq(a + "=1", "RET(NAN)"), Seq(a + "=0", b + "=1", "RET(NAN)"), Seq(a + "=0", b + "=0", tail)),
        Alt(Seq(b + "=1", "RET(NAN)"), Seq(b + "=0", a + "=1", "RET(NAN)"), Seq(b + "=0", a + "=0", tail)),
    ]


def sign_repairs(d="P1.down", u="P1.up"):
    p = "BR[BigNum::is_pos(%s)]" % d
    return [
        Alt(Seq(p + "=1"), Seq(p + "=0", "BigNum::minus(%s)" % d, "BigNum::minus(%s)" % u)),
        Alt(Seq(p + "=1"), Seq(p + "=0", "BigNum::minus(%s)" % u, "BigNum::minus(%s)" % d)),
    ]


def rule_arith(ctx, R):
    fb = ctx.fb
    any_ = p_c01.check_lang_any
    X = "Num::Num{ADD(MUL(P1.down,P2.up),MUL(P1.up,P2.down)),MUL(P1.down,P2.down)}"
    b, d = fn_lang(fb, N + "add")
    if R.anchor(b is not None, "add", "Num::add"):
        R.analyse(b.name)
        XF = X.replace("Num::Num{", "Num::from_big_num(")[:-1] + ")"
        any_(R, "add:definition", "a/b + c/d = (a*d + b*c)/(b*d), canonicalised; NaN if either operand is NaN", d, nan_guard(Seq("Num::optimize(%s)" % X, "RET(%s)" % X)) + nan_guard(Seq(XF, "RET(%s)" % XF)), b.span)
    Y = "Num::Num{MUL(P1.up,P2.up),MUL(P1.down,P2.down)}"
    b, d = fn_lang(fb, N + "mul")
    if R.anchor(b is not None, "mul", "Num::mul"):
        R.analyse(b.name)
        YF = Y.replace("Num::Num{", "Num::from_big_num(")[:-1] + ")"
        any_(R, "mul:definition", "a/b * c/d = (a*c)/(b*d), canonicalised; NaN if either operand is NaN", d, nan_guard(Seq("Num::optimize(%s)" % Y, "RET(%s)" % Y)) + nan_guard(Seq(YF, "RET(%s)" % YF)), b.span)
    # the canonicalising constructor the variants above may delegate to
    b, d = fn_lang(fb, N + "from_big_num")
    if R.anchor(b is not None, "from_big_num", "Num::from_big_num"):
        R.analyse(b.name)
        Z = "Num::Num{P1,P2}"
        any_(R, "from_big_num:definition", "from_big_num(up, down) builds up/down and canonicalises it", d, [Seq("Num::optimize(%s)" % Z, "RET(%s)" % Z)], b.span)
    b, d = fn_lang(fb, N + "optimize")
    if R.anchor(b is not None, "optimize", "Num::optimize"):
        R.analyse(b.name)
        specs = []
        for g in ("BigNum::gcd(P1.up,P1.down)", "BigNum::gcd(P1.down,P1.up)"):
            for x, y in (("up", "down"), ("down", "up")):
                for sr in sign_repairs():
                    specs.append(Seq("DivAssign::div_assign(P1.%s,%s)" % (x, g), "DivAssign::div_assign(P1.%s,%s)" % (y, g), sr, "RET(K'()')"))
        any_(R, "optimize:definition", "canonicaliser: divide numerator and denominator by their gcd, then move the sign to the numerator (the gcd may be negative)", d, specs, b.span)
    b, d = fn_lang(fb, N + "flip")
    if R.anchor(b is not None, "flip", "Num::flip"):
        R.analyse(b.name)
        specs = [Alt(Seq("BR[Num::is_nan(P1)]=1", "RET(K'()')"), Seq("BR[Num::is_nan(P1)]=0", sw, sr, "RET(K'()')")) for sw in ("mem::swap(P1.up,P1.down)", "mem::swap(P1.down,P1.up)") for sr in sign_repairs()]
        any_(R, "flip:definition", "reciprocal: NaN untouched; otherwise swap the parts and move the sign to the numerator (1/0 becomes NaN)", d, specs, b.span)
    b, d = fn_lang(fb, N + "neg")
    if R.anchor(b is not None, "neg", "Num::neg"):
        any_(R, "neg:definition", "negation negates the numerator only", d, [Seq("RET(Num::Num{NEG(P1.up),COPY(P1.down)})")], b.span)
    b, d = fn_lang(fb, N + "minus")
    if R.anchor(b is not None, "minus", "Num::minus"):
        any_(R, "minus:definition", "in-place negation negates the numerator only (zero and NaN keep their form)", d, [Seq("BigNum::minus(P1.up)", "RET(K'()')")], b.span)
    b, d = fn_lang(fb, N + "is_nan")
    if R.anchor(b is not None, "is_nan", "Num::is_nan"):
        any_(R, "is_nan:definition", "NaN is exactly a zero denominator", d, [Seq("RET(BigNum::is_zero(P1.down))")], b.span)
    b, d = fn_lang(fb, N + "is_pos")
    if R.anchor(b is not None, "is_pos", "Num::is_pos"):
        specs = [
            Alt(Seq("BR[BigNum::is_pos(P1.up)]=0", "RET(K0)"), Seq("BR[BigNum::is_pos(P1.up)]=1", "RET(Not(Num::is_nan(P1)))")),
            Alt(Seq("BR[Num::is_nan(P1)]=1", "RET(K0)"), Seq("BR[Num::is_nan(P1)]=0", "RET(BigNum::is_pos(P1.up))")),
        ]
        any_(R, "is_pos:definition", "sign test: numerator non-negative and not NaN (zero counts as non-negative, as the output rule needs)", d, specs, b.span)
    b, d = fn_lang(fb, N + "floor")
    if R.anchor(b is not None, "floor", "Num::floor"):
        specs = [Seq("RET(Div::div(P1.up,P1.down))")]
        for E in ("BR[PartialEq::eq(P1.down,BigNum::one())]", "BR[PartialEq::eq(BigNum::one(),P1.down)]"):
            specs.append(Alt(Seq(E + "=1", "RET(COPY(P1.up))"), Seq(E + "=0", "RET(Div::div(P1.up,P1.down))")))
        any_(R, "floor:definition", "floor of a non-negative value is the truncating quotient numerator / denominator", d, specs, b.span)
    for nm in ("set_move", "set_copy"):
        b, d = fn_lang(fb, N + nm)
        u, dn = "BigNum::%s(P1.up,P2.up)" % nm, "BigNum::%s(P1.down,P2.down)" % nm
        if R.anchor(b is not None, nm, "Num::" + nm):
            any_(R, nm + ":definition", "%s overwrites numerator with numerator and denominator with denominator" % nm, d, [Seq(u, dn, "RET(K'()')"), Seq(dn, u, "RET(K'()')")], b.span)
    n = 0
    for tr, m, arg in (("Add", "add", "Num::add(P1,P2)"), ("Mul", "mul", "Num::mul(P1,P2)"), ("Neg", "neg", "Num::neg(P1)")):
        name = "<&number::num::Num as core::ops::arith::%s>::%s" % (tr, m)
        b, d = fn_lang(fb, name, epsilon=EPS)
        if R.anchor(b is not None, name, "operator impl %s for &Num" % tr):
            n += 1
            any_(R, name, "operator %s delegates to the namesake function with operands in order" % tr, d, [Seq(arg, "RET(%s)" % arg)], b.span)
    for tr, m in (("Add", "add"), ("Mul", "mul")):
        name = "<number::num::Num as core::ops::arith::%sAssign>::%s_assign" % (tr, m)
        b, d = fn_lang(fb, name, epsilon=EPS)
        if R.anchor(b is not None, name, "operator impl %sAssign for Num" % tr):
            n += 1
            c = "%s::%s(P1,P2)" % (tr, m)
            cr = "%s(P1,P2)" % tr.upper()
            any_(R, name, "a %s= b stores (&*a %s b) back into a" % (tr, tr), d, [Seq(c, "Num::set_move(P1,%s)" % cr, "RET(K'()')")], b.span)
    R.floor("num_operator_impls", n, 5, "operator impls of Num")


def rule_canon(ctx, R):
    """every Num{..} aggregate in the crate is canonical by construction or canonicalised before it escapes"""
    fb = ctx.fb
    n = 0
    for body in sorted(fb.bodies.values(), key=lambda b: b.name):
        if body.path in fb.helpers:
            continue
        org = None
        for bi, blk in enumerate(body.blocks):
            if blk["cleanup"]:
                continue
            for si, s in enumerate(blk["stmts"]):
                r = s.get("r")
                if s["k"] != "assign" or r["k"] != "agg" or r.get("adt") != "hyeong::number::num::Num":
                    continue
                n += 1
                R.analyse(body.name)
                org = org or Origins(body, fb)
                roles = Roles(body, fb, param_roles=PR(body), org=org)
                up, down = (roles.of_origin(org.of_operand(f, bi, si)) for f in r["fields"])
                key = "%s:Num{%s,%s}" % (body.name, up[:40], down[:40])
                where = s["span"]["at"]
                if (up, down) in (("BigNum::zero()", "BigNum::one()"), ("BigNum::one()", "BigNum::one()")):
                    R.ok(key, "canonical constant %s/%s" % (up, down), where)
                elif (up, down) == ("BigNum::one()", "BigNum::zero()"):
                    R.ok(key, "the NaN constant 1/0", where)
                elif down == "BigNum::one()" and up.startswith("BigNum::new("):
                    R.ok(key, "integer n/1 built from a machine integer", where)
                elif body.name == N + "neg" and up == "NEG(P1.up)" and down == "COPY(P1.down)":
                    R.ok(key, "field-wise negation of a canonical value", where)
                elif body.name.endswith("::clone") :
                    R.ok(key, "clone", where)
                else:
                    # must pass through optimize() before any return
                    cfg = normal_cfg(body)
                    dest = s["p"]["l"]
                    opt_blocks = []
                    from .util import Vars
                    vars_ = Vars(body)
                    for b2, t2 in body.calls():
                        if callee_name(t2["f"], fb) == N + "optimize" and vars_.root_key(t2["args"][0]) == ("L", dest):
                            opt_blocks.append(b2)
                    ok = bool(opt_blocks) and not any(reaches_without(cfg, cfg.succ[bi] if False else [bi], rb, cut_blocks=opt_blocks) for rb in cfg.returns)
                    R.check(ok, key, "a computed rational is canonicalised (optimize) on every path before it can be returned", where)
    R.floor("num_aggregates", n, 10, "Num{..} aggregates in the crate")


def rule_display(ctx, R):
    fb = ctx.fb
    name = "<number::num::Num as core::fmt::Display>::fmt"
    b, d = fn_lang(fb, name)
    if not R.anchor(b is not None, name, "Display for Num"):
        return
    R.analyse(name)
    E = "BR[PartialEq::eq(BigNum::one(),P1.down)]"  # canonical (sorted) operand order, see interp.generic_edge
    nan = "Formatter::write_fmt(P2,Arguments::from_str(K'너무 커엇...'))"
    i = "Formatter::write_fmt(P2,Arguments::new(Kb'\\xc0\\x00',array{Argument::new_display(P1.up)}))"
    fr = "Formatter::write_fmt(P2,Arguments::new(Kb'\\xc0\\x01/\\xc0\\x00',array{Argument::new_display(P1.up),Argument::new_display(P1.down)}))"
    nan2 = "Formatter::write_str(P2,K'너무 커엇...')"  # the same text without the formatting machinery (write! without arguments pads nothing either)
    rest = Seq("BR[Num::is_nan(P1)]=0", Alt(Seq(E + "=1", i, "RET(%s)" % i), Seq(E + "=0", fr, "RET(%s)" % fr)))
    specs = [Alt(Seq("BR[Num::is_nan(P1)]=1", n_, "RET(%s)" % n_), rest) for n_ in (nan, nan2)]
    p_c01.check_lang_any(R, "display:definition", "Display: the fixed NaN text; an integer (denominator equal to one, full comparison) without denominator; otherwise numerator/denominator", d, specs, b.span)
    name = "<number::num::Num as core::fmt::Debug>::fmt"
    b, d = fn_lang(fb, name)
    if R.anchor(b is not None, name, "Debug for Num"):
        w = "Formatter::write_fmt(P2,Arguments::new(Kb'\\xc0\\x00',array{Argument::new_display(P1)}))"
        p_c01.check_lang(R, "debug:definition", "Debug renders like Display", d, Seq(w, "RET(%s)" % w), b.span)


RULES = [
    ("C06.ARITH", "add/mul/optimize/flip/neg/minus/is_pos/is_nan/floor and the operator impls have their defining shape", rule_arith),
    ("C06.CANON", "every Num aggregate is canonical by construction or canonicalised before it escapes", rule_canon),
    ("C06.DISPLAY", "Display/Debug of Num", rule_display),
]


def _c05(name):
    def run(ctx, R):
        from . import p_c05
        return dict((r[0], r[2]) for r in p_c05.RULES)[name](ctx, R)
    return run


# rational arithmetic is only as exact as the integer arithmetic under it (shared with C05)
RULES += [
    ("C06.INT.CTOR", "BigNum::new keeps every bit and the sign (zero non-negative): Num::from_num/new build on it", _c05("C05.CTOR")),
    ("C06.INT.CONSTS", "the constants 0, 1, NaN and the predicates is_zero / is_pos (shared with C05.CONSTS)", _c05("C05.CONSTS")),
    ("C06.INT.NORMALISE", "shrink_to_fit removes exactly the superfluous zero limbs (shared with C05.NORMALISE)", _c05("C05.NORMALISE")),
    ("C06.INT.SIGN", "BigNum sign dispatch of add/sub/mul/div/partial_cmp/eq/neg/minus", _c05("C05.SIGN")),
    ("C06.INT.OPS", "BigNum operator impls, rem = a-(a/b)*b, Euclid step of gcd (used by Num::optimize)", _c05("C05.OPS")),
    ("C06.INT.DIVLESS", "BigNum quotient search and magnitude comparison", _c05("C05.DIVLESS")),
    ("C06.INT.LIMBS", "BigNum carry/borrow/partial-product loops conserve the value", _c05("C05.LIMBS")),
]

