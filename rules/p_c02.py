"""C02 — optimisation levels 1 and 2 never change what a program does.

Sibling agreement of the speculative executor with the interpreter (A-GEA), transactional roll-back,
slot allocation of the level-1 renumbering, capture / residual / re-emission wiring."""
import re
from .cfg import CFG
from .facts import callee_name
from .gea import Seq, Star, Alt, DFA, compare, spec_nfa
from .interp import Events, normal_cfg, kind_switch, language
from .lang import Roles, S, C, NUM, POP_WRAP, PUSH_WRAP
from .origin import Origins, show, walk
from .util import Vars, reaches_without
from . import p_c01

TECHNIQUE = 'static analysis: sibling cross-check of event languages (speculative executor vs interpreter) on rustc MIR; dominance/cut queries for snapshot and roll-back; threshold agreement by origin slicing'
LEVEL = "other"
EXPLANATION = (
    "The speculative executor (opt_execute) and the interpreter (execute_one) are hand-written siblings: for each of "
    "the six command arms, the pop closure and the label/♡ segment, the regular language of events over all CFG paths "
    "of opt_execute (bail-out paths pruned) is compared for equality with the interpreter's (C02.SIB*). The roll-back "
    "is checked as a transactional rule on all paths (snapshot first, every give-up returns the snapshot, the success "
    "return returns the live state, real writers only written after the last give-up point). The level-1 renumbering "
    "is checked for 'every selectable stack owns a private slot' and for agreement of its three thresholds; capture, "
    "residual slice and re-emission wiring are checked by argument provenance. Decides these structural necessary "
    "conditions for every program; does NOT decide equality of outputs as such."
)
ASSUMPTIONS = [
    "rustc MIR (nightly 1.97, mir-opt-level=0); unwind edges ignored",
    "execute_one is the reference semantics (its agreement with the language definition is C01's)",
    "determinism of Num/BigNum arithmetic (same operations on same values give same results)",
]
TRUSTED = ["rustc nightly MIR", "/verif/rules A-CFG/A-ORG/A-GEA/A-DOM", "C01's language table for the jump segment"]

OPT_EXEC = "hyeong::core::optimize::opt_execute"
OPTIMIZE = "hyeong::core::optimize::optimize"
EXEC_ONE = p_c01.EXEC_ONE


def bail_blocks(body, fb):
    """blocks that build the give-up result Ok((_, false)) in the return place"""
    org = Origins(body, fb)
    out = {}
    for bi, b in enumerate(body.blocks):
        if b["cleanup"]:
            continue
        for si, s in enumerate(b["stmts"]):
            if s["k"] == "assign" and s["p"]["l"] == 0 and not s["p"]["proj"]:
                o = org.of_rvalue(s["r"], bi, si)
                if o[0] == "agg" and o[1].endswith("Result::Ok") and o[2] and o[2][0][0] == "agg" and o[2][0][1] == "tuple" and len(o[2][0][2]) == 2:
                    flag = o[2][0][2][1]
                    if flag == ("const", "bool", 0):
                        out[bi] = ("bail", o[2][0][2][0], s)
                    elif flag == ("const", "bool", 1):
                        out[bi] = ("success", o[2][0][2][0], s)
    return out


def err_blocks(body, fb):
    """blocks of a closure that build Result::Err (the closure's own give-up)"""
    out = set()
    for bi, b in enumerate(body.blocks):
        for s in b["stmts"]:
            if s["k"] == "assign" and s["r"]["k"] == "agg" and s["r"].get("variant") == "Err" and s["r"].get("adt", "").endswith("Result"):
                out.add(bi)
    return out


def spec_setup(fb, body):
    """roles for opt_execute: stream buffers, position variable"""
    vars_ = Vars(body)
    org = Origins(body, fb)
    # commit calls: Write::write_all(<real writer param>, &buffer)
    local_roles = {}
    commits = []
    for bi, t in body.calls():
        if callee_name(t["f"], fb) == "std::io::Write::write_all":
            w = vars_.root_key(t["args"][0])
            b = vars_.root_key(t["args"][1])
            if w and w[0] == "L" and w[1] <= body.argc and b and b[0] == "L":
                prole = {2: "OUT", 3: "ERR"}.get(w[1])
                if prole:
                    local_roles[b] = prole
                    commits.append((bi, t, prole, b))
    # position variable: compared (Lt) in a loop-head switch against push_code(..)+1
    loc = None
    for bi, b in enumerate(body.blocks):
        t = b["term"]
        if t["k"] == "switch" and t["xty"] == "bool":
            o = org.of_operand(t["x"], bi, "t")
            if o[0] == "bin" and o[1] == "Lt" and o[3][0] == "bin" and o[3][1] == "Add" and o[3][2][0] == "call" and o[3][2][1] == S + "push_code":
                # left operand variable
                x = t["x"]
                ds = vars_.defs.get(x["p"]["l"], [])
                if len(ds) == 1 and ds[0][0] == "assign" and ds[0][3]["r"]["k"] == "bin":
                    k = vars_.key_of_operand(ds[0][3]["r"]["l"])
                    if k and k[0] == "L":
                        loc = (k[1], bi)
    return vars_, local_roles, commits, loc


def opt_events(fb, body, interesting=None):
    vars_, local_roles, commits, loc = spec_setup(fb, body)
    overrides = {loc[0]: "LOC"} if loc else {}
    roles = Roles(body, fb, local_roles=local_roles, overrides=overrides)
    # the real writer parameters are not the streams the commands write to
    roles.param_roles = dict(roles.param_roles)
    roles.param_roles[2] = "REALOUT"
    roles.param_roles[3] = "REALERR"

    def stmt_events(bi, si, s):
        if loc and s["k"] == "assign" and not s["p"]["proj"] and s["p"]["l"] == loc[0]:
            o = roles.org.of_rvalue(s["r"], bi, si)
            return "SETLOC(%s)" % roles.of_origin(o)
        return NotImplemented

    ev = Events(body, fb, roles=roles, stmt_events=stmt_events)
    ev.interesting = interesting
    return ev, (vars_, local_roles, commits, loc)


JUMP_PRED = ("AREATYPE", "LABEL", "POINT(", "LATEST")


def jump_interesting(pred):
    return any(x in pred for x in JUMP_PRED) and "CALCRES" not in pred


def rule_sib(ctx, R):
    fb = ctx.fb
    ob, ib = fb.bodies.get(OPT_EXEC), fb.bodies.get(EXEC_ONE)
    if not R.anchor(ob is not None and ib is not None, "bodies", "opt_execute and execute_one"):
        return
    R.analyse(ob.name)
    R.analyse(ib.name)
    bails = bail_blocks(ob, fb)
    n_bail = sum(1 for v in bails.values() if v[0] == "bail")
    R.floor("bail_returns", n_bail, 7, "give-up returns Ok((snapshot, false)) in opt_execute (budget, guarded pops, area closure; at least the three kinds)", slack=0.43)
    ocfg = normal_cfg(ob, extra_cut_blocks=[b for b, v in bails.items() if v[0] == "bail"])
    osb, ost = kind_switch(ob, fb)
    ireg = p_c01.exec_regions(ib, fb)
    if not R.anchor(osb is not None and ireg is not None, "kind_switch", "switch on Code::get_type() in both siblings"):
        return
    icfg, isb, ist, ijoin = ireg
    succ_exit = [b for b, v in bails.items() if v[0] == "success"]
    ojoin = ocfg.ipdom(osb, ocfg.returns)
    if not R.anchor(ojoin is not None, "join", "join after the command match in opt_execute"):
        return
    oev, (vars_, local_roles, commits, loc) = opt_events(fb, ob, interesting=lambda p: False)
    R.check(set(local_roles.values()) == {"OUT", "ERR"}, "opt_execute:buffers", "speculative output goes to two local buffers that are committed to the real out / err writers: %s" % sorted(local_roles.values()))
    iev = Events(ib, fb)
    iev.interesting = lambda p: False
    oarms = {int(v): bb for v, bb in ost["arms"]}
    iarms = {int(v): bb for v, bb in ist["arms"]}
    oarms[5] = ost["otherwise"]
    iarms[5] = ist["otherwise"]
    R.check(sorted(oarms) == sorted(iarms) == [0, 1, 2, 3, 4, 5], "opt_execute:exhaustive", "both siblings dispatch on the same six kinds")
    for k in range(6):
        if k not in oarms or k not in iarms:
            continue
        od = language(ob, fb, ocfg, oarms[k], [ojoin], oev)
        # both siblings are compared with the same table (and its accepted variants), so each may be
        # restructured independently as long as it stays within the definition
        p_c01.check_lang_any(R, "opt_execute:arm%d" % k, "kind %d in the speculative executor (bail-out paths pruned)" % k, od, p_c01.ARM_VARIANTS[k], ob.blocks[oarms[k]]["term"]["span"]["at"])
        idf = language(ib, fb, icfg, iarms[k], [ijoin], iev)
        p_c01.check_lang_any(R, "execute_one:arm%d" % k, "kind %d in the interpreter (reference sibling)" % k, idf, p_c01.ARM_VARIANTS[k], ib.blocks[iarms[k]]["term"]["span"]["at"])
    # jump segment: from the join to the loop head / success return, against the definition's jump rules
    oev2, _ = opt_events(fb, ob, interesting=jump_interesting)
    if R.anchor(loc is not None, "loc", "position variable of the speculation loop"):
        head = loc[1]
        od = language(ob, fb, ocfg, ojoin, [head], oev2)
        p_c01.check_lang(R, "opt_execute:jump", "label/♡ segment of opt_execute (continue at x == SETLOC(x))", od, p_c01.jump_spec(lambda x: "SETLOC(%s)" % x), ob.blocks[ojoin]["term"]["span"]["at"])
    # closure: guarded pop
    cls = fb.closures_of(ob)
    if R.anchor(len(cls) == 1, "closure", "pop closure of opt_execute"):
        cb = cls[0]
        R.analyse(cb.name)
        proles = oev.roles
        up, site = p_c01.closure_roles(fb, ob, proles, cb)
        if R.anchor(up is not None, "closure_site", "construction site of the pop closure"):
            croles = Roles(cb, fb, param_roles={}, upvar_roles=up)
            cev = Events(cb, fb, roles=croles)
            cev.interesting = lambda p: False
            ccfg = normal_cfg(cb, extra_cut_blocks=err_blocks(cb, fb))
            cd = language(cb, fb, ccfg, 0, ccfg.returns, cev, stop_at_exit=False)
            p_c01.check_lang(R, "opt_execute:closure", "pop closure of the speculative area evaluation (guard passed)", cd, Seq("POP(CUR)", "RET(POP(CUR))"), cb.span)
            # the captured index is re-read after the command
            bi, si, s = site
            org = Origins(ob, fb)
            dom = ocfg.dominators()
            for n, f in zip(s["r"]["fields_n"], s["r"]["fields"]):
                if up.get(n) != "CUR":
                    continue
                key = vars_.key_of_operand(f)
                if key and key[0] == "L":
                    sites, entry = org.reaching(key[1], bi, si)
                    ok = (not entry) and sites and all(ojoin in dom.get(d[0], ()) for d in sites)
                    R.check(ok, "opt_execute:cur_after_match", "the stack index the speculative area pops from is re-read after the command", s["span"]["at"])


def rule_rollback(ctx, R):
    fb = ctx.fb
    ob = fb.bodies.get(OPT_EXEC)
    if not R.anchor(ob is not None, "opt_execute", "optimize::opt_execute"):
        return
    R.analyse(ob.name)
    org = Origins(ob, fb)
    vars_ = Vars(ob)
    cfg = normal_cfg(ob)
    bails = bail_blocks(ob, fb)
    # the snapshot: Clone::clone(&state) with state = the by-value state parameter
    state_param = [i for i in range(1, ob.argc + 1) if ob.lty(i) == "T"]
    if not R.anchor(len(state_param) == 1, "state_param", "by-value state parameter"):
        return
    sp = state_param[0]
    clones = []
    for bi, t in ob.calls():
        if callee_name(t["f"], fb) == "core::clone::Clone::clone" and t["argtys"][0] == "&T":
            k = vars_.root_key(t["args"][0])
            if k == ("L", sp):
                clones.append((bi, t))
    if not R.anchor(len(clones) == 1, "snapshot", "exactly one snapshot state.clone() in opt_execute (found %d)" % len(clones)):
        return
    cb, ct = clones[0]
    snap = ct["dest"]["l"]
    # (a) nothing touches the state before the snapshot
    touched = []
    for bi, t in ob.calls():
        if bi == cb:
            continue
        for a in t["args"]:
            k = vars_.root_key(a)
            if k == ("L", sp):
                if reaches_without(cfg, [0], bi, cut_blocks=[cb]):
                    touched.append((bi, t))
    R.check(not touched, "opt_execute:snapshot_first", "the snapshot is taken before any other use of the state (first event on it)", ct["span"]["at"], [t["span"]["at"] for _, t in touched])
    # (b) every give-up returns the snapshot; the success return returns the live state
    nb = ns = 0
    for bi, (kind, what, s) in sorted(bails.items()):
        root = what
        if kind == "bail":
            nb += 1
            ok = root == ("clone", ("arg", sp)) or root == ("call", "core::clone::Clone::clone", (("arg", sp),))
            R.check(ok, "opt_execute:bail_returns_snapshot:%d" % nb, "give-up return hands back the snapshot taken before the command: %s" % show(root, ob)[:120], s["span"]["at"])
        else:
            ns += 1
            ok = not any(x[0] == "clone" for x in walk(root)) and any(x == ("arg", sp) or (x[0] == "cycle") for x in walk(root)) or root == ("arg", sp)
            R.check(ok, "opt_execute:success_returns_state", "the success return hands back the live state: %s" % show(root, ob)[:120], s["span"]["at"])
    R.floor("bail_returns", nb, 7, "give-up returns (budget, guarded pops, area closure; at least the three kinds)", slack=0.43)
    R.floor("success_returns", ns, 1, "success return")
    # (c) the real writers are only written when no give-up can follow, and only from the buffers
    _, local_roles, commits, loc = spec_setup(fb, ob)
    R.check(len(commits) == 2 and {c[2] for c in commits} == {"OUT", "ERR"}, "opt_execute:commits", "both buffers are committed (out buffer -> out writer, err buffer -> err writer)", None, [c[1]["span"]["at"] for c in commits])
    bail_bs = [b for b, v in bails.items() if v[0] == "bail"]
    for bi, t, prole, bkey in commits:
        late = not any(reaches_without(cfg, cfg.succ[bi], bb) for bb in bail_bs)
        R.check(late, "opt_execute:commit_%s_after_last_bail" % prole, "the %s buffer is committed only where no give-up return can follow" % prole, t["span"]["at"])
    # any other use of the real writer parameters
    for bi, t in ob.calls():
        for ai, a in enumerate(t["args"]):
            k = vars_.root_key(a)
            if k in (("L", 2), ("L", 3)) and not any(bi == c[0] for c in commits):
                R.fail("opt_execute:real_writer_use:%s" % callee_name(t["f"], fb), "the caller's writer is used outside the commit point", t["span"]["at"])
    # (d) the snapshot precedes push_code as well (the abandoned command must not stay in the code log)
    pcs = [(bi, t) for bi, t in ob.calls() if callee_name(t["f"], fb) == S + "push_code"]
    for bi, t in pcs:
        R.check(not reaches_without(cfg, [0], bi, cut_blocks=[cb]), "opt_execute:snapshot_before_push_code", "the command is appended to the code log only after the snapshot", t["span"]["at"])


def rule_slots(ctx, R):
    """level-1 renumbering: every selectable stack owns a private slot; thresholds agree"""
    fb = ctx.fb
    b = fb.bodies.get(OPTIMIZE)
    if not R.anchor(b is not None, "optimize", "optimize::optimize"):
        return
    R.analyse(b.name)
    org = Origins(b, fb)
    vars_ = Vars(b)
    roles = Roles(b, fb)
    cfg = normal_cfg(b)
    # the vector that is sorted and drives slot allocation
    sorted_vecs = [vars_.root_key(t["args"][0]) for bi, t in b.calls() if "sort" in callee_name(t["f"], fb)]
    # sort_unstable takes &mut [T] through deref_mut: resolve through the call
    chk = None
    for bi, t in b.calls():
        n = callee_name(t["f"], fb)
        if n.endswith("::sort_unstable") or n.endswith("::sort"):
            o = org.of_operand(t["args"][0], bi, "t")
            # origin is the Vec::new() call of the vector; find the local holding it
            for l, ds in vars_.defs.items():
                if b.lty(l) == "std::vec::Vec<usize>" and l in b.local_names():
                    chk = l
    if not R.anchor(chk is not None, "chk", "the Vec<usize> of selectable stacks that is sorted before slot allocation"):
        return
    # LIVE: a push of DOT into chk, reached exactly when KIND == 5
    pushes = []
    for bi, t in b.calls():
        if callee_name(t["f"], fb) == "std::vec::Vec::push" and vars_.root_key(t["args"][0]) == ("L", chk):
            pushes.append((bi, t, roles.of_operand(t["args"][1], bi)))
    dot_pushes = [p for p in pushes if p[2] == "DOT"]
    if not pushes:
        # the same collection written as an adapter chain: code.iter().filter(kind == 5).map(dot count).collect()
        def clo_ret(o):
            if not (isinstance(o, tuple) and o[0] == "agg" and o[1].startswith("closure:")):
                return None
            nm = o[1].split(":", 1)[1].rsplit("::", 1)[-1]
            for c in fb.closures_of(b):
                if c.name.rsplit("::", 1)[-1] == nm:
                    cr = Roles(c, fb, param_roles={i: "P%d" % i for i in range(1, c.argc + 1)})
                    ccfg = normal_cfg(c)
                    return sorted({cr.of_origin(cr.org.of_place({"l": 0, "proj": []}, r_, "t")) for r_ in ccfg.returns})
            return None
        chain_ok = False
        for bi, t in b.calls():
            n = callee_name(t["f"], fb)
            if n.endswith("::sort_unstable") or n.endswith("::sort"):
                o = org.of_operand(t["args"][0], bi, "t")
                try:
                    assert o[0] == "call" and o[1].endswith("Iterator::collect")
                    m_ = o[2][0]
                    assert m_[0] == "call" and m_[1].endswith("Iterator::map")
                    f_ = m_[2][0]
                    assert f_[0] == "call" and f_[1].endswith("Iterator::filter")
                    src = roles.of_origin(f_[2][0])
                    chain_ok = src in ("[T]::iter(ARG1)", "[T]::iter(CODE)") and clo_ret(f_[2][1]) in (["(KIND Eq K5)"], ["(K5 Eq KIND)"]) and clo_ret(m_[2][1]) == ["DOT"]
                    where = t["span"]["at"]
                except (AssertionError, IndexError, TypeError):
                    pass
        R.check(chain_ok, "optimize:live:push", "the dot count of every stack-selecting command is collected as selectable (adapter chain: all commands, filter kind == 5, map to the dot count, no further condition)")
        R.ok("optimize:live:mustflow", "the adapter chain has no further condition") if chain_ok else None
    else:
      R.check(len(dot_pushes) >= 1, "optimize:live:push", "the dot count of a stack-selecting command is recorded as selectable (roles pushed: %s)" % [p[2] for p in pushes], pushes[0][1]["span"]["at"] if pushes else None)
    ev = Events(b, fb, roles=roles)
    for bi, t, role in dot_pushes:
        # edges establishing KIND == 5
        guard_true = []
        guard_false = []
        for gb, blk in enumerate(b.blocks):
            tt = blk["term"]
            if tt["k"] != "switch":
                continue
            for s in cfg.succ[gb]:
                lab = ev.generic_edge(gb, tt, s)
                if lab == "EQ[K5,KIND]=1":
                    guard_true.append((gb, s))
                elif lab == "EQ[K5,KIND]=0":
                    guard_false.append((gb, s))
        ok = bool(guard_true) and all(not reaches_without(cfg, [s], bi, cut_blocks=[]) is False for _, s in guard_true)
        # must-flow: from the true edge, the push is unavoidable before the loop continues
        loop_heads = {h for (_, h) in cfg.back_edges()}
        must = bool(guard_true)
        for gb, s in guard_true:
            for h in loop_heads:
                if reaches_without(cfg, [s], h, cut_blocks=[bi]) and reaches_without(cfg, [h], gb):
                    # some path from the guard's true edge back to a loop head that contains the guard avoids the push
                    if gb in cfg.natural_loop((gb, h)) if (gb, h) in cfg.back_edges() else True:
                        inner = [e for e in cfg.back_edges() if e[1] == h and gb in cfg.natural_loop(e)]
                        if inner:
                            must = False
        R.check(must, "optimize:live:mustflow", "every kind-5 command's dot count reaches the selectable set on all paths (no further condition)", t["span"]["at"])
        # and nothing else is required: the push is not behind additional interesting conditions
    # thresholds
    k_skip = k_ident = m0 = None
    for gb, blk in enumerate(b.blocks):
        tt = blk["term"]
        if tt["k"] != "switch" or tt["xty"] != "bool":
            continue
        o = org.of_operand(tt["x"], gb, "t")
        if o[0] == "bin" and o[1] in ("Le", "Lt", "Gt", "Ge") and o[3][0] == "const":
            lhs = roles.of_origin(o[2])
            c = o[3][2] + (0 if o[1] in ("Le", "Gt") else -1)  # normalise to  x <= c
            if lhs == "ELEM" or lhs.startswith("ELEM<"):
                k_skip = (c, tt["span"]["at"])
            elif lhs == "DOT":
                k_ident = (c, tt["span"]["at"])
    # max: usize local with defs {const, self+1}
    for l, ds in vars_.defs.items():
        if b.lty(l) != "usize" or l not in b.local_names():
            continue
        consts, incs, other = [], 0, 0
        for d in ds:
            if d[0] == "assign":
                o = org.of_rvalue(d[3]["r"], d[1], d[2])
                if o[0] == "const":
                    consts.append(o[2])
                elif o[0] == "bin" and o[1] == "Add" and o[3] == ("const", "usize", 1):
                    incs += 1
                else:
                    other += 1
            else:
                other += 1
        if len(consts) == 1 and incs == 1 and other == 0 and consts[0] >= 2:
            m0 = (consts[0], b.lname(l))
    # "no slot yet" is the value 0 of a map entry: entries are created with 0 and tested against 0
    ins = [roles.of_operand(t["args"][1], bi) for bi, t in b.calls() if callee_name(t["f"], fb).endswith("Entry::or_insert")]
    evs = Events(b, fb, roles=roles)
    tests = set()
    for gb, blk in enumerate(b.blocks):
        tt = blk["term"]
        if tt["k"] == "switch" and not blk["cleanup"]:
            for s_ in cfg.succ[gb]:
                lab = evs.generic_edge(gb, tt, s_) or ""
                if "Entry::or_insert" in lab and lab.startswith("EQ["):
                    body_ = lab[3:lab.rindex("]")]
                    tests.add("K0" if body_.startswith("K0,") or body_.endswith(",K0") else body_[-12:])
    R.check(bool(ins) and all(v == "K0" for v in ins) and tests == {"K0"}, "optimize:slots:sentinel", "a stack without a slot is marked by the entry value 0 (entries are created with 0 and compared with 0): created with %s, compared with %s" % (ins, sorted(tests)), b.span)
    # the rewrite leaves a command alone when it is a push (kind 0: its dots are a factor, not a stack) or addresses
    # stack 0..3; it remaps exactly when neither holds
    from .util import dominating_edge_labels
    ors = sorted(bi for bi, t in b.calls() if callee_name(t["f"], fb).endswith("Entry::or_insert"))
    if R.anchor(len(ors) == 2, "remap_entries", "the two map lookups (allocation pass, rewrite pass)"):
        labs = sorted(l for l in dominating_edge_labels(cfg, b, evs, ors[1]) if l.startswith("EQ[K0,KIND]") or l.startswith("LT[DOT,"))
        R.check(labs == ["EQ[K0,KIND]=0", "LT[DOT,K4]=0"], "optimize:slots:remap_iff", "a command's stack number is remapped exactly when the command is not a push and addresses a stack above 3: %s" % labs, b.blocks[ors[1]]["term"]["span"]["at"])
    # a private slot is the value of the counter *before* it is advanced (the advanced value is the shared slot)
    stores = []
    for bi, blk in enumerate(b.blocks):
        if blk["cleanup"]:
            continue
        for si, st in enumerate(blk["stmts"]):
            if st["k"] == "assign" and st["p"]["proj"] == ["deref"] and b.lty(st["p"]["l"]) == "&mut usize":
                stores.append((roles.of_origin(org.of_rvalue(st["r"], bi, si)), st["span"]["at"]))
    from .util import check_whole_loops
    spec_calls = {bi for bi, t in b.calls() if (t["f"].get("resolved") or t["f"].get("def", "")).endswith("::opt_execute")}
    from .util import loops_by_head
    spec_loop_blocks = set().union(*[lp for h, lp in loops_by_head(cfg).items() if spec_calls & lp]) if spec_calls else set()
    check_whole_loops(R, "optimize:slots:whole_program", b, cfg, "collection, slot allocation and rewriting go over all commands / all selectable stacks (a skipped element does not end the loop); only the speculation loop stops early", allowed=[lambda e: e[0] in spec_loop_blocks])
    # ... and only when the entry still holds the sentinel
    st_labs = []
    for bi, blk in enumerate(b.blocks):
        if blk["cleanup"]:
            continue
        if any(st["k"] == "assign" and st["p"]["proj"] == ["deref"] and b.lty(st["p"]["l"]) == "&mut usize" for st in blk["stmts"]):
            ls = [l for l in dominating_edge_labels(cfg, b, evs, bi) if "Entry::or_insert" in l]
            st_labs.append(sorted(("unset" if (l.startswith("EQ[") and l.endswith("=1")) or (l.startswith("NE[") and l.endswith("=0")) else "set") for l in ls))
    R.check(bool(st_labs) and all(x == ["unset"] for x in st_labs), "optimize:slots:assign_iff", "a slot is stored into a map entry only when the entry still holds the sentinel (a stack that has a slot keeps it): %s" % st_labs, b.span)
    # the rewritten command carries the slot: kind, syllable count, area count and area are copied, the stack number is the map entry
    ocs = []
    for bi, t in b.calls():
        if callee_name(t["f"], fb).endswith("OptCode::new"):
            a = [roles.of_operand(x, bi) for x in t["args"]]
            remap = {"EQ[K0,KIND]=0", "LT[DOT,K4]=0"} <= set(dominating_edge_labels(cfg, b, evs, bi))
            ocs.append((a, remap, t["span"]["at"]))
    is_entry = lambda r: r.startswith("Entry::or_insert(HashMap::entry(") and r.endswith(",DOT),K0)")
    ok_ = bool(ocs) and all(a[0] == "KIND" and a[1] == "HANGUL" and a[3] == "AREACOUNT" and a[4] in ("COPY(AREA)", "AREA") for a, _, _ in ocs)
    ok_ = ok_ and any(is_entry(a[2]) or (a[2].startswith("PHI(") and "Entry::or_insert(HashMap::entry(" in a[2]) for a, _, _ in ocs)
    ok_ = ok_ and all((is_entry(a[2]) if rm else (a[2] == "DOT" or (a[2].startswith("PHI(") and "DOT" in a[2]))) for a, rm, _ in ocs)
    R.check(ok_, "optimize:slots:rewritten", "the optimised command copies kind, syllable count, area count and area, and addresses the slot found in the map where the remap condition holds (the original number elsewhere): %s" % [(a[2][:40], rm) for a, rm, _ in ocs], ocs[0][2] if ocs else None)
    if R.anchor(len(stores) >= 2, "slot_stores", "stores into the slot map entries (found %d)" % len(stores)):
        adv = [x for x in stores if x[0].startswith("(") and x[0].endswith(" Add K1)")]
        R.check(not adv and all("LOOPVAR" in v or v.startswith("PHI(") for v, _ in stores), "optimize:slots:store_then_advance", "a slot map entry receives the current value of the slot counter; the counter is advanced afterwards (the advanced value is the shared slot): %s" % [v for v, _ in stores], (adv or stores)[0][1])
    # the state has one stack more than the highest private slot: the shared slot of the never-selected stacks exists
    news_ = [(bi, t) for bi, t in b.calls() if callee_name(t["f"], fb).endswith("OptState::new")]
    if R.anchor(len(news_) == 1 and m0 is not None, "optstate_new", "construction of the optimised state in optimize()"):
        sz = roles.of_operand(news_[0][1]["args"][0], news_[0][0])
        R.check(sz.startswith("PHI((PHI((PHI(K%d|LOOPVAR) Add K1)|K%d) Add K1)|" % (m0[0], m0[0])) or sz.startswith("(PHI((PHI(K%d|LOOPVAR) Add K1)|K%d) Add K1)" % (m0[0], m0[0])), "optimize:slots:size", "the optimised state gets (next free slot + 1) stacks, so the slot shared by never-selected stacks exists: %s" % sz, news_[0][1]["span"]["at"])
    if R.anchor(k_skip is not None and k_ident is not None and m0 is not None, "thresholds", "skip threshold of slot allocation, identity threshold of the rewrite, first private slot (found %s %s %s)" % (k_skip, k_ident, m0)):
        R.check(k_skip[0] == k_ident[0], "optimize:slots:skip_eq_ident", "slot allocation skips exactly the stacks the rewrite leaves unchanged (skip <= %d, identity <= %d)" % (k_skip[0], k_ident[0]), k_skip[1])
        R.check(m0[0] == k_ident[0] + 1, "optimize:slots:first_slot", "the first private slot is the first index above the identity range (%d vs %d)" % (m0[0], k_ident[0] + 1), k_ident[1])
        R.check(k_ident[0] >= 3, "optimize:slots:io_identity", "stacks 0..3 (I/O stacks and the initial stack) keep their index (identity <= %d)" % k_ident[0], k_ident[1])


def rule_capture(ctx, R):
    fb = ctx.fb
    b = fb.bodies.get(OPTIMIZE)
    if not R.anchor(b is not None, "optimize", "optimize::optimize"):
        return
    R.analyse(b.name)
    vars_ = Vars(b)
    org = Origins(b, fb)
    roles = Roles(b, fb)
    spec = [(bi, t) for bi, t in b.calls() if (t["f"].get("resolved") or t["f"].get("def", "")).endswith("::opt_execute")]
    if not R.anchor(len(spec) == 1, "spec_call", "call of opt_execute in optimize()"):
        return
    sb, stt = spec[0]
    w_out, w_err = vars_.root_key(stt["args"][1]), vars_.root_key(stt["args"][2])
    R.check(w_out is not None and w_err is not None and w_out != w_err, "optimize:capture:distinct", "out and err of the speculative run are two distinct local writers")
    # extend(get_stack(k), ...to_string(writer)...)
    seen = {}
    for bi, t in b.calls():
        if callee_name(t["f"], fb) == "core::iter::traits::collect::Extend::extend":
            dst = org.of_operand(t["args"][0], bi, "t")
            src = org.of_operand(t["args"][1], bi, "t")
            k = None
            if dst[0] == "call" and dst[1] == S + "get_stack" and dst[2][1][0] == "const":
                k = dst[2][1][2]
            # which writer does the text come from: find the to_string call feeding it
            wkey = None
            for b2, t2 in b.calls():
                if callee_name(t2["f"], fb).endswith("CustomWriter::to_string"):
                    o2 = ("call", callee_name(t2["f"], fb), tuple(org.of_operand(a, b2, "t") for a in t2["args"]))
                    if any(x == o2 for x in walk(src)):
                        # distinguish the two writers by the variable, not by origin
                        if reaches_without(normal_cfg(b), [b2], bi):
                            cand = vars_.root_key(t2["args"][0])
                            # the to_string call nearest before this extend
                            wkey = cand if wkey is None or True else wkey
                            last = (b2, cand)
            seen[k] = (wkey, t["span"]["at"], src)
    # nearest-writer resolution: do it properly per extend by dominance order
    cfg = normal_cfg(b)
    ts = [(b2, t2, vars_.root_key(t2["args"][0])) for b2, t2 in b.calls() if callee_name(t2["f"], fb).endswith("CustomWriter::to_string")]
    exts = [(bi, t) for bi, t in b.calls() if callee_name(t["f"], fb) == "core::iter::traits::collect::Extend::extend"]
    R.floor("extends", len(exts), 2, "captured text appended to stacks 1 and 2")
    for bi, t in exts:
        dst = org.of_operand(t["args"][0], bi, "t")
        k = dst[2][1][2] if dst[0] == "call" and dst[1] == S + "get_stack" and dst[2][1][0] == "const" else None
        # the to_string call that lies between the get_stack call and this extend (same statement)
        feeding = [x for x in ts if reaches_without(cfg, [x[0]], bi) and not any(reaches_without(cfg, [x[0]], e2) and reaches_without(cfg, [e2], bi) and e2 != bi for e2, _ in exts)]
        w = feeding[0][2] if len(feeding) == 1 else None
        want = {1: w_out, 2: w_err}.get(k)
        R.check(k in (1, 2) and w is not None and w == want, "optimize:capture:stack%s" % k, "captured %s text of the speculative run is appended to stack %s" % ("stdout" if k == 1 else "stderr", k), t["span"]["at"])
        src = roles.of_origin(org.of_operand(t["args"][1], bi, "t"))
        R.check("CHARS(" in src and "CAST" not in src, "optimize:capture:chars%s" % k, "captured text is converted character by character with widening conversions only", t["span"]["at"], src[:200])
    # the state handed on is the pre-executed state plus the captured text, nothing else: inside optimize() the state
    # is touched only by the speculative run itself and by the two appends to stacks 1 and 2
    MUT = ("get_stack", "push_stack", "pop_stack", "set_current_stack", "set_point", "set_latest_loc", "push_code", "clear")
    touched = []
    st_ty = "core::state::OptState"
    for bi, t in b.calls():
        n = callee_name(t["f"], fb)
        if n.rsplit("::", 1)[-1] in MUT and t["args"] and "OptState::new(" in roles.of_operand(t["args"][0], bi) and (n.startswith(S) or "OptState" in n):
            touched.append((n.rsplit("::", 1)[-1], [roles.of_operand(a, bi) for a in t["args"][1:]], t["span"]["at"]))
    R.check(sorted((m, a) for m, a, _ in touched) == [("get_stack", ["K1"]), ("get_stack", ["K2"])], "optimize:capture:state_untouched", "optimize() itself changes the pre-executed state only by appending the captured text to stacks 1 and 2 (no stack is cleared, dropped or rewritten on the way out): %s" % [(m, a) for m, a, _ in touched], touched[0][2] if touched else b.span)
    # RESIDUAL: the slice start is the enumerate index of the command that was given up
    for bi, t in b.calls():
        n = callee_name(t["f"], fb)
        if n == "core::ops::index::Index::index" and "RangeFrom" in t["argtys"][1]:
            o = org.of_operand(t["args"][1], bi, "t")
            start = o[2][0] if o[0] == "agg" else o
            alts = start[1] if start[0] == "phi" else (start,)
            kinds = []
            ok = True
            for a in alts:
                r = roles.of_origin(a)
                kinds.append(r)
                if not (r.startswith("Vec::len(") or r == "ELEM.0" or r.startswith("SOME(NEXT(") or ".0" in r and "Add" not in r and "Sub" not in r):
                    ok = False
                if "Add" in r or "Sub" in r:
                    ok = False
            R.check(ok and len(alts) == 2, "optimize:residual", "the residual program starts exactly at the command whose speculative run was given up (start = %s)" % kinds, t["span"]["at"])
    # the give-up test: idx = i is assigned exactly when the second component of opt_execute's result is false
    # state returned by opt_execute is written back on every iteration
    from .util import dominating_edge_labels
    evs = Events(b, fb, roles=roles)
    loops_ = [cfg.natural_loop(be) for be in cfg.back_edges() if sb in cfg.natural_loop(be)]
    if R.anchor(len(loops_) >= 1, "spec_loop", "the loop around the speculative run in optimize()"):
        loop = set().union(*loops_)
        heads = {be[1] for be in cfg.back_edges() if sb in cfg.natural_loop(be)}
        F, T = [], []
        for gb in loop:
            tt = b.blocks[gb]["term"]
            if tt["k"] == "switch":
                for sx in cfg.succ[gb]:
                    lab = evs.generic_edge(gb, tt, sx) or ""
                    if lab.startswith("BR[TRY(optimize::opt_execute(") and lab.rsplit("]", 1)[0].endswith(").1"):
                        (F if lab.endswith("=0") else T).append((gb, sx, lab))
        if R.anchor(len(F) == 1 and len(T) == 1, "spec_flag", "the test of opt_execute's second result (did the command complete) inside the loop"):
            outside = [x for x in range(len(b.blocks)) if x not in loop]
            stops = F[0][1] not in loop or not reaches_without(cfg, [F[0][1]], heads, cut_blocks=outside)
            goes_on = T[0][1] in loop and reaches_without(cfg, [T[0][1]], heads, cut_blocks=outside)
            R.check(stops and goes_on, "optimize:spec_loop:stops", "the speculation loop ends at the first command that was given up and goes on after a command that completed (leaves on not-completed: %s, continues on completed: %s)" % (stops, goes_on), b.blocks[F[0][0]]["term"]["span"]["at"])
            # the start of the residual program is recorded exactly on the give-up edge
            recs = []
            for bi in loop:
                for si, st in enumerate(b.blocks[bi]["stmts"]):
                    if st["k"] == "assign" and not st["p"]["proj"] and st["p"]["l"] in b.local_names() and b.lty(st["p"]["l"]) == "usize" and any(d[1] not in loop for d in vars_.defs.get(st["p"]["l"], [])):
                        r_ = roles.of_origin(org.of_rvalue(st["r"], bi, si))
                        if r_.endswith(".0") and "ENUMERATE" in r_ or r_ == "ELEM.0":
                            recs.append((F[0][2] in dominating_edge_labels(cfg, b, evs, bi), r_[:40]))
            # (a loop that needs no record, e.g. an index loop whose counter is the start, has nothing to check here)
            R.check(all(x for x, _ in recs), "optimize:spec_loop:record", "the position of the abandoned command is recorded only when a command was given up: %s" % recs, b.blocks[F[0][0]]["term"]["span"]["at"])
    # the residual program replaces the command list on every level >= 2 path
    ge2 = []
    for gb, blk in enumerate(b.blocks):
        tt = blk["term"]
        if tt["k"] == "switch" and not blk["cleanup"]:
            for sx in cfg.succ[gb]:
                if (evs.generic_edge(gb, tt, sx) or "") in ("LT[ARG2,K2]=0", "LE[K2,ARG2]=1"):
                    ge2.append(sx)
    cuts = []
    for bi, t in b.calls():
        n = callee_name(t["f"], fb)
        if (n.endswith("::to_vec") and "RangeFrom" in roles.of_operand(t["args"][0], bi)) or (n.endswith("Vec::drain") and "RangeTo" in roles.of_operand(t["args"][1], bi)):
            cuts.append(bi)
    rets = [roles.of_origin(org.of_rvalue(st["r"], bi, si)) for bi, blk in enumerate(b.blocks) if not blk["cleanup"] for si, st in enumerate(blk["stmts"]) if st["k"] == "assign" and st["p"]["l"] == 0 and not st["p"]["proj"]]
    used = any("[T]::to_vec(Index::index(VEC,RangeFrom" in r or "Vec::drain(" in r for r in rets) or any(callee_name(b.blocks[c]["term"]["f"], fb).endswith("Vec::drain") for c in cuts)
    R.check(bool(ge2) and bool(cuts) and used and not reaches_without(cfg, ge2, cfg.returns, cut_blocks=cuts), "optimize:residual:applied", "for level >= 2 the command list that is returned is cut down to the residual program on every path (cut at %d site(s))" % len(cuts), b.span)


def rule_reemit(ctx, R):
    fb = ctx.fb
    b = fb.bodies.get("hyeong::app::run::run")
    if not R.anchor(b is not None, "run", "app::run::run"):
        return
    R.analyse(b.name)
    roles = Roles(b, fb, param_roles={1: "STDOUT", 2: "STDERR", 3: "OPT"})
    org = Origins(b, fb)
    cfg = normal_cfg(b)
    vars_ = Vars(b)
    opt_calls = [bi for bi, t in b.calls() if callee_name(t["f"], fb) == OPTIMIZE]
    if not R.anchor(len(opt_calls) == 1, "optimize_call", "call of optimize() in run()"):
        return
    ob = opt_calls[0]
    execs = [(bi, t) for bi, t in b.calls() if callee_name(t["f"], fb) == "hyeong::core::execute::execute" and reaches_without(cfg, [ob], bi)]
    writes = []
    for bi, t in b.calls():
        if callee_name(t["f"], fb) == "std::io::Write::write_fmt" and reaches_without(cfg, [ob], bi):
            w = roles.of_operand(t["args"][0], bi)
            src = roles.of_operand(t["args"][1], bi)
            writes.append((bi, t, w, src))
    n_ok = 0
    for bi, t, w, src in writes:
        k = "1" if "State::get_stack(TRY(optimize::optimize" in src and ",K1)" in src else ("2" if ",K2)" in src else "?")
        want = {"1": "STDOUT", "2": "STDERR"}.get(k)
        R.check(want == w, "run:reemit:stack%s" % k, "pre-computed contents of stack %s are written to the %s stream" % (k, want), t["span"]["at"], src[:160])
        # before the first execute of the residual program
        R.check(all(not reaches_without(cfg, [eb], bi) for eb, _ in execs), "run:reemit:before_exec:%s" % k, "re-emission of stack %s happens before the residual program runs" % k, t["span"]["at"])
        # the block is entered exactly when that same stack is non-empty (or unconditionally)
        from .util import dominating_edge_labels
        evg = Events(b, fb, roles=roles)
        labs = [l for l in dominating_edge_labels(cfg, b, evg, bi) if "Vec::is_empty(State::get_stack(" in l]
        other = {"1": ",K2)", "2": ",K1)"}.get(k, "??")
        same = ",K%s)" % k
        R.check(all(same in l for l in labs) and all(l.endswith("=0") for l in labs), "run:reemit:guard:%s" % k, "the re-emission of stack %s is entered when that stack (not the other one) is non-empty: %s" % (k, [l[-40:] for l in labs]), t["span"]["at"])
        n_ok += 1
    R.floor("reemit_writes", n_ok, 2, "re-emission writes for stacks 1 and 2")
    # cleared afterwards
    clears = [(bi, t, roles.of_operand(t["args"][0], bi)) for bi, t in b.calls() if callee_name(t["f"], fb) == "std::vec::Vec::clear"]
    ks = sorted(("1" if ",K1)" in c[2] else "2" if ",K2)" in c[2] else "?") for c in clears)
    R.check(ks == ["1", "2"], "run:reemit:clear", "both pre-computed output stacks are cleared after re-emission (%s)" % ks)
    for eb, t in execs:
        rs = [roles.of_operand(a, eb) for a in t["args"]]
        R.check(rs[1:3] == ["STDOUT", "STDERR"], "run:exec_streams", "the residual program runs on the real stdout / stderr", t["span"]["at"], rs[:3])


RULES = [
    ("C02.SIB", "opt_execute's arms, closure and jump segment agree with execute_one / the definition", rule_sib),
    ("C02.ROLLBACK", "snapshot first; every give-up returns the snapshot; real writers written only after the last give-up point", rule_rollback),
    ("C02.SLOTS", "level-1 renumbering: every selectable stack owns a slot; thresholds agree", rule_slots),
    ("C02.CAPTURE", "captured output goes to stacks 1/2; residual slice starts at the abandoned command", rule_capture),
    ("C02.REEMIT", "run(): pre-computed output re-emitted to the right stream before the residual program", rule_reemit),
    ("C02.OPTSTATE", "vector-backed state obeys the same NaN rules as the default state", p_c01.rule_nan),
]


def rule_guard(ctx, R):
    from . import p_c10
    return p_c10.rule_guard(ctx, R)


RULES.append(("C02.GUARD", "pre-execution never pops from the I/O stacks: every pop below optimize() is dominated by index > 2 (shared with C10; a pop from stack 1/2 during optimisation ends the process)", rule_guard))


def rule_levels(ctx, R):
    from . import p_c03
    return p_c03.rule_levels(ctx, R)


RULES.append(("C02.LEVELS", "the level chosen on the command line selects the optimised / unoptimised path and reaches optimize() unchanged (shared with C03.LEVELS)", rule_levels))


RULES.append(("C02.INIT", "both state representations start identically: empty, stack 3 selected, no jump source (shared with C01.INIT)", p_c01.rule_init))


RULES.append(("C02.REFARM", "the reference the levels are compared with: six arms of execute_one equal the language table (shared with C01.ARM)", p_c01.rule_arms))
RULES.append(("C02.REFJUMP", "the reference the levels are compared with: area, label and ♡ rules of execute_one (shared with C01.JUMP)", p_c01.rule_area_jump))

RULES.append(("C02.STATEAPI", "the accessors of the state (selected stack, jump source, label table, command log) read and write exactly their field (shared with C01.STATEAPI)", p_c01.rule_stateapi))


def rule_window(ctx, R):
    """the speculative executor works on exactly one command: the loop runs while the location is inside
    [0, index of the appended command]; one past it would read a command that does not exist"""
    fb = ctx.fb
    b = fb.bodies.get(OPT_EXEC)
    if not R.anchor(b is not None, "opt_execute", OPT_EXEC):
        return
    R.analyse(b.name)
    cfg = normal_cfg(b)
    roles = Roles(b, fb)
    ev = Events(b, fb, roles=roles)
    pcs = [bi for bi, t in b.calls() if callee_name(t["f"], fb).endswith("State::push_code")]
    if not R.anchor(len(pcs) == 1, "push_code", "the one call that appends the command to the state's log"):
        return
    loops_ = [(be, cfg.natural_loop(be)) for be in cfg.back_edges()]
    main = max(loops_, key=lambda x: len(x[1]))[1] if loops_ else set()
    heads = {be[1] for be, lp in loops_ if lp == main or be[1] == max(loops_, key=lambda x: len(x[1]))[0][1]}
    conds = []
    for h in heads:
        tt = b.blocks[h]["term"]
        if tt["k"] == "switch":
            for sx in cfg.succ[h]:
                lab = ev.generic_edge(h, tt, sx) or ""
                conds.append((lab, sx in main))
    stay = [l for l, inside in conds if inside]
    leave = [l for l, inside in conds if not inside]
    ok = len(stay) == 1 and len(leave) == 1 and (
        (stay[0].startswith("LT[") and stay[0].endswith(",(PUSHCODE Add K1)]=1") and leave[0].endswith(",(PUSHCODE Add K1)]=0"))
        or (stay[0].startswith("LE[") and stay[0].endswith(",PUSHCODE]=1") and leave[0].endswith(",PUSHCODE]=0")))
    R.check(ok, "opt_execute:window", "the speculative executor runs while the location is at most the index of the appended command (stays on %s, leaves on %s)" % ([x[-40:] for x in stay], [x[-40:] for x in leave]), b.blocks[sorted(heads)[0]]["term"]["span"]["at"] if heads else None)


RULES.append(("C02.WINDOW", "opt_execute executes inside the window [0, appended command]: never reads a command past the log (shared with C10.WINDOW)", rule_window))


def _codeapi(ctx, R):
    from . import p_c01
    return p_c01.rule_codeapi(ctx, R)


RULES.append(("C02.CODEAPI", "the words kind / syllable count / dot count / area count / area mean the fields of the command record: getters and constructors of UnOptCode and OptCode (shared with C01.CODEAPI)", _codeapi))


def _streams(ctx, R):
    from . import p_c01
    return p_c01.rule_streams(ctx, R)


RULES.append(("C02.STREAMS", "what `run` writes to its first writer reaches the process's standard output, its second the standard error (shared with C01.STREAMS)", _streams))





def _clones(ctx, R):
    from . import p_c01
    return p_c01.rule_clones(ctx, R)


RULES.append(("C02.CLONE", "snapshots and copies are complete: Clone of states, commands, areas and numbers copies every field (shared with C01.CLONE)", _clones))


# rules of other properties re-run under this property's name; resolved by rules/main.py once every module can be
# imported (the owners import this module themselves)
DEFERRED_BUNDLES = [
    {'prop': 'C02', 'tag': 'WRITER', 'module': 'p_c11', 'only': ('ONCE',), 'skip': (), 'why': 'the in-memory writer pre-execution captures output with'},
]
