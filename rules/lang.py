"""Shared vocabulary of the Hyeo-ung implementation: roles (A-ORG) and events (A-GEA) for the
interpreter, the speculative executor and the emitted templates; the declarative language table."""
import re
from .facts import callee_name
from .origin import Origins, show
from .util import Vars

S = "hyeong::core::state::State::"
C = "hyeong::core::code::Code::"
NUM = "number::num::Num::"
POP_WRAP = "hyeong::core::execute::pop_stack_wrap"
PUSH_WRAP = "hyeong::core::execute::push_stack_wrap"

INT_WIDTH = {"u8": 8, "u16": 16, "u32": 32, "u64": 64, "u128": 128, "usize": 64, "i8": 8, "i16": 16, "i32": 32, "i64": 64, "i128": 128, "isize": 64, "char": 21, "bool": 1}


def cast_is_value_preserving(frm, to):
    """integer casts that cannot change the mathematical value for the values the property ranges
    over (counts < 2^31, chars): widening, or same width unsigned->signed of a count"""
    if frm not in INT_WIDTH or to not in INT_WIDTH:
        return False
    fw, tw = INT_WIDTH[frm], INT_WIDTH[to]
    fs, ts = frm.startswith("i"), to.startswith("i")
    if fs == ts:
        return tw >= fw
    if not fs and ts:
        return tw > fw or (fw == tw and frm == "usize" and to == "isize")  # counts < 2^31 (property's quantifier)
    return False


class Roles:
    """role of an operand inside one body (interpreter-like code)"""

    def __init__(self, body, fb, param_roles=None, upvar_roles=None, local_roles=None, overrides=None, org=None):
        self.body = body
        self.fb = fb
        self.org = org if org is not None else Origins(body, fb, overrides={l: ("role", r) for l, r in (overrides or {}).items()})
        self.vars = Vars(body)
        self.param_roles = param_roles if param_roles is not None else default_param_roles(body)
        self.upvar_roles = upvar_roles or {}
        self.local_roles = local_roles or {}  # ('L', n) -> role, for stream buffers etc.

    def of_operand(self, op, bi, idx="t"):
        key = self.vars.key_of_operand(op) if op["k"] != "const" else None
        if key in self.local_roles:
            return self.local_roles[key]
        if self.local_roles and op["k"] != "const":
            rk = self.vars.root_key(op)
            if rk in self.local_roles:
                return self.local_roles[rk]
        return self.of_origin(self.org.of_operand(op, bi, idx))

    def of_origin(self, o):
        k = o[0]
        if k == "role":
            return o[1]
        if k == "promoted":
            pb = getattr(self.fb, "promoted", {}).get((o[1], o[2])) if self.fb is not None else None
            if pb is not None:
                try:
                    po = Origins(pb, self.fb)
                    last = max(i for i, blk in enumerate(pb.blocks) if blk["term"]["k"] == "return")
                    return Roles(pb, self.fb, param_roles={}).of_origin(po.of_local(0, last, "t"))
                except Exception:
                    pass
            return "PROMOTED"
        if k == "const":
            v = o[2]
            if isinstance(v, int):
                return "K%d" % v
            return "K%r" % (v,)
        if k == "named":
            return "CONST:" + o[1].rsplit("::", 1)[-1]
        if k == "arg":
            return self.param_roles.get(o[1], "ARG%d" % o[1])
        if k == "upvar":
            return self.upvar_roles.get(o[1], "UPVAR:" + o[1])
        if k == "cast":
            inner = self.of_origin(o[3])
            if cast_is_value_preserving(o[1], o[2]):
                return inner
            return "CAST[%s->%s](%s)" % (o[1], o[2], inner)
        if k == "call":
            n = o[1]
            a = o[2]
            if n == S + "current_stack":
                return "CUR"
            if n == C + "get_dot_count":
                return "DOT"
            if n == C + "get_hangul_count":
                return "HANGUL"
            if n == C + "get_area_count":
                return "AREACOUNT"
            if n == C + "get_area":
                return "AREA"
            if n == C + "get_type":
                return "KIND"
            if n == S + "get_code":
                return "CODE(%s)" % self.of_origin(a[1]) if len(a) > 1 else "CODE"
            if n == NUM + "from_num":
                return "NUM(%s)" % self.of_origin(a[0])
            if n in (NUM + "zero", NUM + "one", NUM + "nan"):
                return n.rsplit("::", 1)[-1].upper()
            if n == "core::ops::arith::Mul::mul":
                return "MUL(%s,%s)" % tuple(sorted([self.of_origin(a[0]), self.of_origin(a[1])]))
            if n == "core::ops::arith::Add::add":
                return "ADD(%s,%s)" % tuple(sorted([self.of_origin(a[0]), self.of_origin(a[1])]))
            if n == "core::ops::arith::Neg::neg":
                return "NEG(%s)" % self.of_origin(a[0])
            if n == "core::iter::traits::iterator::Iterator::rev":
                return "REV(%s)" % self.of_origin(a[0])
            if n in ("core::str::<impl str>::chars", "str::chars", "core::str::chars"):
                return "CHARS(%s)" % self.of_origin(a[0])
            if n == "core::iter::traits::iterator::Iterator::enumerate":
                return "ENUMERATE(%s)" % self.of_origin(a[0])
            if n == "core::iter::traits::iterator::Iterator::next":
                return "NEXT(%s)" % self.of_origin(a[0])
            if n == "alloc::vec::Vec::with_capacity" or n == "std::vec::Vec::with_capacity":
                return "VEC"
            if n in ("std::vec::Vec::new",):
                return "VEC"
            if n == POP_WRAP:
                return "POPRES"
            if n == S + "pop_stack":
                return "POPPED"
            if n == S + "get_point":
                return "POINT(%s)" % self.of_origin(a[1])
            if n == S + "get_latest_loc":
                return "LATEST"
            if n == "hyeong::core::area::calc":
                return "CALCRES"
            if n == S + "push_code":
                return "PUSHCODE"
            return "%s(%s)" % (short(n), ",".join(self.of_origin(x) for x in a))
        if k == "ok":
            inner = self.of_origin(o[1])
            if inner == "CALCRES":
                return "AREATYPE"
            if inner == "POPRES":
                return "POPPED"
            return "OK(%s)" % inner
        if k == "try":
            inner = self.of_origin(o[1])
            if inner == "POPRES":
                return "POPPED"
            if inner == "CALCRES":
                return "AREATYPE"
            return "TRY(%s)" % inner
        if k == "clone":
            inner = self.of_origin(o[1])
            if inner.startswith("CODE"):
                return inner
            return "COPY(%s)" % inner
        if k == "some":
            inner = self.of_origin(o[1])
            if inner in ("NEXT(VEC)", "NEXT(REV(VEC))") or inner.startswith("NEXT(Range") or inner.startswith("NEXT(REV(CHARS("):
                return "ELEM"
            if inner.startswith("NEXT("):
                return "ELEM<%s>" % inner[5:-1]
            if inner.startswith("POINT("):
                return "LABEL"
            if inner == "LATEST":
                return "LATESTLOC"
            return "SOME(%s)" % inner
        if k == "unwrap":
            return "UNWRAP(%s)" % self.of_origin(o[1])
        if k == "bin":
            a, b = self.of_origin(o[2]), self.of_origin(o[3])
            if o[1] == "BitXor":
                if b in ("K0", "K1"):
                    a, b = b, a
                if a == "K0":
                    return b
                if a == "K1":
                    return "K0" if b == "K1" else ("NOT(%s)" % b if not b.startswith("NOT(") else b[4:-1])
            if o[1] in ("Add", "Mul", "BitAnd", "BitOr"):
                # commutative: constants last, otherwise a fixed order
                ka, kb = a.startswith("K") and a[1:].lstrip("-").isdigit(), b.startswith("K") and b[1:].lstrip("-").isdigit()
                if (ka and not kb) or (ka == kb and b < a):
                    a, b = b, a
            return "(%s %s %s)" % (a, o[1], b)
        if k == "un":
            return "%s(%s)" % (o[1], self.of_origin(o[2]))
        if k == "phi":
            return "PHI(%s)" % "|".join(sorted(self.of_origin(x) for x in o[1]))
        if k == "field":
            return "%s.%s" % (self.of_origin(o[2]), o[1])
        if k == "variant":
            return "%s@%s" % (self.of_origin(o[2]), o[1])
        if k == "agg":
            kind = o[1]
            if kind.startswith("closure:"):
                return "CLOSURE"
            return "%s{%s}" % (short(kind), ",".join(self.of_origin(x) for x in o[2]))
        if k == "discr":
            return "DISCR(%s)" % self.of_origin(o[1])
        if k == "cycle":
            return "LOOPVAR"
        if k == "fnitem":
            return "FN:" + short(o[1])
        if k == "index":
            return "%s[%s]" % (self.of_origin(o[1]), self.of_origin(o[2]))
        return k.upper()


def short(n):
    parts = n.split("::")
    if len(parts) >= 2:
        return parts[-2].split("<")[0].strip("<>& ") + "::" + parts[-1]
    return n


def default_param_roles(body):
    """roles of parameters by type and position (never by name)"""
    roles = {}
    nw = 0
    # trait bounds of the type parameters (`impl Trait` arguments are anonymous type parameters; a named
    # `R: ReadLine` is the same thing)
    bounds = {}
    for pr in body.raw.get("preds", []) or []:
        if ": " in pr:
            lhs, rhs = pr.split(": ", 1)
            bounds.setdefault(lhs.strip(), set()).add(rhs.strip().rsplit("::", 1)[-1].split("<")[0])
    for i in range(1, body.argc + 1):
        ty = body.lty(i)
        base = ty
        for pre in ("&mut ", "&"):
            if base.startswith(pre):
                base = base[len(pre):]
        bs = bounds.get(base, set())
        if "impl ReadLine" in ty or "ReadLine" in bs:
            roles[i] = "IN"
        elif "impl Write" in ty or "Write" in bs:
            roles[i] = "OUT" if nw == 0 else "ERR"
            nw += 1
        elif ty in ("T", "&mut T", "&T") or ("State" in bs and base != "Self"):
            roles[i] = "STATE"
        elif ty == "usize":
            roles[i] = "LOC" if "LOC" not in roles.values() else "USIZE%d" % i
        elif ty == "number::num::Num":
            roles[i] = "VALUE"
        else:
            roles[i] = "ARG%d" % i
    return roles


# calls that are not events: pure getters, value construction and compiler plumbing; their results
# appear as roles in the arguments of the events that consume them
EPSILON_CALLS = {
    S + "current_stack", S + "get_code", S + "get_all_code", S + "stack_size",
    C + "get_type", C + "get_hangul_count", C + "get_dot_count", C + "get_area", C + "get_area_count",
    NUM + "from_num", NUM + "zero", NUM + "one", NUM + "nan", NUM + "is_pos", NUM + "is_nan",
    "core::clone::Clone::clone", "core::ops::try_trait::Try::branch", "core::ops::try_trait::FromResidual::from_residual",
    "core::iter::traits::iterator::Iterator::next", "core::iter::traits::iterator::Iterator::enumerate",
    "core::ops::deref::Deref::deref", "core::ops::deref::DerefMut::deref_mut", "std::vec::Vec::with_capacity", "std::vec::Vec::new",
    "core::ops::arith::Mul::mul", "core::ops::arith::Neg::neg", "core::convert::From::from", "core::convert::Into::into",
    "core::fmt::rt::Argument::new_display", "core::fmt::rt::Argument::new_debug", "std::fmt::Arguments::new", "core::hint::must_use",
    "std::vec::Vec::is_empty", "std::vec::Vec::len", "core::cmp::PartialOrd::partial_cmp",
    "std::string::String::new", "core::str::chars", "core::str::<impl str>::chars", "core::iter::traits::iterator::Iterator::rev",
    "core::intrinsics::discriminant_value", "std::io::stdio::stdin", "str::chars", "core::result::Result::unwrap", "core::option::Option::unwrap", "std::result::Result::unwrap", "std::option::Option::unwrap",
    "core::iter::traits::iterator::Iterator::rev",
}
