"""A-AUD: enumeration of panic-capable and process-terminating sites, keyed without line numbers."""
from .facts import callee_name
from .origin import Origins, show
from .lang import Roles

SKIP_ASSERTS = ("MisalignedPointerDereference", "NullPointerDereference", "InvalidEnumConstruction")
PANIC_CALLS = {
    "std::option::Option::unwrap": "unwrap(Option)", "std::option::Option::expect": "expect(Option)",
    "std::result::Result::unwrap": "unwrap(Result)", "std::result::Result::expect": "expect(Result)",
    "std::result::Result::unwrap_err": "unwrap_err", "std::option::Option::unwrap_unchecked": "unwrap_unchecked",
}
PANIC_PREFIX = ("core::panicking::", "std::rt::begin_panic", "std::rt::panic_fmt", "core::option::expect_failed", "core::result::unwrap_failed", "core::panicking::panic")
INDEX_CALLS = ("core::ops::index::Index::index", "core::ops::index::IndexMut::index_mut")
TERMINATE = ("std::process::exit", "std::process::abort")


def sites(body, fb):
    """list of dicts {kind, key, where, detail}"""
    out = []
    org = Origins(body, fb)
    pr = {i: "P%d" % i for i in range(1, body.argc + 1)}
    roles = Roles(body, fb, param_roles=pr, org=org)
    for bi, blk in enumerate(body.blocks):
        if blk["cleanup"]:
            continue
        t = blk["term"]
        if t["k"] == "assert":
            kind = t["kind"]
            if any(kind.startswith(s) for s in SKIP_ASSERTS):
                continue
            ops = [roles.of_operand(o, bi) for o in t["ops"]]
            cond = org.of_operand(t["cond"], bi, "t")
            oty = None
            for o in t["ops"]:
                if o["k"] in ("copy", "move") and not o["p"]["proj"]:
                    oty = body.lty(o["p"]["l"])
                elif o["k"] == "const":
                    oty = oty or o.get("ty")
            kops = sorted(ops) if kind in ("Overflow(Add)", "Overflow(Mul)") else ops
            out.append({"kind": "assert:" + kind, "key": "%s:%s" % (kind, ",".join(_short(o) for o in kops)), "where": t["span"]["at"], "ops": ops, "exp": t["span"]["exp"], "cond": cond, "block": bi, "ty": oty})
        elif t["k"] == "call":
            f = t["f"]
            if "indirect" in f:
                continue
            n = callee_name(f, fb)
            if n in PANIC_CALLS:
                arg = roles.of_operand(t["args"][0], bi)
                out.append({"kind": PANIC_CALLS[n], "key": "%s:%s" % (PANIC_CALLS[n], _short(arg)), "where": t["span"]["at"], "ops": [arg], "exp": t["span"]["exp"]})
            elif any(n.startswith(p) for p in PANIC_PREFIX):
                out.append({"kind": "panic", "key": "panic:%s" % n.rsplit("::", 1)[-1], "where": t["span"]["at"], "ops": [], "exp": t["span"]["exp"]})
            elif n in INDEX_CALLS:
                recv = t["argtys"][0]
                idx = t["argtys"][1]
                a0 = roles.of_operand(t["args"][0], bi)
                a1 = roles.of_operand(t["args"][1], bi)
                out.append({"kind": "index", "key": "index:%s[%s]:%s[%s]" % (_ty(recv), _ty(idx), _short(a0), _short(a1)), "where": t["span"]["at"], "ops": [a0, a1], "exp": t["span"]["exp"], "recv": recv})
            elif n in TERMINATE:
                a0 = roles.of_operand(t["args"][0], bi) if t["args"] else ""
                out.append({"kind": "terminate", "key": "terminate:%s(%s)" % (n.rsplit("::", 1)[-1], a0), "where": t["span"]["at"], "ops": [a0], "exp": t["span"]["exp"]})
    return out


def _short(s, n=70):
    """operand provenance as it appears in a site key; long expressions are cut, with a digest of the whole
    expression so that two different long expressions never share a key"""
    s = s.replace("hyeong::", "")
    if len(s) <= n:
        return s
    import hashlib
    return s[: n - 3] + "...#" + hashlib.sha1(s.encode()).hexdigest()[:6]


def _old_short(s, n=70):
    s = s.replace("hyeong::", "")
    return s if len(s) <= n else s[: n - 3] + "..."


def _ty(t):
    return t.replace("&mut ", "").replace("&", "").replace("std::vec::Vec", "Vec").replace("std::string::String", "String").replace("std::collections::HashMap", "HashMap")[:60]


import re


def _consts_of(role):
    """constants of a role that is a constant or a PHI of constants, else None"""
    if re.fullmatch(r"K-?\d+", role):
        return [int(role[1:])]
    m = re.fullmatch(r"PHI\((.*)\)", role)
    if m:
        parts = m.group(1).split("|")
        if all(re.fullmatch(r"K-?\d+", p) for p in parts):
            return [int(p[1:]) for p in parts]
    return None


def auto_justify(site):
    """reasons that need no per-site reading"""
    k = site["kind"]
    ops = site.get("ops", [])
    if k == "assert:Overflow(Add)" and len(ops) == 2:
        for a, b in ((ops[0], ops[1]), (ops[1], ops[0])):
            cs = _consts_of(b)
            if cs is not None and all(0 <= c <= 10 for c in cs) and " Mul " not in a and "Shl" not in a:
                return "increment of a usize counter by a constant <= 10: the counter is bounded by the length of the input text (counts < 2^31 by the property's quantifier)"
    if k == "assert:Overflow(Add)" and site.get("ty") in ("usize", "u64", "u128", "isize", "i64", "i128") and not any(" Mul " in o or "Shl" in o and "K4" not in o for o in ops) and not site.get("numeric"):
        return "sum of two 64-bit (or wider) lengths / counts / positions: each is far below 2^63 (counts < 2^31 by the property's quantifier, lengths bounded by memory)"
    if k in ("assert:Overflow(Shl)", "assert:Overflow(Shr)") and len(ops) == 2:
        cs = _consts_of(ops[1])
        width = {"u8": 8, "i8": 8, "u16": 16, "i16": 16, "u32": 32, "i32": 32}.get(site.get("ty"), 64 if site.get("ty") in ("u64", "i64", "usize", "isize") else 128 if site.get("ty") in ("u128", "i128") else 32)
        if cs is not None and all(0 <= c < width for c in cs):
            return "shift by a constant smaller than the bit width of the operand"
    if k in ("assert:DivisionByZero", "assert:RemainderByZero"):
        from .origin import walk
        c = site.get("cond")
        consts = [x[2] for x in walk(c) if isinstance(x, tuple) and x[0] == "const" and isinstance(x[2], int)] if c else []
        # cond is  Not(Eq(divisor, 0)) or a constant true
        if c and c[0] == "const":
            return "division by a non-zero constant"
        if c and any(v != 0 for v in consts) and not any(isinstance(x, tuple) and x[0] in ("arg", "call", "field") for x in walk(c)):
            return "division by a non-zero constant"
    if k == "assert:Overflow(Sub)" and len(ops) == 2:
        why = _max_dominated(ops[0], ops[1])
        if why:
            return why
    if k == "assert:BoundsCheck" and len(ops) == 2:
        ln, ix = _consts_of(ops[0]), _consts_of(ops[1])
        if ln is not None and ix is not None and all(0 <= i < min(ln) for i in ix):
            return "constant index below the constant length"
        if ln is not None and min(ln) >= 14 and re.fullmatch(r"P\d+@Val\.type_", ops[1]):
            return "area node types are 0..13 by construction in the parser (0, 1, heart position + 2 <= 13; C04.TABLES/TREE); the indexed constant table has at least 14 entries"
    return None


def _top_split(x, sep):
    """split a fully parenthesised binary expression `(a SEP b)` at its top-level separator; None if it is not one"""
    if not (x.startswith("(") and x.endswith(")")):
        return None
    depth = 0
    body = x[1:-1]
    i = 0
    while i < len(body):
        c = body[i]
        if c in "([{<":
            depth += 1
        elif c in ")]}>":
            depth -= 1
        elif depth == 0 and body.startswith(sep, i):
            return body[:i], body[i + len(sep):]
        i += 1
    return None


def _addends(x):
    sp = _top_split(x, " Add ")
    if sp is None:
        return [x]
    return _addends(sp[0]) + _addends(sp[1])


_MAXFORM = re.compile(r"PHI\(K0\|cmp::max\(PHI\(K0\|LOOPVAR\),(.*)\)\)$")


def _max_dominated(a, b):
    """`W - x` (or `(W - x1) - x2`) where W is the running maximum, started at 0, of an expression over the
    elements of a collection and the subtrahends together are that same expression over an element of the same
    (immutable) collection: W >= the expression for every element, so the difference cannot underflow"""
    subtr = [b]
    cur = a
    while True:
        sp = _top_split(cur, " Sub ")
        if sp is None:
            break
        cur, x = sp
        subtr.append(x)
    m = _MAXFORM.match(cur)
    if not m:
        return None
    want = sorted(_addends(m.group(1)))
    got = sorted(y for x in subtr for y in _addends(x))
    # every subtrahend is one of the addends of the maximised expression, each used at most once
    rest = list(want)
    for g in got:
        if g in rest:
            rest.remove(g)
        else:
            return None
    if "ELEM<" not in m.group(1):
        return None
    return "difference between a running maximum (from 0) of an expression over the elements of a collection and (part of) the same expression for one element: cannot underflow"
