"""A-GEA: guarded event automata.

A region of a CFG is projected onto an alphabet of events (labels produced by a rule-specific
classifier for statements, terminators and branch edges); everything else is epsilon.  The language
of the region is the set of event strings along paths from the entry block to an exit block.
Languages are compared after determinisation (subset construction) by a product walk that
yields a shortest distinguishing string.
"""
from collections import deque


class NFA:
    def __init__(self):
        self.trans = {}  # state -> list of (label|None, state)
        self.start = None
        self.accept = set()
        self.info = {}  # (state,label,state) -> where (file:line) for diagnostics

    def add(self, a, label, b, where=None):
        self.trans.setdefault(a, []).append((label, b))
        self.trans.setdefault(b, [])
        if where is not None and label is not None:
            self.info.setdefault((a, label), where)

    def eclose(self, states):
        st = list(states)
        seen = set(states)
        while st:
            x = st.pop()
            for l, y in self.trans.get(x, ()):
                if l is None and y not in seen:
                    seen.add(y)
                    st.append(y)
        return frozenset(seen)

    def alphabet(self):
        return {l for outs in self.trans.values() for l, _ in outs if l is not None}


class DFA:
    def __init__(self, nfa):
        self.nfa = nfa
        self.start = nfa.eclose({nfa.start})
        self.trans = {}
        self.accepting = set()
        self.where = {}
        q = deque([self.start])
        seen = {self.start}
        while q:
            S = q.popleft()
            if S & nfa.accept:
                self.accepting.add(S)
            outs = {}
            for s in S:
                for l, y in nfa.trans.get(s, ()):
                    if l is not None:
                        outs.setdefault(l, set()).add(y)
                        w = nfa.info.get((s, l))
                        if w is not None:
                            self.where.setdefault((S, l), w)
            self.trans[S] = {}
            for l, ys in outs.items():
                T = nfa.eclose(ys)
                self.trans[S][l] = T
                if T not in seen:
                    seen.add(T)
                    q.append(T)
        self.states = seen
        # states from which an accepting state is reachable
        rev = {}
        for S, outs in self.trans.items():
            for l, T in outs.items():
                rev.setdefault(T, set()).add(S)
        live = set(self.accepting)
        st = list(live)
        while st:
            x = st.pop()
            for p in rev.get(x, ()):
                if p not in live:
                    live.add(p)
                    st.append(p)
        self.live = live

    def n_states(self):
        return len([s for s in self.states if s in self.live])

    def step(self, S, l):
        T = self.trans.get(S, {}).get(l)
        if T is None or T not in self.live:
            return None
        return T

    def enumerate_all(self, limit=5000, maxlen=200):
        """all accepted strings of a DFA with a finite language (raises when there are more than `limit`)"""
        out = []
        st = [(self.start, ())]
        while st:
            S, w = st.pop()
            if len(w) > maxlen:
                raise RuntimeError("language not finite")
            if S in self.accepting:
                out.append(list(w))
                if len(out) > limit:
                    raise RuntimeError("too many strings")
            for l in self.trans.get(S, {}):
                T = self.step(S, l)
                if T is not None:
                    st.append((T, w + (l,)))
        return out

    def enumerate_strings(self, limit=20, maxlen=40):
        """a few accepted strings (shortest first), for evidence samples"""
        out = []
        q = deque([(self.start, ())])
        seen = {}
        while q and len(out) < limit:
            S, w = q.popleft()
            if S in self.accepting:
                out.append(list(w))
            if len(w) >= maxlen:
                continue
            c = seen.get(S, 0)
            if c >= 2:
                continue
            seen[S] = c + 1
            for l in sorted(self.trans.get(S, {})):
                T = self.step(S, l)
                if T is not None:
                    q.append((T, w + (l,)))
        return out


def compare(d1, d2):
    """language equality of two DFAs; returns None if equal, else dict describing a shortest
    distinguishing string: {"prefix": [...], "next": label|"<end>", "only_in": 1|2, "where": ...}"""
    if d1.start not in d1.live and d2.start not in d2.live:
        return None
    start = (d1.start if d1.start in d1.live else None, d2.start if d2.start in d2.live else None)
    q = deque([(start, ())])
    seen = {start}
    while q:
        (A, B), w = q.popleft()
        accA = A is not None and A in d1.accepting
        accB = B is not None and B in d2.accepting
        if accA != accB:
            return {"prefix": list(w), "next": "<end>", "only_in": 1 if accA else 2, "where": None}
        labs = set()
        if A is not None:
            labs |= {l for l in d1.trans.get(A, {}) if d1.step(A, l) is not None}
        if B is not None:
            labs |= {l for l in d2.trans.get(B, {}) if d2.step(B, l) is not None}
        for l in sorted(labs):
            A2 = d1.step(A, l) if A is not None else None
            B2 = d2.step(B, l) if B is not None else None
            if (A2 is None) != (B2 is None):
                where = d1.where.get((A, l)) if A2 is not None else d2.where.get((B, l))
                return {"prefix": list(w), "next": l, "only_in": 1 if A2 is not None else 2, "where": where}
            nxt = (A2, B2)
            if nxt not in seen:
                seen.add(nxt)
                q.append((nxt, w + (l,)))
    return None


# ----------------------------------------------------------------------------------------------
# region -> NFA


def region_nfa(body, cfg, entry, exits, classify_stmt, classify_term, classify_edge, stop_at_exit=True):
    """NFA of the region: from the start of block `entry` to the *start* of any block in `exits`
    (stop_at_exit) or to the end of `exits` blocks.  classify_* return a label, a list of labels
    or None (epsilon).  classify_edge(block, term, succ) labels branch edges; returning the
    string "<cut>" removes the edge."""
    nfa = NFA()
    nfa.start = ("B", entry)
    exits = set(exits)
    live = cfg.can_reach(exits)
    visited = set()
    st = [entry]
    while st:
        bi = st.pop()
        if bi in visited:
            continue
        visited.add(bi)
        if bi in exits and stop_at_exit:
            nfa.accept.add(("B", bi))
            nfa.trans.setdefault(("B", bi), [])
            continue
        b = body.blocks[bi]
        cur = ("B", bi)
        k = 0

        def emit(labels, where):
            nonlocal cur, k
            if labels is None:
                return
            if isinstance(labels, str):
                labels = [labels]
            for l in labels:
                nxt = ("S", bi, k)
                k += 1
                nfa.add(cur, l, nxt, where)
                cur = nxt

        for si, s in enumerate(b["stmts"]):
            emit(classify_stmt(bi, si, s), s["span"]["at"])
        t = b["term"]
        emit(classify_term(bi, t), t["span"]["at"])
        if bi in exits and not stop_at_exit:
            nfa.accept.add(cur)
            continue
        for s in cfg.succ[bi]:
            if s not in live:
                continue
            l = classify_edge(bi, t, s)
            if l == "<cut>":
                continue
            if isinstance(l, (list, tuple)):
                c2 = cur
                for j, lab in enumerate(l[:-1]):
                    nx = ("E", bi, s, j)
                    nfa.add(c2, lab, nx, t["span"]["at"])
                    c2 = nx
                nfa.add(c2, l[-1] if l else None, ("B", s), t["span"]["at"])
            else:
                nfa.add(cur, l, ("B", s), t["span"]["at"])
            st.append(s)
    return nfa


# ----------------------------------------------------------------------------------------------
# tiny regular-expression language for spec tables:  tokens separated by whitespace,
#   ( ... )  grouping,  *  ?  postfix,  |  alternation.  A token is any other run of characters.


def regex_nfa(text):
    toks = text.replace("(", " ( ").replace(")", " ) ").replace("|", " | ").replace("*", " * ").replace("?", " ? ").split()
    # re-join tokens that look like LABEL(args) which we split on parentheses: use {} in specs instead
    pos = [0]
    nfa = NFA()
    counter = [0]

    def new():
        counter[0] += 1
        return ("R", counter[0])

    def parse_alt():
        s, e = parse_seq()
        while pos[0] < len(toks) and toks[pos[0]] == "|":
            pos[0] += 1
            s2, e2 = parse_seq()
            ns, ne = new(), new()
            nfa.add(ns, None, s)
            nfa.add(ns, None, s2)
            nfa.add(e, None, ne)
            nfa.add(e2, None, ne)
            s, e = ns, ne
        return s, e

    def parse_seq():
        s = new()
        e = s
        while pos[0] < len(toks) and toks[pos[0]] not in (")", "|"):
            a, b = parse_post()
            nfa.add(e, None, a)
            e = b
        return s, e

    def parse_post():
        a, b = parse_atom()
        while pos[0] < len(toks) and toks[pos[0]] in ("*", "?"):
            op = toks[pos[0]]
            pos[0] += 1
            ns, ne = new(), new()
            nfa.add(ns, None, a)
            nfa.add(b, None, ne)
            nfa.add(ns, None, ne)
            if op == "*":
                nfa.add(b, None, a)
            a, b = ns, ne
        return a, b

    def parse_atom():
        t = toks[pos[0]]
        pos[0] += 1
        if t == "(":
            a, b = parse_alt()
            assert toks[pos[0]] == ")", "unbalanced spec regex"
            pos[0] += 1
            return a, b
        a, b = new(), new()
        nfa.add(a, t, b)
        return a, b

    s, e = parse_alt()
    assert pos[0] == len(toks), "trailing tokens in spec regex: %r" % toks[pos[0]:]
    nfa.start = s
    nfa.accept = {e}
    return nfa


# ----------------------------------------------------------------------------------------------
# spec combinators (used instead of the textual regex when labels contain punctuation)


class Spec:
    pass


class Lit(Spec):
    def __init__(self, label):
        self.label = label


class Seq(Spec):
    def __init__(self, *items):
        self.items = [Lit(i) if isinstance(i, str) else i for i in items]


class Star(Spec):
    def __init__(self, *items):
        self.item = Seq(*items)


class Alt(Spec):
    def __init__(self, *items):
        self.items = [Lit(i) if isinstance(i, str) else i for i in items]


class Opt(Spec):
    def __init__(self, *items):
        self.item = Seq(*items)


def spec_nfa(spec):
    nfa = NFA()
    counter = [0]

    def new():
        counter[0] += 1
        return ("R", counter[0])

    def build(s):
        if isinstance(s, str):
            s = Lit(s)
        if isinstance(s, Lit):
            a, b = new(), new()
            nfa.add(a, s.label, b)
            return a, b
        if isinstance(s, Seq):
            a = new()
            e = a
            for it in s.items:
                x, y = build(it)
                nfa.add(e, None, x)
                e = y
            return a, e
        if isinstance(s, Star):
            a, b = new(), new()
            x, y = build(s.item)
            nfa.add(a, None, x)
            nfa.add(y, None, b)
            nfa.add(a, None, b)
            nfa.add(y, None, x)
            return a, b
        if isinstance(s, Opt):
            a, b = new(), new()
            x, y = build(s.item)
            nfa.add(a, None, x)
            nfa.add(y, None, b)
            nfa.add(a, None, b)
            return a, b
        if isinstance(s, Alt):
            a, b = new(), new()
            for it in s.items:
                x, y = build(it)
                nfa.add(a, None, x)
                nfa.add(y, None, b)
            return a, b
        raise TypeError(s)

    a, b = build(spec)
    nfa.start = a
    nfa.accept = {b}
    return nfa


# ----------------------------------------------------------------------------------------------
# guard-set normalisation: the branch outcomes met between two events are a conjunction; their
# order, the shape of the decision tree (if-chain vs match) and implied outcomes do not matter
import re as _re

_G = _re.compile(r"^(EQ|LT|BR|SW)\[(.*)\](=|!=)(.*)$")


def is_guard(label):
    return isinstance(label, str) and bool(_G.match(label)) and label.split("[", 1)[0] in ("EQ", "LT", "BR", "SW")


def _split_top(s):
    """split 'a,b' at the top-level comma"""
    depth = 0
    for i, ch in enumerate(s):
        if ch in "([{<":
            depth += 1
        elif ch in ")]}>":
            depth -= 1
        elif ch == "," and depth == 0:
            return s[:i], s[i + 1 :]
    return s, None


def guard_atoms(label):
    """-> list of (kind, a, b, truth) atoms"""
    m = _G.match(label)
    kind, inner, op, val = m.group(1), m.group(2), m.group(3), m.group(4)
    if kind == "SW":
        vals = val.split("|")
        if all(v.lstrip("-").isdigit() for v in vals):
            if op == "=":
                if len(vals) == 1:
                    return [("EQ", inner, "K" + vals[0], True)]
                return [("IN", inner, "|".join(sorted(vals)), True)]
            return [("EQ", inner, "K" + v, False) for v in vals]
        return [("SW", inner, op + val, True)]
    truth = val == "1"
    if kind == "BR":
        return [("BR", inner, "", truth)]
    a, b = _split_top(inner)
    if kind == "EQ":
        a, b = sorted([a, b], key=lambda x: (not (x.startswith("K") and x[1:].lstrip("-").isdigit()), x))
        # constant first -> (variable, constant)
        if a.startswith("K") and a[1:].lstrip("-").isdigit():
            a, b = b, a
        return [("EQ", a, b, truth)]
    return [("LT", a, b, truth)]


def normalise_guards(labels):
    """frozenset of atoms, or None when contradictory"""
    atoms = set()
    for l in labels:
        atoms.update(guard_atoms(l))
    # contradictions
    for (k, a, b, t) in atoms:
        if (k, a, b, not t) in atoms:
            return None
    pos = {}
    for (k, a, b, t) in atoms:
        if k == "EQ" and t and b.startswith("K"):
            if a in pos and pos[a] != b:
                return None
            pos[a] = b
    out = set()
    for (k, a, b, t) in atoms:
        if k == "EQ" and not t and a in pos and b.startswith("K") and pos[a] != b:
            continue  # implied by the positive equality
        if k == "LT" and a in pos and b.startswith("K") and b[1:].lstrip("-").isdigit() and pos[a][1:].lstrip("-").isdigit():
            if (int(pos[a][1:]) < int(b[1:])) != t:
                return None
            continue
        out.add((k, a, b, t))
    return tuple(sorted(out))


def condense(nfa):
    """new NFA whose transitions carry (normalised guard set, event); contradictory paths dropped"""
    out = NFA()
    out.start = ("C", nfa.start)
    ACC = ("C", "$accept")
    out.accept = {ACC}
    work = [nfa.start]
    done = set()
    while work:
        s = work.pop()
        if s in done:
            continue
        done.add(s)
        results = set()
        stack = [(s, frozenset())]
        seen_sg = {(s, frozenset())}
        budget = 400000
        while stack:
            budget -= 1
            if budget < 0:
                raise RuntimeError("guard exploration too large")
            x, g = stack.pop()
            if x in nfa.accept:
                results.add((g, "accept", None, None))
            for (l, y) in nfa.trans.get(x, ()):
                if l is None:
                    g2 = g
                elif is_guard(l):
                    g2 = g | {l}
                    if normalise_guards(g2) is None:
                        continue
                else:
                    results.add((g, "event", l, y))
                    continue
                if (y, g2) not in seen_sg:
                    seen_sg.add((y, g2))
                    stack.append((y, g2))
        for g, kind, l, y in results:
            ng = normalise_guards(g)
            if ng is None:
                continue
            gl = "&".join("%s%s(%s%s)" % ("" if t else "!", k, a, ("," + b) if b else "") for k, a, b, t in ng)
            if kind == "accept":
                out.add(("C", s), "<%s> $" % gl, ACC)
            else:
                out.add(("C", s), "<%s> %s" % (gl, l), ("C", y), nfa.info.get((x, l)) if False else None)
                work.append(y)
    # keep locations for diagnostics
    for (st, l), w in nfa.info.items():
        pass
    out.info_src = nfa.info
    return out


def normalised_dfa(dfa_or_nfa):
    nfa = dfa_or_nfa.nfa if isinstance(dfa_or_nfa, DFA) else dfa_or_nfa
    return DFA(condense(nfa))
