"""C14 — Unicode text passes through a program unchanged (structural clauses)."""
from .facts import callee_name
from .gea import Seq, Alt
from .interp import Events, normal_cfg, language
from .lang import Roles, cast_is_value_preserving
from .origin import Origins, show, walk
from . import p_c01, p_c06, p_c13, p_c03

TECHNIQUE = 'static analysis: event-language equality of refill/pop/push wrappers and of the emitted runtime; cast lint (no narrowing conversion on the text path); checked scalar-value conversion shape'
LEVEL = "other"
EXPLANATION = (
    "The text path is decided structurally on all paths: (REFILL) reading from stack 0 refills it from ONE line of "
    "input, character by character (chars(), one scalar value per element, widening conversion char -> integer), "
    "pushed in reverse so they pop in order, and only when stack 0 is empty; at end of input nothing is pushed so the "
    "pop yields NaN (C01.POP language + C01.NAN); (KEEPNL) the real stdin reader returns exactly what "
    "Stdin::read_line appended — the line terminator is kept, nothing trims, splits or re-appends; (CONV) output goes "
    "floor -> low limb -> checked char::from_u32 -> formatted char, with no narrowing conversion, and a value is "
    "printed as a character exactly when it is non-negative (zero included: U+0000 is a character); the level-2 "
    "capture converts char -> integer by widening only. The emitted program's refill/conversion is checked by C03. "
    "Byte-for-byte equality of output and input is NOT decided."
)
ASSUMPTIONS = ["rustc MIR (nightly 1.97, mir-opt-level=0)", "std's Stdin::read_line, str::chars and char formatting are correct UTF-8 implementations"]
TRUSTED = ["rustc nightly MIR", "/verif/rules A-ORG/A-GEA"]


def rule_keepnl(ctx, R):
    fb = ctx.fb
    name = "<std::io::Stdin as hyeong::util::io::ReadLine>::read_line_"
    b = fb.bodies.get(name)
    if not R.anchor(b is not None, name, "ReadLine for Stdin"):
        return
    R.analyse(name)
    cfg = normal_cfg(b)
    ev = Events(b, fb, roles=Roles(b, fb, param_roles={1: "STDIN"}), epsilon={"core::ops::try_trait::Try::branch", "core::ops::try_trait::FromResidual::from_residual"})
    d = language(b, fb, cfg, 0, cfg.returns, ev, stop_at_exit=False)
    p_c01.check_lang_any(R, "read_line_:shape", "the real stdin reader returns the String that Stdin::read_line filled, untouched (line terminator kept; end of input = empty string)", d, [Seq("String::new()", "Stdin::read_line(STDIN,String::new())", "RET(Result::Ok{String::new()})")], b.span)
    b2 = fb.bodies.get("hyeong::util::io::read_line_from")
    if R.anchor(b2 is not None, "read_line_from", "io::read_line_from"):
        cfg2 = normal_cfg(b2)
        ev2 = Events(b2, fb, roles=Roles(b2, fb, param_roles={1: "IN"}), epsilon=set())
        d2 = language(b2, fb, cfg2, 0, cfg2.returns, ev2, stop_at_exit=False)
        p_c01.check_lang_any(R, "read_line_from:shape", "read_line_from forwards the reader's line unchanged", d2, [Seq("ReadLine::read_line_(IN)", "RET(ReadLine::read_line_(IN))")], b2.span)


def rule_conv(ctx, R):
    fb = ctx.fb
    # output: push_stack_wrap language (C01.PUSH) + num_to_unicode shape (C13.UNICODE) + no narrowing casts
    for name in ("hyeong::core::execute::push_stack_wrap", "hyeong::util::ext::num_to_unicode", "hyeong::core::execute::pop_stack_wrap"):
        b = fb.bodies.get(name)
        if not R.anchor(b is not None, name, name):
            continue
        R.analyse(name)
        for bi, blk in enumerate(b.blocks):
            if blk["cleanup"]:
                continue
            for s in blk["stmts"]:
                if s["k"] == "assign" and s["r"]["k"] == "cast" and s["r"]["kind"] == "IntToInt" and "macro:" not in "".join(s["span"]["exp"]):
                    fr, to = s["r"]["from"], s["r"]["to"]
                    R.check(cast_is_value_preserving(fr, to), "conv:cast:%s:%s->%s" % (name, fr, to), "integer conversion %s -> %s on the text path of %s cannot lose information" % (fr, to, name.rsplit("::", 1)[-1]), s["span"]["at"])
    # the level-2 capture: chars().map(|x| Num::from_num(x as isize))
    ob = fb.bodies.get("hyeong::core::optimize::optimize")
    if R.anchor(ob is not None, "optimize", "optimize::optimize"):
        n = 0
        for c in fb.closures_of(ob):
            for bi, blk in enumerate(c.blocks):
                for s in blk["stmts"]:
                    if s["k"] == "assign" and s["r"]["k"] == "cast" and s["r"]["kind"] == "IntToInt":
                        n += 1
                        R.check(s["r"]["from"] == "char" and cast_is_value_preserving("char", s["r"]["to"]), "conv:capture:%s" % c.name.rsplit("::", 1)[-1], "captured characters are converted char -> %s (widening)" % s["r"]["to"], s["span"]["at"])
        R.floor("capture_casts", n, 2, "char conversions of the captured out/err text")
    # run(): re-emission goes through num_to_unicode as well (C02.REEMIT checks the stream)


RULES = [
    ("C14.REFILL", "line-wise refill of stack 0 in reverse, one element per scalar value, only when empty; EOF pushes nothing", p_c01.rule_pop),
    ("C14.EOFNAN", "empty pop yields NaN; NaN never stored on an empty stack", p_c01.rule_nan),
    ("C14.KEEPNL", "the real stdin reader keeps the line terminator", rule_keepnl),
    ("C14.OUT", "output: non-negative -> checked scalar value -> char; otherwise the negated number", p_c01.rule_push),
    ("C14.UNICODE", "checked conversion floor -> low limb -> char::from_u32", p_c13.rule_unicode),
    ("C14.ISPOS", "the sign test that selects character output counts zero as non-negative", p_c06.rule_arith),
    ("C14.CONV", "no narrowing integer conversion on the text path", rule_conv),
    ("C14.EMITTED", "the emitted Stack::pop / push (both variants): same refill, EOF and output conversion rules", p_c03.rule_stack),
]


def rule_memreader(ctx, R):
    """the in-memory reader (library users and the tests feed input through it): the text is cut at line feeds only,
    lines are handed out in order, one per call, and the end is the empty string"""
    from . import p_c06
    fb = ctx.fb_all
    n1 = "util::io::CustomReader::new"
    b, d = p_c06.fn_lang(fb, n1, epsilon=set(), set_events=True)
    if R.anchor(b is not None, "memreader_new", "CustomReader::new"):
        R.analyse(n1)
        try:
            ws = d.enumerate_all(20)
        except RuntimeError:
            ws = []
        rets = [w[-1] for w in ws]
        ok = len(rets) == 1 and rets[0] in (
            "RET(CustomReader::CustomReader{Iterator::collect(Iterator::map(str::split(P1,K10),FN:From::from)),K0})",
            "RET(CustomReader::CustomReader{Iterator::collect(Iterator::map(str::split(P1,K10),FN:ToString::to_string)),K0})",
            "RET(CustomReader::CustomReader{Iterator::collect(Iterator::map(str::split(P1,K10),FN:ToOwned::to_owned)),K0})",
        )
        R.check(ok, "memreader:split", "the text is cut exactly at line feeds (nothing else, such as a carriage return, is removed) and reading starts at the first line: %s" % rets, b.span)
    n2 = "<util::io::CustomReader as hyeong::util::io::ReadLine>::read_line_"
    b, d = p_c06.fn_lang(fb, n2, epsilon=set(), set_events=True)
    if R.anchor(b is not None, "memreader_read", "CustomReader::read_line_"):
        R.analyse(n2)
        try:
            ws = sorted(d.enumerate_all(20))
        except RuntimeError:
            ws = []
        core = sorted([x for x in w if x.startswith(("EQ[", "SET(", "RET("))] for w in ws)
        want = sorted([
            ["EQ[P1.idx,Vec::len(P1.buf)]=1", "RET(Result::Ok{From::from(K'')})"],
            ["EQ[P1.idx,Vec::len(P1.buf)]=0", "SET(P1.idx,(P1.idx Add K1))", "RET(Result::Ok{COPY(Index::index(P1.buf,P1.idx))})"],
        ])
        alt = sorted([[x.replace("From::from(K'')", "String::new()") for x in w] for w in want])
        R.check(core in (want, alt), "memreader:in_order", "each call returns the next line and advances by one; past the last line it returns the empty string: %s" % core, b.span)


RULES.append(("C14.MEMREADER", "the in-memory reader cuts the text at line feeds only and hands the lines out in order", rule_memreader))


def _streams(ctx, R):
    from . import p_c01
    return p_c01.rule_streams(ctx, R)


RULES.append(("C14.STREAMS", "what `run` writes to its first writer reaches the process's standard output, its second the standard error (shared with C01.STREAMS)", _streams))


# rules of other properties re-run under this property's name; resolved by rules/main.py once every module can be
# imported (the owners import this module themselves)
DEFERRED_BUNDLES = [
    {'prop': 'C14', 'tag': 'INT', 'module': 'p_c05', 'only': ('CTOR', 'CONSTS', 'SIGN', 'NORMALISE'), 'skip': (), 'why': 'code points travel as numbers'},
    {'prop': 'C14', 'tag': 'LEVELS', 'module': 'p_c02', 'only': ('ROLLBACK', 'SIB', 'CAPTURE', 'WINDOW', 'SLOTS'), 'skip': (), 'why': 'the same text must come out at every level'},
]
