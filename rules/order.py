"""A-ORD: audited order/extent-changing operations on sequences (shared rule `Cnn.ORDER`).

Many clauses of the properties say "every element, in order": every command of a line is executed in order, every
digit is read, every captured character is replayed, every limb takes part.  The rules that decide those clauses look
at the *source* of an iteration (`parse::parse(..)`, `get_stack(1)`, `chars()` of the captured text); an iterator
adapter put between the source and the loop (`.rev()`, `.skip(1)`, `.take(n)`, `.step_by(2)`, `.filter(..)`), a
`Vec::insert(0, ..)` for a `push`, or a narrowing `as` cast changes what the loop sees without changing its source.
This rule keeps an audited table of such operations per function (rules/known_adapters.json: the sites of the tree the
rules were written for, each of which is covered by a rule of its own) and reports any function that has *more* of one
kind than the table: a new site nobody has looked at.  Helpers are inlined and closures are counted with the function
they are written in, so extracting or inlining code moves no site.  It decides the absence of new unaudited
order-changing sites, a necessary condition; what the audited sites do is decided by the rules that own them."""
import json, os
from collections import Counter
from .facts import callee_name

# positional adapters only: predicate-carrying ones (filter, take_while, retain, drain(..) with a range ..) are how ordinary
# refactorings spell an `if .. { continue }`, and their predicate is visible to the rules as a closure
ADAPTERS = {"rev", "skip", "take", "step_by", "chain", "cycle", "nth", "last", "zip"}
FAMILY = {"adapter:rev": "reversal", "op:reverse": "reversal", "op:sort": "sort", "op:sort_by": "sort", "op:sort_by_key": "sort", "op:sort_unstable": "sort", "op:sort_unstable_by": "sort", "op:sort_unstable_by_key": "sort",
          "op:trim": "trim", "op:trim_start": "trim", "op:trim_end": "trim", "op:trim_left": "trim", "op:trim_right": "trim"}
SEQ_OPS = {"insert", "swap_remove", "truncate", "split_off", "reverse", "sort", "sort_by", "sort_by_key", "sort_unstable", "sort_unstable_by", "sort_unstable_by_key", "swap", "rotate_left", "rotate_right",
           "trim", "trim_start", "trim_end", "trim_matches", "trim_start_matches", "trim_end_matches", "trim_left", "trim_right", "split_at", "saturating_sub", "wrapping_add", "wrapping_sub", "wrapping_mul", "capacity"}
WIDTH = {"u8": 8, "i8": 8, "u16": 16, "i16": 16, "u32": 32, "i32": 32, "char": 32, "u64": 64, "i64": 64, "usize": 64, "isize": 64, "u128": 128, "i128": 128}
KNOWN = os.path.join(os.path.dirname(os.path.abspath(__file__)), "known_adapters.json")


def _owner(name):
    return name.split("::{closure#", 1)[0]


def counts(fb):
    out = {}
    for name, b in fb.bodies.items():
        if b.path in fb.helpers:
            continue  # counted in the callers it is inlined into
        c = out.setdefault(_owner(name), Counter())
        for bi, t in b.calls():
            if b.blocks[bi].get("cleanup"):
                continue
            cn = callee_name(t["f"], fb)
            short = cn.rsplit("::", 1)[-1]
            if "Iterator::" in cn and short in ADAPTERS:
                c["adapter:" + short] += 1
            elif short in SEQ_OPS and not cn.startswith("hyeong::") and "core::state" not in cn:
                c["op:" + short] += 1
        for blk in b.blocks:
            if blk.get("cleanup"):
                continue
            for s in blk["stmts"]:
                r = s.get("r", {})
                if r.get("k") == "cast" and r.get("kind") == "IntToInt" and WIDTH.get(r.get("to"), 999) < WIDTH.get(r.get("from"), 0):
                    c["narrow:%s->%s" % (r["from"], r["to"])] += 1
    fam = {}
    for k, v in out.items():
        c2 = Counter()
        for kk, n_ in v.items():
            c2[FAMILY.get(kk, kk)] += n_
        if c2:
            fam[k] = dict(c2)
    return fam


def rule_order(prefixes):
    def run(ctx, R):
        fb = ctx.fb_all
        known = json.load(open(KNOWN, encoding="utf-8"))
        cur = counts(fb)
        from .inline import known_functions
        kf = known_functions()
        # functions of the tree the rules were written for (new helpers are inlined into them; new code nothing calls is no one's subject)
        cur = {f: v for f, v in cur.items() if f in kf or f in known}
        n = 0
        for fn in sorted(set(cur) | set(known)):
            if not any(p in fn for p in prefixes):
                continue
            R.analyse(fn)
            have, allowed = cur.get(fn, {}), known.get(fn, {})
            for k in sorted(set(have) | set(allowed)):
                n += 1
                body = fb.bodies.get(fn)
                R.check(have.get(k, 0) <= allowed.get(k, 0), "order:%s:%s" % (fn, k), "%s has %d site(s) of %s (an order/extent-changing operation on a sequence or a narrowing cast); audited: %d" % (fn.rsplit("::", 2)[-1] if "::" in fn else fn, have.get(k, 0), k, allowed.get(k, 0)), body.span if body is not None else None)
        nfn = sum(1 for f in fb.bodies if any(p in f for p in prefixes))
        R.check(nfn >= 1, "order:functions", "functions of this property analysed for order/extent-changing operations: %d (sites compared with the audited table: %d)" % (nfn, n))
    return run


if __name__ == "__main__":
    import sys
    sys.path.insert(0, os.path.dirname(os.path.dirname(os.path.abspath(__file__))))


PREFIXES = {
    "C01": ("core::execute", "core::state", "core::area", "app::run"),
    "C02": ("core::optimize", "core::state", "app::run"),
    "C03": ("core::compile", "app::build"),
    "C04": ("core::parse", "app::check"),
    "C05": ("number::big_number",),
    "C06": ("number::num", "number::big_number"),
    "C07": ("number::num", "number::big_number", "core::area"),
    "C08": ("core::parse", "core::area", "core::code", "app::check"),
    "C09": ("number::big_number", "number::num", "core::compile::vec_to_str"),
    "C10": ("core::optimize", "core::state"),
    "C11": ("app::debug", "app::check", "util::io", "core::execute"),
    "C12": ("app::interpreter", "core::execute", "core::state", "util::io"),
    "C13": ("hyeong::main", "hyeong::sub_main", "util::", "app::run", "app::check"),
    "C14": ("util::io", "util::ext", "core::execute", "core::optimize", "core::compile"),
}
DOC = "no unaudited order/extent-changing operation (iterator adapters rev/skip/take/step_by/filter.., Vec::insert/truncate/drain/sort.., trim.., narrowing casts) in the functions this property rests on: per function at most the audited sites of rules/known_adapters.json"
