"""command line: ./hv setup | check <Cxx> [--tier quick|thorough] | all | explain <file>"""
import importlib, json, os, subprocess, sys, time, traceback
from . import engine
from .engine import Recorder, finish, VERIF
from .facts import FactBase

PROPS = ["C%02d" % i for i in range(1, 15)]
RULE_SECONDS = int(os.environ.get("HV_RULE_SECONDS", "600"))  # a rule is slower than 3 s on no tree seen so far


class Ctx:
    def __init__(self, fdir, tier):
        self.fdir = fdir
        self.tier = tier
        self._fb = self._bin = self._num = self._cg = self._all = None
        self._extra = {}

    @property
    def fb(self):
        if self._fb is None:
            self._fb = FactBase([os.path.join(self.fdir, "hyeong.lib.json")])
        return self._fb

    @property
    def fb_all(self):
        """lib + bin bodies of the default configuration"""
        if self._all is None:
            self._all = FactBase([os.path.join(self.fdir, "hyeong.lib.json"), os.path.join(self.fdir, "hyeong.bin.json")])
        return self._all

    @property
    def fb_num(self):
        if self._num is None:
            self._num = FactBase([os.path.join(self.fdir, "hyeong.lib.number.json")])
        return self._num

    @property
    def cg(self):
        if self._cg is None:
            from .callgraph import CallGraph
            self._cg = CallGraph(self.fb)
        return self._cg


def run_property(prop, tier):
    t0 = time.time()
    mod = importlib.import_module("rules.p_%s" % prop.lower())
    if getattr(mod, "DEFERRED_BUNDLES", None) and not getattr(mod, "_bundles_resolved", False):
        from .share import bundle
        for spec in mod.DEFERRED_BUNDLES:
            mod.RULES += bundle(spec["prop"], spec["tag"], spec["module"], only=spec.get("only"), skip=spec.get("skip", ()), why=spec.get("why", ""))
        mod._bundles_resolved = True
    if not getattr(mod, "_order_added", False):
        from . import order
        if prop in order.PREFIXES:
            mod.RULES.append(("%s.ORDER" % prop, order.DOC, order.rule_order(order.PREFIXES[prop])))
        mod._order_added = True
    recorders = []
    try:
        fdir = engine.extract()
    except engine.ExtractionError as e:
        r = Recorder(prop, "%s.EXTRACT" % prop, "fact extraction from /repo's current tree")
        r.fail("extract", "cannot extract MIR facts from the current tree (does it compile?): " + str(e)[:1500], kind="anchor-lost")
        recorders.append(r)
        return finish(prop, tier, recorders, t0, mod.LEVEL, mod.EXPLANATION, mod.ASSUMPTIONS, mod.TRUSTED, "./hv check %s --tier %s" % (prop, tier))
    ctx = Ctx(fdir, tier)
    import signal

    class RuleTimeout(Exception):
        pass

    def _alarm(signum, frame):
        raise RuleTimeout("no result after %d s (path or language enumeration does not finish on this tree)" % RULE_SECONDS)

    for rule_id, doc, fn in mod.RULES:
        r = Recorder(prop, rule_id, doc)
        try:
            if hasattr(signal, "SIGALRM"):
                signal.signal(signal.SIGALRM, _alarm)
                signal.alarm(RULE_SECONDS)
            try:
                fn(ctx, r)
            finally:
                if hasattr(signal, "SIGALRM"):
                    signal.alarm(0)
        except Exception as e:  # fail closed: a rule that cannot run (or does not finish) is not a pass
            tb = traceback.format_exc()
            r.fail("internal", "rule could not be evaluated on this tree (treated as anchor lost): %s: %s" % (type(e).__name__, e), detail=tb[-1500:], kind="anchor-lost")
        recorders.append(r)
    extra = None
    if hasattr(mod, "extra_coverage"):
        extra = mod.extra_coverage(ctx)
    return finish(prop, tier, recorders, t0, mod.LEVEL, mod.EXPLANATION, mod.ASSUMPTIONS, mod.TRUSTED, "./hv check %s --tier %s" % (prop, tier), extra)


def setup():
    env = dict(os.environ)
    env["CARGO_NET_OFFLINE"] = "true"
    rc = subprocess.call(["cargo", "+nightly", "build", "--offline"], cwd=os.path.join(VERIF, "driver"), env=env)
    if rc != 0:
        return rc
    syn = os.path.join(VERIF, "syn")
    if os.path.exists(os.path.join(syn, "Cargo.toml")):
        rc = subprocess.call(["cargo", "build", "--offline"], cwd=syn, env=env)
    return rc


def main(argv):
    if not argv:
        print(__doc__)
        return 2
    cmd = argv[0]
    if cmd == "setup":
        return setup()
    if cmd == "check":
        prop = argv[1]
        tier = os.environ.get("VERIF_TIER", "quick")
        if "--tier" in argv:
            tier = argv[argv.index("--tier") + 1]
        if prop not in PROPS:
            print("unknown property", prop)
            return 2
        rc = run_property(prop, tier)
        if tier == "thorough":
            from . import selftest
            rc2 = selftest.run_for(prop)
            rc = rc or rc2
        return rc
    if cmd == "all":
        tier = "quick"
        rc = 0
        for p in PROPS:
            if os.path.exists(os.path.join(VERIF, "rules", "p_%s.py" % p.lower())):
                rc |= run_property(p, tier)
        return rc
    if cmd == "explain":
        print(json.dumps(json.load(open(argv[1])), ensure_ascii=False, indent=2))
        return 0
    if cmd == "selftest":
        from . import selftest
        return selftest.main(argv[1:])
    print(__doc__)
    return 2
