"""finite-domain evaluation of origins (constant propagation for table-agreement rules)"""
WRAP = {"u8": 1 << 8, "u16": 1 << 16, "u32": 1 << 32, "u64": 1 << 64, "usize": 1 << 64, "u128": 1 << 128}
SIGNED = {"i8": 8, "i16": 16, "i32": 32, "i64": 64, "isize": 64, "i128": 128}


class Unknown(Exception):
    pass


def ev(o, env, fb=None, body=None):
    """env: list of (matcher, value): matcher(origin)->bool"""
    for m, v in env:
        if m(o):
            return v
    k = o[0]
    if k == "named" and fb is not None:
        cb = fb.by_path.get(o[1])
        if cb is not None:
            for blk in cb.blocks:
                for st in blk["stmts"]:
                    r = st.get("r", {})
                    xs = [r.get("x")] if r.get("k") == "use" else (r.get("fields") or [])
                    for x in xs:
                        if isinstance(x, dict) and x.get("k") == "const":
                            if "bytes" in x:
                                return bytes(x["bytes"])
                            if "str" in x:
                                return x["str"]
        raise Unknown(o)
    if k == "const":
        if isinstance(o[2], int):
            return o[2]
        if isinstance(o[2], (bytes, str)):
            return o[2]
        raise Unknown(o)
    if k == "cast":
        x = ev(o[3], env, fb, body)
        if not isinstance(x, int):
            raise Unknown(o)
        to = o[2]
        if to in WRAP:
            return x % WRAP[to]
        if to in SIGNED:
            w = SIGNED[to]
            x %= 1 << w
            return x - (1 << w) if x >= 1 << (w - 1) else x
        if to == "char":
            return x
        raise Unknown(o)
    if k == "bin":
        a, b = ev(o[2], env, fb, body), ev(o[3], env, fb, body)
        op = o[1]
        if op == "Add":
            return a + b
        if op == "Sub":
            return a - b
        if op == "Mul":
            return a * b
        if op == "Lt":
            return int(a < b)
        if op == "Le":
            return int(a <= b)
        if op == "Gt":
            return int(a > b)
        if op == "Ge":
            return int(a >= b)
        if op == "Eq":
            return int(a == b)
        if op == "Ne":
            return int(a != b)
        if op == "BitAnd":
            return a & b
        if op == "BitOr":
            return a | b
        if op == "BitXor":
            return a ^ b
        raise Unknown(o)
    if k == "un" and o[1] == "Not":
        return int(not ev(o[2], env, fb, body))
    if k == "index":
        base = ev(o[1], env, fb, body)
        i = ev(o[2], env, fb, body)
        if isinstance(base, (bytes, str)) and isinstance(i, int) and 0 <= i < len(base):
            return base[i] if isinstance(base, bytes) else ord(base[i])
        raise Unknown(o)
    # an Option / Result built on this very path (a spliced-in helper that returns `Some(v)` / `None`): its
    # discriminant and its payload are known
    if k == "discr" and o[1][0] == "agg":
        v_ = o[1][1].rsplit("::", 1)[-1]
        if v_ in ("None", "Ok"):
            return 0
        if v_ in ("Some", "Err"):
            return 1
    if k in ("some", "ok", "unwrap") and o[1][0] == "agg" and o[1][1].rsplit("::", 1)[-1] in ("Some", "Ok") and len(o[1][2]) == 1:
        return ev(o[1][2][0], env, fb, body)
    if k == "call" and o[1].endswith("RangeInclusive::contains") and fb is not None:
        rng = promoted_range(fb, body, o[2][0])
        x = ev(o[2][1], env, fb, body)
        if rng is None:
            raise Unknown(o)
        return int(rng[0] <= x <= rng[1])
    raise Unknown(o)


def promoted_range(fb, body, o):
    """(lo, hi) of a promoted RangeInclusive constant"""
    if o[0] != "promoted":
        return None
    pb = fb.promoted.get((o[1], o[2]))
    if pb is None:
        return None
    for blk in pb.blocks:
        t = blk["term"]
        if t["k"] == "call" and t["f"].get("def", "").endswith("::new") and "RangeInclusive" in (t["f"].get("impl_self") or ""):
            vals = [int(a["int"]) for a in t["args"] if a["k"] == "const" and "int" in a]
            if len(vals) == 2:
                return tuple(vals)
        for s in blk["stmts"]:
            r = s.get("r")
            if s["k"] == "assign" and r["k"] == "agg" and r.get("adt", "").endswith("RangeInclusive"):
                vals = []
                for f in r["fields"][:2]:
                    if f["k"] == "const" and "int" in f:
                        vals.append(int(f["int"]))
                if len(vals) == 2:
                    return tuple(vals)
    return None


def decide(body, fb, env, limit=4000):
    """value returned by a small loop-free function for one point of a finite domain: every acyclic path is
    followed with path-precise origins, branch conditions are evaluated under `env` (list of (matcher, value)),
    infeasible paths are dropped; exactly one feasible path must remain.  Raises Unknown otherwise."""
    from .interp import normal_cfg
    from .paths import acyclic_paths, PathOriginsOv, simplify
    cfg = normal_cfg(body)
    if cfg.back_edges():
        raise Unknown("loop")
    vals = []
    for p in acyclic_paths(cfg, 0, cfg.returns, limit):
        org = PathOriginsOv(body, fb, p)
        ok = True
        for i, bi in enumerate(p[:-1]):
            t = body.blocks[bi]["term"]
            if t["k"] != "switch":
                continue
            v = ev(simplify(org.of_operand(t["x"], bi, "t")), env, fb, body)
            taken = None
            for a_, bb in t["arms"]:
                if int(a_) == int(v):
                    taken = bb
            if taken is None:
                taken = t["otherwise"]
            if taken != p[i + 1]:
                ok = False
                break
        if ok:
            vals.append(ev(simplify(org.of_place({"l": 0, "proj": []}, p[-1], "t")), env, fb, body))
    if len(vals) != 1:
        raise Unknown("%d feasible paths" % len(vals))
    return vals[0]


def ev_roles(o, roles, env):
    """finite-domain evaluation keyed by *roles*: env maps a role string (as printed by lang.Roles) to a value
    (int, bool or ("opt", payload-or-None)); everything else is computed structurally.  Raises Unknown."""
    try:
        r = roles.of_origin(o)
    except Exception:
        r = None
    if r in env:
        return env[r]
    k = o[0]
    if k == "const":
        return o[2]
    if k in ("ref", "deref", "clone"):
        return ev_roles(o[-1], roles, env)
    if k == "cast":
        return ev_roles(o[3], roles, env)
    if k == "un" and o[1] == "Not":
        return not ev_roles(o[2], roles, env)
    if k == "bin":
        a, b = ev_roles(o[2], roles, env), ev_roles(o[3], roles, env)
        if isinstance(a, bool):
            a = int(a)
        if isinstance(b, bool):
            b = int(b)
        if not (isinstance(a, int) and isinstance(b, int)):
            raise Unknown(o)
        op = o[1]
        tab = {"Add": a + b, "Sub": a - b, "Mul": a * b, "Eq": a == b, "Ne": a != b, "Lt": a < b, "Le": a <= b, "Gt": a > b, "Ge": a >= b, "BitAnd": a & b, "BitOr": a | b, "BitXor": a ^ b}
        if op in tab:
            return tab[op]
        raise Unknown(o)
    if k == "agg":
        nm = o[1].rsplit("::", 1)[-1]
        if nm == "Some" and len(o[2]) == 1:
            return ("opt", ev_roles(o[2][0], roles, env))
        if nm == "None":
            return ("opt", None)
        raise Unknown(o)
    if k == "promoted":
        fb = getattr(roles, "fb", None)
        pb = getattr(fb, "promoted", {}).get((o[1], o[2])) if fb is not None else None
        if pb is None:
            raise Unknown(o)
        from .origin import Origins
        po = Origins(pb, fb)
        last = max(i for i, blk in enumerate(pb.blocks) if blk["term"]["k"] == "return")
        return ev_roles(po.of_local(0, last, "t"), roles, env)
    if k == "call" and o[1] in ("core::cmp::PartialEq::eq", "core::cmp::PartialEq::ne") and len(o[2]) == 2:
        a, b = ev_roles(o[2][0], roles, env), ev_roles(o[2][1], roles, env)
        return (a == b) if o[1].endswith("::eq") else (a != b)
    if k == "discr":
        v = ev_roles(o[1], roles, env)
        if isinstance(v, tuple) and v[0] == "opt":
            return 0 if v[1] is None else 1
        raise Unknown(o)
    if k in ("some", "unwrap"):
        v = ev_roles(o[1], roles, env)
        if isinstance(v, tuple) and v[0] == "opt" and v[1] is not None:
            return v[1]
        raise Unknown(o)
    if k == "variant" and o[1] == "Some":
        v = ev_roles(o[2], roles, env)
        if isinstance(v, tuple) and v[0] == "opt" and v[1] is not None:
            return ("tuple1", v[1])
        raise Unknown(o)
    if k == "field" and str(o[1]) == "0":
        v = ev_roles(o[2], roles, env)
        if isinstance(v, tuple) and v[0] == "tuple1":
            return v[1]
        raise Unknown(o)
    raise Unknown(o)


def step_table(body, fb, roles_of_path, head, blocks, domain, events_of, limit=4000):
    """decision table of one loop iteration (or of a loop-free body when head is None): for every point of `domain`
    (a dict role -> value) the set of (event tuple, 'loop' | 'exit') over the feasible acyclic paths.
    roles_of_path(path) -> Roles built on path-precise origins; events_of(block, term, roles) -> label or None."""
    from .interp import normal_cfg
    from .paths import acyclic_paths, simplify
    cfg = normal_cfg(body)
    if head is None:
        paths = [(p, "exit") for p in acyclic_paths(cfg, 0, cfg.returns, limit)]
    else:
        latches = [x for x in blocks if head in cfg.succ[x]]
        exits = sorted({s for x in blocks for s in cfg.succ[x] if s not in blocks})
        paths = [(p, "loop") for p in acyclic_paths(cfg, head, latches, limit) if all(x in blocks for x in p)]
        for e in exits:
            for p in acyclic_paths(cfg, head, [e], limit):
                if all(x in blocks for x in p[:-1]):
                    paths.append((p, "exit"))
    out = {}
    for name, env in domain.items():
        rows = set()
        for p, kind in paths:
            roles = roles_of_path(p)
            org = roles.org
            ok = True
            for i, bi in enumerate(p[:-1]):
                t = body.blocks[bi]["term"]
                if t["k"] != "switch":
                    continue
                try:
                    v = ev_roles(simplify(org.of_operand(t["x"], bi, "t")), roles, env)
                except Unknown:
                    continue
                v = int(v) if isinstance(v, bool) else v
                if not isinstance(v, int):
                    continue
                taken = None
                for a_, bb in t["arms"]:
                    if int(a_) == v:
                        taken = bb
                if taken is None:
                    taken = t["otherwise"]
                if taken != p[i + 1]:
                    ok = False
                    break
            if not ok:
                continue
            evs = []
            for bi in (p if kind == "loop" else p[:-1] if head is not None else p):
                t = body.blocks[bi]["term"]
                if t["k"] == "call":
                    e = events_of(bi, t, roles)
                    if e:
                        evs.append(e)
            rows.add((tuple(evs), kind))
        out[name] = rows
    return out
