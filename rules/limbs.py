"""Limb routines of BigNum: per-iteration conservation laws (A-LIN over path-precise origins),
normalisation and range structure.  See DESIGN.md section 12 (C05.LIMBS)."""
from .cfg import CFG
from .facts import callee_name
from .interp import normal_cfg
from .lang import Roles
from .linear import Lin, Env, lin, interval, recombine, add_predicate, NotLinear, Lossy
from .origin import Origins, show, walk
from .paths import acyclic_paths, PathOriginsOv, simplify
from .util import Vars, reaches_without

B32 = 1 << 32
BN = "number::big_number::BigNum::"
INDEX = ("core::ops::index::Index::index", "core::ops::index::IndexMut::index_mut")


def loops_of(cfg):
    heads = {}
    for be in cfg.back_edges():
        heads.setdefault(be[1], {"tails": [], "blocks": set()})
        heads[be[1]]["tails"].append(be[0])
        heads[be[1]]["blocks"] |= cfg.natural_loop(be)
    return heads


def innermost(heads):
    out = {}
    for h, d in heads.items():
        if not any(h2 != h and h2 in d["blocks"] for h2 in heads):
            out[h] = d
    return out


class LimbBody:
    def __init__(self, fb, name, params):
        self.fb = fb
        _FB[0] = fb
        self.b = fb.bodies.get(name)
        self.params = params
        if self.b is None:
            return
        b = self.b
        self.cfg = normal_cfg(b)
        self.vars = Vars(b)
        self.org0 = Origins(b, fb)
        # the result vector: the local initialised by vec![0; n]
        self.V = None
        for bi, t in b.calls():
            if callee_name(t["f"], fb) in ("alloc::vec::from_elem", "std::vec::from_elem") and not t["dest"]["proj"]:
                k = t["dest"]["l"]
                # the named local it is moved into
                for l, ds in self.vars.defs.items():
                    if l in b.local_names() and len(ds) == 1 and ds[0][0] == "assign":
                        r = ds[0][3]["r"]
                        if r["k"] == "use" and r["x"].get("p", {}).get("l") == k:
                            self.V = l
                if self.V is None:
                    self.V = k
                self.Vinit = self.org0.of_operand(t["args"][0], bi, "t"), self.org0.of_operand(t["args"][1], bi, "t")
        self.heads = loops_of(self.cfg)

    # -------------------------------------------------------------------------------------------
    def array_key(self, o):
        """name of the array an index expression reads from"""
        # V ?
        for x in walk(o):
            if isinstance(x, tuple) and x[0] == "call" and x[1] in ("alloc::vec::from_elem", "std::vec::from_elem"):
                return "V"
        if o[0] == "arg":
            return self.params.get(o[1], "arg%d" % o[1])
        if o[0] == "phi":
            return "PHI(%s)" % "|".join(sorted(self.array_key(a) for a in o[1]))
        if o[0] == "field" and o[2][0] == "phi":
            return "SEL.%s" % o[1]
        if o[0] == "field":
            return "%s.%s" % (self.array_key(o[2]), o[1])
        if o[0] == "agg":
            return "TUPLE"
        return show(o)[:40]

    def iter_name(self, o, names):
        """loop index variables: Some(next(iter))"""
        if o[0] == "some" and o[1][0] == "call" and o[1][1] == "core::iter::traits::iterator::Iterator::next":
            key = repr(o[1][2])
            if key not in names:
                names[key] = "i%d" % len(names)
            return names[key]
        return None

    def analyse_path(self, p, cell_ranges, subst_zero_ahead):
        """walk one iteration path; returns dict with stores (cell -> (first_old_read, final Lin)), env, problems"""
        b, fb = self.b, self.fb
        org = PathOriginsOv(b, fb, p)
        names = {}
        store = {}  # (array, idxkey) -> Lin current value
        order = []
        idx_of = {}
        me = self

        def cell_of(o):
            """(array, idx Lin) when o is an element read/ref: slice index projection or Index::index call"""
            if o[0] == "index":
                base, idx = o[1], o[2]
            elif o[0] == "call" and o[1] in INDEX and len(o[2]) == 2:
                base, idx = o[2]
            else:
                return None
            try:
                il = lin(idx, env_idx)
            except (NotLinear, Lossy):
                return None
            return (me.array_key(base), il)

        def name_idx(o):
            if o[0] == "field" and o[1] == "0" and o[2][0] == "some":
                n = me.iter_name(o[2], names)
                if n is not None:
                    return n
            n = me.iter_name(o, names)
            return n

        env_idx = Env(lambda o: name_idx(o), lambda a: (0, (1 << 31)))

        def enum_parts(o):
            """(index name, array key) when o is a field of an `iter().enumerate()` element"""
            if o[0] == "field" and o[1] in ("0", "1") and o[2][0] == "some" and o[2][1][0] == "call" and o[2][1][1] == "core::iter::traits::iterator::Iterator::next":
                it = o[2][1][2][0]
                if it[0] == "call" and it[1] == "core::iter::traits::iterator::Iterator::enumerate":
                    src = it[2][0]
                    while src[0] == "call" and src[1] in ("core::slice::<impl [T]>::iter", "[T]::iter", "core::iter::traits::collect::IntoIterator::into_iter") and src[2]:
                        src = src[2][0]
                    return me.iter_name(o[2], names), me.array_key(src)
            return None

        def read(o):
            ep = enum_parts(o)
            if ep is not None:
                nm, arr = ep
                if o[1] == "0":
                    return nm
                key = (arr, Lin({nm: 1}).key())
                idx_of[key] = Lin({nm: 1})
                return "%s[%s]" % (arr, Lin({nm: 1}))
            n = me.iter_name(o, names)
            if n is not None:
                return n
            c = cell_of(o)
            if c is None:
                return None
            key = (c[0], c[1].key())
            idx_of[key] = c[1]
            if key in store:
                return store[key]
            return "%s[%s]" % (c[0], c[1])

        def cell_range(a):
            if isinstance(a, str):
                if a.startswith("i") and a[1:].isdigit():
                    return (0, 1 << 31)
                arr = a.split("[", 1)[0]
                return cell_ranges(arr, a)
            return None

        env = Env(None, cell_range)

        def name_cell(o):
            r = read(o)
            return r

        # Lin-valued reads need support in lin(): wrap
        def name_cell2(o):
            r = read(o)
            if isinstance(r, Lin):
                # encode as pseudo-atom resolved immediately
                return ("LIN", r)
            return r

        env.name_cell = name_cell2
        problems = []
        for i, bi in enumerate(p):
            blk = b.blocks[bi]
            for si, s in enumerate(blk["stmts"]):
                if s["k"] != "assign" or "deref" not in s["p"]["proj"]:
                    continue
                pr = s["p"]["proj"]
                if len(pr) == 2 and pr[0] == "deref" and isinstance(pr[1], dict) and "i" in pr[1]:
                    # a store into an element of a slice (`v[i] = x` with v: &mut [u32], e.g. in a helper that was handed `&mut v`)
                    dst = ("index", org.of_place({"l": s["p"]["l"], "proj": []}, bi, si), org.of_place({"l": pr[1]["i"], "proj": []}, bi, si))
                else:
                    dst = org.of_place({"l": s["p"]["l"], "proj": []}, bi, si)
                c = cell_of(dst)
                if c is None or c[0] != "V":
                    continue
                key = (c[0], c[1].key())
                idx_of[key] = c[1]
                try:
                    val = _lin(org.of_rvalue(s["r"], bi, si), env)
                    val = recombine(val, env)
                except Lossy as e:
                    problems.append(("lossy", str(e), s["span"]["at"]))
                    continue
                except NotLinear as e:
                    problems.append(("nonlinear", str(e), s["span"]["at"]))
                    continue
                if key not in store:
                    order.append(key)
                store[key] = val
            if i + 1 < len(p):
                t = blk["term"]
                if t["k"] == "switch" and t["xty"] == "bool":
                    nxt = p[i + 1]
                    vals = [int(v) for v, bb in t["arms"] if bb == nxt]
                    truth = (vals[0] != 0) if vals else (0 in {int(v) for v, _ in t["arms"]})
                    cond = simplify(org.of_operand(t["x"], bi, "t"))
                    try:
                        _add_pred(env, cond, truth)
                    except (NotLinear, Lossy):
                        pass
        return {"store": store, "idx": idx_of, "env": env, "problems": problems, "names": names}


def _lin(o, env):
    """lin() with support for reads that resolve to an already stored linear value"""
    from . import linear

    orig = env.name_cell

    class W:
        pass

    def patched(o2):
        r = orig(o2)
        return r

    # monkey-free approach: pre-substitute by recursion
    return _lin_rec(o, env)


def _lin_rec(o, env):
    r = env.name_cell(o)
    if isinstance(r, tuple) and r and r[0] == "LIN":
        return r[1]
    if r is not None:
        if r in env.subst:
            return Lin(const=env.subst[r])
        return Lin({r: 1})
    k = o[0]
    if k == "const":
        return lin(o, env)
    if k == "named":
        v = _named_const(o[1])
        if v is None:
            raise NotLinear("named constant %s" % o[1])
        return Lin(const=v)
    if k == "cast":
        x = _lin_rec(o[3], env)
        lo, hi = interval(x, env)
        from .linear import ty_range
        tr = ty_range(o[2])
        if tr is None:
            raise NotLinear("cast to %s" % o[2])
        if lo < tr[0] or hi > tr[1]:
            raise Lossy("cast %s -> %s of a value in [%d, %d]" % (o[1], o[2], lo, hi))
        return x
    if k == "bin":
        # rebuild with evaluated children through a tiny adapter environment
        op = o[1]
        if op in ("Add", "Sub", "AddWithOverflow", "SubWithOverflow"):
            l, r2 = _lin_rec(o[2], env), _lin_rec(o[3], env)
            return l + r2 if op.startswith("Add") else l - r2
        if op == "Shl":
            l, r2 = _lin_rec(o[2], env), _lin_rec(o[3], env)
            if r2.is_const():
                return l.scale(1 << r2.const)
            if l.is_const() and l.const == 1 and len(r2.terms) == 1 and r2.const == 0 and list(r2.terms.values()) == [1]:
                atom = "BIT(%s)" % list(r2.terms)[0]
                env.ranges[atom] = (1, 1 << 31)
                return Lin({atom: 1})
            raise NotLinear("shift by a non-constant")
        if op in ("Mul", "MulWithOverflow"):
            l, r2 = _lin_rec(o[2], env), _lin_rec(o[3], env)
            if l.is_const():
                return r2.scale(l.const)
            if r2.is_const():
                return l.scale(r2.const)
            if len(l.terms) == 1 and len(r2.terms) == 1 and l.const == 0 and r2.const == 0:
                (a1, c1), (a2, c2) = list(l.terms.items())[0], list(r2.terms.items())[0]
                x, y = sorted([a1, a2], key=repr)
                atom = "MUL(%s,%s)" % (x, y)
                r1, rr2 = env.rng(a1), env.rng(a2)
                cands = [r1[0] * rr2[0], r1[0] * rr2[1], r1[1] * rr2[0], r1[1] * rr2[1]]
                env.ranges[atom] = (min(cands), max(cands))
                return Lin({atom: c1 * c2})
            raise NotLinear("product of two non-atomic expressions")
        if op in ("Shr", "BitAnd"):
            l, r2 = _lin_rec(o[2], env), _lin_rec(o[3], env)
            if op == "BitAnd" and l.is_const() and not r2.is_const():
                l, r2 = r2, l
            if r2.is_const() and op == "Shr" and r2.const >= 0:
                return _lin_rec(("bin", "Div", o[2], ("const", "u64", 1 << r2.const)), env)
            if r2.is_const() and op == "BitAnd" and r2.const > 0 and (r2.const & (r2.const + 1)) == 0:
                src = o[2] if _lin_rec(o[3], env).is_const() else o[3]
                return _lin_rec(("bin", "Rem", src, ("const", "u64", r2.const + 1)), env)
            raise NotLinear("bit operation %s" % op)
        if op in ("Div", "Rem"):
            l, r2 = _lin_rec(o[2], env), _lin_rec(o[3], env)
            if not r2.is_const() or r2.const <= 0:
                raise NotLinear("division by a non-constant")
            lo, hi = interval(l, env)
            if lo < 0:
                raise NotLinear("division of a possibly negative value")
            Cc = r2.const
            if l.is_const():
                return Lin(const=l.const // Cc if op == "Div" else l.const % Cc)
            if hi < Cc:
                return Lin() if op == "Div" else l
            atom = ("DIV" if op == "Div" else "MOD", l.key(), Cc)
            env.ranges[atom] = (lo // Cc, hi // Cc) if op == "Div" else (0, Cc - 1)
            env.ranges.setdefault(("EXPR", l.key(), Cc), l)
            return Lin({atom: 1})
        raise NotLinear("operator %s" % op)
    if k == "field" and o[1] == "0" and o[2][0] == "bin":
        return _lin_rec(o[2], env)
    raise NotLinear("expression %s" % show(o)[:80])


_FB = [None]


def _named_const(path):
    """integer value of a named constant (const BASE: u64 = 1 << 32), evaluated from its MIR"""
    fb = _FB[0]
    if fb is None:
        return None
    cb = fb.by_path.get(path)
    if cb is None:
        return None
    try:
        o = Origins(cb, fb)
        last = max(i for i, blk in enumerate(cb.blocks) if blk["term"]["k"] == "return")
        v = _lin_rec(o.of_local(0, last, "t"), Env(lambda x: None, lambda a: None))
        return v.const if v.is_const() else None
    except Exception:
        return None


def _add_pred(env, cond, truth):
    if cond[0] != "bin" or cond[1] not in ("Lt", "Le", "Gt", "Ge", "Eq", "Ne"):
        return
    l, r = _lin_rec(cond[2], env), _lin_rec(cond[3], env)
    d = l - r
    op = cond[1]
    if not truth:
        op = {"Lt": "Ge", "Le": "Gt", "Gt": "Le", "Ge": "Lt", "Eq": "Ne", "Ne": "Eq"}[op]
    base = Lin(d.terms, 0)
    c = -d.const
    if op == "Lt":
        env.bounds.append((base, None, c - 1))
    elif op == "Le":
        env.bounds.append((base, None, c))
    elif op == "Gt":
        env.bounds.append((base, c + 1, None))
    elif op == "Ge":
        env.bounds.append((base, c, None))
    elif op == "Eq":
        env.bounds.append((base, c, c))
        if len(base.terms) == 1:
            (a, k), = base.terms.items()
            if isinstance(a, str) and c % k == 0:
                env.subst[a] = c // k


def iteration_paths(L, head, info):
    """acyclic paths head -> back-edge tails inside the loop"""
    sub = CFG(L.b, removed_blocks=set(range(len(L.b.blocks))) - info["blocks"], pruned_edges=L.cfg.pruned)
    out = []
    for t in info["tails"]:
        out.extend(acyclic_paths(sub, head, [t]))
    return out


def conservation(L, R, key, what, head, info, sigma_new1, sigma_old0, old1_coef, expected, cell_ranges, weight=B32):
    """check  new[k0] + sigma_new1*B*new[k0+1] + sigma_old0*old[k0] + old1_coef*B*old[k0+1] == expected(atoms)
    on every path of one iteration.  expected: function(names, path-info) -> Lin or None (= derive & report)"""
    b = L.b
    where = b.blocks[head]["term"]["span"]["at"]
    paths = iteration_paths(L, head, info)
    if not R.anchor(bool(paths), key + ":paths", "iteration paths of " + what, where):
        return
    n_ok = 0
    for pi, p in enumerate(paths):
        res = L.analyse_path(p, cell_ranges, True)
        if res["problems"]:
            kind, msg, at = res["problems"][0]
            R.fail("%s:path%d:%s" % (key, pi, kind), "%s: a stored limb cannot be shown to be the exact arithmetic value (%s: %s)" % (what, kind, msg), at)
            continue
        store, idx = res["store"], res["idx"]
        vkeys = [k for k in store if k[0] == "V"]
        if not vkeys:
            # an iteration that stores nothing: conservation requires the expected contribution to be zero
            exp = expected(res)
            ok = exp is not None and not exp.terms and exp.const == 0
            R.check(ok, "%s:path%d:nostore" % (key, pi), "%s: an iteration that stores no limb must contribute nothing (expected contribution %s)" % (what, exp), where)
            continue
        # base cell: the one with the smallest constant offset
        base = min(vkeys, key=lambda k: idx[k].const)
        k0 = idx[base]
        delta = Lin()
        bad_off = None
        for k in vkeys:
            off_l = idx[k] - k0
            if off_l.terms or off_l.const not in (0, 1):
                bad_off = off_l
                break
            off = off_l.const
            new = store[k]
            old_atom = "V[%s]" % idx[k]
            if off == 0:
                delta = delta + new + Lin({old_atom: sigma_old0})
            else:
                delta = delta + new.scale(sigma_new1 * weight) + Lin({old_atom: old1_coef * weight})
        if bad_off is not None:
            R.fail("%s:path%d:offset" % (key, pi), "%s: stores limbs at unexpected relative positions (%s)" % (what, bad_off), where)
            continue
        # untouched upper cell: contributes its old value on both sides -> cancels; nothing to add
        delta = recombine(delta, res["env"])
        # apply path substitutions (cells known to equal a constant on this path)
        exp = expected(res)
        if exp is None:
            R.fail("%s:path%d:expected" % (key, pi), "%s: operand digits of the iteration not found" % what, where)
            continue
        diff = recombine(delta - exp, res["env"])
        # substitute known-constant atoms
        t2 = {}
        c2 = diff.const
        for a, c in diff.terms.items():
            if a in res["env"].subst:
                c2 += c * res["env"].subst[a]
            elif isinstance(a, str) and a.startswith("MUL(") and any(("%s," % z in a or ",%s)" % z in a) and res["env"].subst[z] == 0 for z in res["env"].subst):
                pass  # product with a factor known to be zero
            else:
                t2[a] = c
        diff = Lin(t2, c2)
        ok = not diff.terms and diff.const == 0
        if ok:
            n_ok += 1
            R.ok("%s:path%d" % (key, pi), "%s: on this path the stored limbs conserve the value: new digits + carry/borrow = %s" % (what, exp), where)
        else:
            R.fail("%s:path%d" % (key, pi), "%s: the stored limbs do not conserve the value on one path: (new digits, carry) - (old digits) - (%s) = %s" % (what, exp, diff), where, {"delta": repr(delta), "expected": repr(exp)})
    return n_ok
