"""Template witness crate: the emitted prelude (both variants) and one function per template, with
placeholders instantiated by named constants, assembled from templates recovered from MIR.
rustc type-checks it against the number-only build of /repo; the driver dumps its MIR."""
import hashlib, json, os, shutil, subprocess
from . import engine
from .cfg import CFG
from .facts import callee_name, FactBase
from .lang import Roles
from .origin import Origins, show, walk
from .templates import templates_of, decode, Template, TemplateError
from .util import reaches_without

COMPILE = "hyeong::core::compile::"


class WitnessError(Exception):
    pass


def opt_switches(body, fb, org):
    """(switch block, true successor, false successor) for switches on `level != 0`"""
    out = []
    for bi, blk in enumerate(body.blocks):
        t = blk["term"]
        if blk["cleanup"] or t["k"] != "switch" or t["xty"] != "bool":
            continue
        o = org.of_operand(t["x"], bi, "t")
        truth_flip = False
        if o[0] == "bin" and o[1] in ("Ne", "Eq") and o[2][0] == "arg" and o[3][0] == "const" and o[3][2] == 0:
            if o[1] == "Eq":
                truth_flip = True
            f = [bb for v, bb in t["arms"] if v == "0"]
            tr = t["otherwise"]
            if f:
                out.append((bi, f[0], tr) if truth_flip else (bi, tr, f[0]))
    return out


def resolve_alternatives(body, fb, org, tpl, opt):
    """for a template whose arguments are phis over `if opt {..} else {..}`: the argument origins under opt=True/False"""
    cfg = CFG(body)
    sws = opt_switches(body, fb, org)
    arr_op = tpl.term["args"][1]
    # the array aggregate statement
    arr = org.of_operand(arr_op, tpl.block, "t")
    res = []
    # walk to the locals holding the formatted references
    arr_local = _follow_to_agg(body, org, arr_op)
    if arr_local is None:
        raise WitnessError("argument array of the prelude template not found")
    bi, si, s = arr_local
    for f in s["r"]["fields"]:
        # f = move _argN ; _argN = Argument::new_display(move _refN) ; _refN = &(*_x) ...
        call = _def_call(body, org, f)
        if call is None:
            raise WitnessError("formatting argument is not Argument::new_*")
        cb, ct = call
        val_op = ct["args"][0]
        # find the variable holding the &str / String: follow single defs until a multi-def local
        l = _follow_to_multi(body, org, val_op)
        if l is None:
            res.append(org.of_operand(val_op, cb, "t"))
            continue
        sites, entry = org.reaching(l, cb, "t")
        chosen = []
        for site in sites:
            db = site[0]
            truth = None
            for (sb, tb, fbk) in sws:
                if not reaches_without(cfg, [0], db, cut_edges=[(sb, tb)]):
                    truth = True
                elif not reaches_without(cfg, [0], db, cut_edges=[(sb, fbk)]):
                    truth = False
            if truth is None:
                raise WitnessError("alternative of a prelude placeholder is not selected by the optimisation flag")
            if truth == opt:
                chosen.append(org._site(l, site, 0, ()))
        if len(chosen) != 1:
            raise WitnessError("prelude placeholder has %d alternatives for opt=%s" % (len(chosen), opt))
        res.append(chosen[0])
    return res


def _follow_to_agg(body, org, op):
    cur = op
    for _ in range(12):
        if cur["k"] not in ("copy", "move"):
            return None
        l = cur["p"]["l"]
        ds = org.defs.get(l, [])
        if len(ds) != 1 or ds[0][2] != "assign":
            return None
        bi, si, _, s = ds[0]
        r = s["r"]
        if r["k"] == "agg":
            return (bi, si, s)
        if r["k"] == "use":
            cur = r["x"]
        elif r["k"] in ("ref",):
            cur = {"k": "copy", "p": r["p"]}
        elif r["k"] == "cast":
            cur = r["x"]
        else:
            return None
    return None


def _def_call(body, org, op):
    if op["k"] not in ("copy", "move"):
        return None
    ds = org.defs.get(op["p"]["l"], [])
    if len(ds) == 1 and ds[0][2] == "call":
        return ds[0][0], ds[0][3]
    return None


def _follow_to_multi(body, org, op):
    """the multiply-defined local an operand's value is read from (through refs, copies, tuple fields)"""
    if op["k"] not in ("copy", "move"):
        return None
    place = op["p"]
    for _ in range(20):
        proj = [e for e in place["proj"] if e != "deref"]
        l = place["l"]
        ds = org.defs.get(l, [])
        if not proj and len(ds) >= 2:
            return l
        if len(ds) != 1 or ds[0][2] != "assign":
            return None
        r = ds[0][3]["r"]
        if proj:
            if len(proj) == 1 and isinstance(proj[0], dict) and "f" in proj[0] and r["k"] == "agg" and r["agg"] == "tuple":
                f = r["fields"][proj[0]["f"]]
                if f["k"] not in ("copy", "move"):
                    return None
                place = f["p"]
                continue
            return None
        if r["k"] == "use" and r["x"]["k"] in ("copy", "move"):
            place = r["x"]["p"]
        elif r["k"] == "ref":
            place = r["p"]
        else:
            return None
    return None


def render_value(o, fb, body, names):
    """text of a prelude alternative: literal, String::from(literal) or a nested format!"""
    if o[0] == "const" and isinstance(o[2], str):
        return o[2]
    if o[0] == "call" and o[1] in ("core::convert::From::from", "alloc::string::ToString::to_string") and o[2] and o[2][0][0] == "const":
        return o[2][0][2]
    if o[0] == "call" and o[1] in ("alloc::fmt::format", "std::fmt::format") or (o[0] == "call" and o[1].endswith("fmt::format")):
        a = o[2][0]
        if a[0] == "call" and a[1] == "std::fmt::Arguments::new":
            pieces = decode(a[2][0][2])
            arr = a[2][1]
            vals = [x[2][0] for x in arr[2]]
            return "".join(p[1] if p[0] == "lit" else names(vals[p[1]]) for p in pieces)
    if o[0] == "call" and o[1] == "core::hint::must_use":
        return render_value(o[2][0], fb, body, names)
    raise WitnessError("cannot render prelude alternative: %s" % show(o)[:100])


CONSTS = """pub const HANGUL: usize = 3;
pub const DOT: usize = 5;
pub const COUNT: isize = 15;
pub const AREACOUNT: isize = 15;
pub const LABEL_ID: u128 = 242;
pub const STACKS: usize = 8;
pub const BLOCKS: usize = 4;
pub const BLOCK: usize = 1;
pub const STACK_IDX: usize = 4;
pub const CURSTACK: usize = 3;
"""


class Witness:
    def __init__(self, fb):
        self.fb = fb
        self.meta = {"functions": {}, "bindings": {}, "templates": {}}
        self.problems = []

    def placeholder_name(self, role, following=""):
        m = {
            "HANGUL": "HANGUL", "DOT": "DOT", "(HANGUL Mul DOT)": "COUNT", "(DOT Mul HANGUL)": "COUNT", "AREACOUNT": "AREACOUNT",
        }
        return m.get(role)

    def build(self):
        fb = self.fb
        cmd = fb.bodies.get(COMPILE + "command")
        area = fb.bodies.get(COMPILE + "area")
        bs = fb.bodies.get(COMPILE + "build_source")
        if cmd is None or area is None or bs is None:
            raise WitnessError("compile::command / area / build_source not found")
        # ---- command templates, by kind
        croles = Roles(cmd, fb, param_roles={1: "INDENT", 2: "CMD"})
        ctpls = templates_of(cmd, fb, croles.org)
        kind_of = self._kinds(cmd, fb, croles, ctpls)
        cmds = {}
        for t in ctpls:
            k = kind_of.get(t.block)
            if k is None:
                continue
            binds = {}

            def sub(i, o, t=t, binds=binds):
                r = croles.of_origin(o)
                if r.startswith("compile::make_indent("):
                    return "    "
                nm = self.placeholder_name(r)
                if nm is None:
                    raise WitnessError("command template placeholder bound to an unclassified value: %s" % r[:80])
                binds[i] = r
                return nm

            cmds[k] = (t.text(sub), dict(binds), t)
        if sorted(cmds) != [0, 1, 2, 3, 4, 5]:
            raise WitnessError("command templates found for kinds %s (expected 0..5)" % sorted(cmds))
        # ---- area pieces
        aroles = Roles(area, fb, param_roles={1: "INDENT", 2: "AREA", 3: "AREACOUNT"})
        atpls = templates_of(area, fb, aroles.org)
        self.meta["area_template_count"] = len(atpls)
        pieces = {}
        for t in atpls:
            sk = t.skeleton()
            if "partial_cmp" in sk or sk.lstrip().startswith("match "):
                pieces.setdefault("opener", []).append(t)
            elif "point" in sk:
                pieces.setdefault("label", []).append(t)
            elif "last" in sk:
                pieces.setdefault("heart", []).append(t)
            elif "=>" in sk:
                pieces.setdefault("else", []).append(t)
            elif sk.strip("\n {}0123456789") == "" and sk.count("}") - sk.count("{") + sk.count("{0}") * 1 >= 0:
                pieces.setdefault("closer", []).append(t)
            else:
                pieces.setdefault("unknown", []).append(t)
        self.meta["area_pieces"] = {k: [x.skeleton() for x in v] for k, v in pieces.items()}
        for need in ("opener", "label", "heart", "else", "closer"):
            if len(pieces.get(need, [])) != 1:
                raise WitnessError("area emitter: expected exactly one %s piece, found %d (%s)" % (need, len(pieces.get(need, [])), self.meta["area_pieces"]))
        if pieces.get("unknown"):
            raise WitnessError("area emitter has an unclassified template: %r" % pieces["unknown"][0].skeleton()[:80])

        def asub(ord_name):
            def sub(i, o):
                r = aroles.of_origin(o)
                if r.startswith("compile::make_indent("):
                    return "    "
                if r == "AREACOUNT":
                    return "AREACOUNT"
                if r.startswith("PHI(K'") and "Less" in r and "Equal" in r:
                    return ord_name
                if "Shl K4" in r:
                    self.meta["bindings"]["label_id"] = r
                    return "LABEL_ID"
                raise WitnessError("area template placeholder bound to an unclassified value: %s" % r[:100])
            return sub

        def fix_u128(txt):
            return txt.replace("LABEL_IDu128", "LABEL_ID")

        area_fn = {}
        for ordn in ("Less", "Equal"):
            body_txt = pieces["opener"][0].text(asub(ordn)) + fix_u128(pieces["label"][0].text(asub(ordn))) + pieces["else"][0].text(asub(ordn)) + pieces["heart"][0].text(asub(ordn)) + pieces["closer"][0].text(asub(ordn))
            area_fn[ordn] = body_txt
        # which ordering goes with which operator: the constant assigned under type_ == 0
        self.meta["bindings"]["ordering"] = self._ordering_binding(area, fb, aroles)
        # ---- build_source: prelude variants and skeleton pieces
        broles = Roles(bs, fb, param_roles={1: "STATE", 2: "CODE", 3: "LEVEL"})
        btpls = templates_of(bs, fb, broles.org)
        prelude = [t for t in btpls if "struct Stack" in t.skeleton()]
        if len(prelude) != 1:
            raise WitnessError("prelude template not found")
        pre = prelude[0]

        def names(o):
            r = broles.of_origin(o)
            if r.startswith("State::stack_size("):
                return "STACKS"
            raise WitnessError("prelude value bound to an unclassified expression: %s" % r[:80])

        variants = {}
        for opt in (True, False):
            alts = resolve_alternatives(bs, fb, broles.org, pre, opt)
            txt = "".join(p[1] if p[0] == "lit" else render_value(alts[p[1]], fb, bs, names) for p in pre.pieces)
            variants[opt] = txt
        # restore / skeleton statements
        stm = {}
        for t in btpls:
            sk = t.skeleton()
            for key, pat in (("restore", "stack.data["), ("cur", "cur = "), ("last", "last = Option::"), ("some", "Some("), ("point", "point.insert("), ("state", "    state = "), ("while", "while state < "), ("if", "if state < "), ("else", "} else {")):
                if pat in sk and "struct Stack" not in sk:
                    stm.setdefault(key, []).append(t)
        close = [t for t in btpls if t.skeleton().strip(" \n{0}") == "}" and "else" not in t.skeleton()]
        self.meta["skeleton"] = {k: [x.skeleton() for x in v] for k, v in stm.items()}
        for need in ("restore", "cur", "last", "some", "point", "state", "while", "if", "else"):
            if len(stm.get(need, [])) != 1:
                raise WitnessError("build_source: expected exactly one `%s` template, found %d" % (need, len(stm.get(need, []))))
        self.bs_templates = stm
        self.bs_roles = broles
        # plain string pieces appended with push_str
        tails = []
        org = broles.org
        for bi, t in bs.calls():
            if callee_name(t["f"], fb) == "std::string::String::push_str":
                o = org.of_operand(t["args"][1], bi, "t")
                if o[0] == "const" and isinstance(o[2], str):
                    tails.append(o[2])
        self.meta["tails"] = tails
        if not any("state += 1;" in x for x in tails) or not any(x.strip() == "}" for x in tails):
            raise WitnessError("closing pieces of the emitted main loop not found: %r" % tails)
        loop_tail = [x for x in tails if "state += 1;" in x][0]
        main_tail = [x for x in tails if x.strip() == "}"][0]
        # fn_print / fn_eprint
        prints = {}
        for nm in ("fn_print", "fn_eprint"):
            b = fb.bodies.get(COMPILE + nm)
            if b is None:
                raise WitnessError(nm + " not found")
            r = Roles(b, fb, param_roles={1: "INDENT", 2: "TEXT"})
            ts = templates_of(b, fb, r.org)
            if len(ts) != 1 or ts[0].kinds != ["display", "debug"]:
                raise WitnessError("%s: expected one template with (indent, {:?} text)" % nm)
            prints[nm] = ts[0].text(lambda i, o: "    " if i == 0 else json.dumps("sample {0} }{ \\ \" text\n"))
        self.meta["prints"] = {k: v for k, v in prints.items()}
        # ---- assemble
        src = ["#![allow(warnings)]", "use hyeong::number::big_number::BigNum;", "use hyeong::number::num::Num;", "use std::collections::HashMap;", CONSTS]
        for opt in (True, False):
            txt = variants[opt]
            if "\nfn main() {" not in txt:
                raise WitnessError("emitted prelude has no `fn main() {`")
            head, main_pre = txt.split("\nfn main() {", 1)
            head = "\n".join(l for l in head.split("\n") if not l.startswith("#![") and not l.startswith("use "))
            mod = "v1" if opt else "v0"
            parts = ["pub mod %s {" % mod, "use super::*;", head]
            for k in range(6):
                parts.append("pub fn cmd%d(stack: &mut Stack, mut cur: usize) -> usize {%s\n    cur\n}" % (k, cmds[k][0]))
            for ordn in ("Less", "Equal"):
                parts.append(
                    "pub fn area_%s(stack: &mut Stack, mut cur: usize, point: &mut HashMap<u128, usize>, mut state: usize, mut last: Option<usize>) -> (usize, Option<usize>) {\n    while state < BLOCKS {%s%s\n    (state, last)\n}"
                    % (ordn.lower(), area_fn[ordn], loop_tail)
                )
            # skeleton of main: preamble lets + while + one two-way dispatch + tail
            def bsub(i, o):
                r = broles.of_origin(o)
                if r.startswith("compile::make_indent("):
                    return "        "
                return "BLOCKS" if r.startswith("Vec::len(") and "Sub" not in r else "BLOCK"
            sk = main_pre
            for key in ("fn_print", "fn_eprint"):
                sk += prints[key]
            if opt:
                sk += stm["restore"][0].text(lambda i, o: "STACK_IDX" if i == 0 else '"1/2", "-3", "너무 커엇...", ')
                sk += stm["cur"][0].text(lambda i, o: "CURSTACK")
                sk += stm["last"][0].text(lambda i, o: "None")
                sk += stm["last"][0].text(lambda i, o: stm["some"][0].text(lambda j, o2: "BLOCK"))
                sk += stm["point"][0].text(lambda i, o: "LABEL_ID" if i == 0 else "BLOCK").replace("LABEL_IDu128", "LABEL_ID")
                sk += stm["state"][0].text(lambda i, o: "BLOCK")
            sk += stm["while"][0].text(lambda i, o: "BLOCKS")
            sk += stm["if"][0].text(bsub)
            sk += "\n            let mut n = Num::zero(); stack.push(cur, n);"
            sk += stm["else"][0].text(bsub)
            sk += "\n            cur = DOT;"
            sk += [t for t in close][0].text(bsub) if close else "\n        }"
            sk += loop_tail + main_tail
            parts.append("pub fn skeleton() {" + sk)
            parts.append("}")
            src.append("\n".join(parts))
        self.meta["command_bindings"] = {str(k): v[1] for k, v in cmds.items()}
        return "\n".join(src) + "\n"

    def _kinds(self, cmd, fb, roles, tpls):
        """template block -> command kind, from the switch on get_type()"""
        from .interp import kind_switch
        sb, st = kind_switch(cmd, fb)
        if sb is None:
            raise WitnessError("compile::command does not dispatch on Code::get_type()")
        cfg = CFG(cmd)
        arms = {int(v): bb for v, bb in st["arms"]}
        arms[5] = st["otherwise"]
        if sorted(arms) != [0, 1, 2, 3, 4, 5]:
            raise WitnessError("compile::command: kinds %s" % sorted(arms))
        out = {}
        for t in tpls:
            for k, bb in arms.items():
                others = [(sb, b2) for k2, b2 in arms.items() if k2 != k]
                if reaches_without(cfg, [bb], t.block) and not reaches_without(cfg, [0], t.block, cut_edges=[(sb, bb)]):
                    out[t.block] = k
        return out

    def _ordering_binding(self, area, fb, roles):
        """{'Less': operator type, 'Equal': ...}: which constant is chosen when *type_ == 0"""
        from .interp import Events
        cfg = CFG(area)
        ev = Events(area, fb, roles=roles)
        res = {}
        for bi, blk in enumerate(area.blocks):
            for s in blk["stmts"]:
                if s["k"] == "assign" and s["r"]["k"] == "use" and s["r"]["x"].get("str") in ("Less", "Equal"):
                    from .util import dominating_edge_labels
                    from .gea import normalise_guards
                    labs = [l for l in dominating_edge_labels(cfg, area, ev, bi) if "type_" in l]
                    ng = normalise_guards(labs) or ()
                    res[s["r"]["x"]["str"]] = ["%s%s(%s,%s)" % ("" if t else "!", k, a.rsplit("@", 1)[-1], b_) for k, a, b_, t in ng if a.endswith("type_")]
        return res


def build_and_extract(ctx):
    """-> (FactBase of the witness crate or None, meta, error text or None).  Several checks (C03, C07, C09, C14) use
    the witness crate and may be started at the same time: building and reading it is serialised by a file lock."""
    import fcntl
    os.makedirs(engine.CACHE, exist_ok=True)
    lk = open(os.path.join(engine.CACHE, "witness.lock"), "w")
    fcntl.flock(lk, fcntl.LOCK_EX)
    try:
        return _build_and_extract(ctx)
    finally:
        fcntl.flock(lk, fcntl.LOCK_UN)
        lk.close()


def _build_and_extract(ctx):
    fb = ctx.fb
    fdir = ctx.fdir
    wdir = os.path.join(fdir, "witness")
    meta_f = os.path.join(wdir, "meta.json")
    facts_f = os.path.join(wdir, "hvwitness.lib.json")
    ver = _version()
    if os.path.exists(meta_f) and json.load(open(meta_f)).get("_version") != ver:
        shutil.rmtree(wdir, ignore_errors=True)
    if os.path.exists(meta_f):
        meta = json.load(open(meta_f))
        if meta.get("error"):
            return None, meta, meta["error"]
        return _wfb(facts_f), meta, None
    os.makedirs(wdir, exist_ok=True)
    w = Witness(fb)
    try:
        src = w.build()
    except (WitnessError, TemplateError, KeyError, IndexError) as e:
        meta = dict(w.meta, error="template recovery failed: %s: %s" % (type(e).__name__, e), _version=ver)
        json.dump(meta, open(meta_f, "w"), ensure_ascii=False, indent=1)
        return None, meta, meta["error"]
    crate = os.path.join(wdir, "crate")
    os.makedirs(os.path.join(crate, "src"), exist_ok=True)
    open(os.path.join(crate, "src", "lib.rs"), "w", encoding="utf-8").write(src)
    open(os.path.join(crate, "Cargo.toml"), "w").write(
        '[package]\nname = "hvwitness"\nversion = "0.0.0"\nedition = "2018"\n\n[lib]\npath = "src/lib.rs"\n\n[dependencies]\nhyeong = { path = "%s", default-features = false, features = ["number"] }\n\n[workspace]\n' % engine.REPO
    )
    lock = os.path.join(engine.REPO, "Cargo.lock")
    tdir = os.path.join(engine.CACHE, "target-witness")
    rc, out = engine._run_cargo_check(crate, tdir, wdir, "", "hvwitness", ["--lib"], os.path.join(wdir, "cargo.log"))
    meta = dict(w.meta)
    meta["_version"] = ver
    meta["source_lines"] = src.count("\n")
    if rc != 0 or not os.path.exists(facts_f):
        errs = [l for l in out.splitlines() if l.startswith("error") or l.strip().startswith("-->")]
        meta["error"] = "emitted templates do not type-check against the number-only library: " + " | ".join(errs[:8])
        json.dump(meta, open(meta_f, "w"), ensure_ascii=False, indent=1)
        return None, meta, meta["error"]
    json.dump(meta, open(meta_f, "w"), ensure_ascii=False, indent=1)
    return _wfb(facts_f), meta, None


def _version():
    """the witness depends on the generator code in this package as well as on /repo"""
    h = hashlib.sha256()
    d = os.path.dirname(os.path.abspath(__file__))
    for f in ("witness.py", "templates.py", "origin.py", "lang.py", "interp.py", "util.py", "gea.py"):
        with open(os.path.join(d, f), "rb") as fh:
            h.update(fh.read())
    return h.hexdigest()[:16]


def _wfb(facts_f):
    fb = FactBase([facts_f], inline=False)
    # in the witness crate the library under test is an external crate: name its items as the library does
    fb.rewrite = lambda n: n.replace("hyeong::number::", "number::")
    return fb
