"""C10 — optimising never performs the program's effects and always finishes.

Decided statically (DESIGN.md section 4, C10): GUARD, SINKS, TERM.
"""
from .cfg import CFG
from .facts import callee_name, callee_resolved
from .origin import Origins, show, walk
from .util import Vars, comparison_edges, reaches_without

TECHNIQUE = 'static analysis, proof level: whole-program call graph below optimize(); dominance of every effectful pop by the index guard; effect-sink reachability; termination argument per loop (iterator, counter, structural descent, budget) and structural recursion'
LEVEL = "proof"
EXPLANATION = (
    "All-paths static analysis of the type-checked MIR below optimize::optimize(): (GUARD) every call of the "
    "effectful pop routine is dominated, on all CFG paths since the last definition of its index variable, by a "
    "branch outcome implying index > 2; (SINKS) the only process-terminating / stdin-reading / stdout-stderr-writing "
    "callees reachable in the call graph below optimize() sit inside that pop routine behind the index switch arms "
    "0,1,2, and the writers handed to speculative execution are in-memory buffers; (TERM) every loop below "
    "optimize() is a finite iteration, a structural descent, a monotone counter loop or the budgeted speculation "
    "loop, and the only recursion is structural over the area tree. Obligations are per call site / loop / SCC; "
    "the behaviour 'work bounded by program text' is decided up to the size of numeric values (not claimed)."
)
ASSUMPTIONS = [
    "rustc's MIR construction and callee resolution are correct (nightly 1.97, -Zmir-opt-level=0)",
    "unwind/cleanup edges are ignored; a panic below optimize() would write to the real stderr and end the process, so C10.NOPANIC re-runs C13's panic-site audit restricted to what optimize() reaches (mechanical discharge classes plus the audited table of rules/p_c13.py, which is read-and-justified, not proved)",
    "std's Vec<u8>/String/HashMap operations perform no process-level I/O",
    "numeric-core loops (BigNum) terminate for the reasons listed per loop in TERM's audited table",
]
TRUSTED = ["rustc nightly MIR + Instance::try_resolve", "/verif/rules (A-CFG, A-ORG, A-DOM, A-CG)", "sink list in rules/p_c10.py"]

OPTIMIZE = "hyeong::core::optimize::optimize"
POP_WRAP = "hyeong::core::execute::pop_stack_wrap"
PUSH_WRAP = "hyeong::core::execute::push_stack_wrap"


def below_optimize(ctx):
    return ctx.cg.reachable([OPTIMIZE])


def rule_guard(ctx, R):
    fb, cg = ctx.fb, ctx.cg
    reach = below_optimize(ctx)
    R.anchor(OPTIMIZE in fb.bodies, "optimize", "function optimize::optimize")
    R.anchor(POP_WRAP in reach, "pop_wrap", "pop_stack_wrap reachable below optimize()")
    n_sites = 0
    for name in sorted(reach):
        if name == POP_WRAP:
            continue
        body = fb.bodies[name]
        vars_ = Vars(body)
        cfg = CFG(body)
        for bi, t in body.calls():
            if callee_name(t["f"], fb) != POP_WRAP:
                continue
            n_sites += 1
            R.analyse(name)
            idx = t["args"][4]
            key = vars_.key_of_operand(idx)
            site = "%s@%s" % (name.rsplit("::", 2)[-2] + "::" + name.rsplit("::", 1)[-1], vars_.name(key))
            if key is None:
                R.fail("%s:%d" % (name, n_sites), "index argument of the pop routine is not a tracked variable", t["span"]["at"])
                continue
            # edges that establish  index > 2
            guards = comparison_edges(body, vars_, key, lambda v: v > 2)
            # start points: function entry and every definition of the variable
            starts = []
            unguarded = False
            for (db, di) in vars_.def_sites(key):
                blk = body.blocks[db]
                if di == "t":
                    starts.extend(s for s in cfg.succ[db])
                else:
                    # definition inside a block: the rest of the block is straight-line; the guard
                    # can only be on the block's terminator
                    if db == bi:
                        unguarded = True
                    starts.extend(s for s in cfg.succ[db] if (db, s) not in guards)
            if key[0] == "U" or not vars_.def_sites(key) or (key[0] == "L" and key[1] <= body.argc):
                starts.append(0)
            if not unguarded:
                unguarded = reaches_without(cfg, starts, bi, cut_edges=guards)
            # fall back: entry block itself is the site
            R.check(
                not unguarded,
                "%s:pop#%s" % (name, vars_.name(key) + ":" + str(sum(1 for _ in [0]))) if False else "%s:%s:%d" % (name, vars_.name(key), _ordinal(body, bi, fb)),
                "pop_stack_wrap(idx=%s) in %s is reached only through a branch outcome implying %s > 2 (%d guard edges), with no redefinition in between"
                % (vars_.name(key), name, vars_.name(key), len(guards)),
                t["span"]["at"],
                {"guards": guards},
            )
    R.floor("pop_sites_below_optimize", n_sites, 6, "pop_stack_wrap call sites below optimize()")
    # built-in positive control: the interpreter's own sites must be reported unguarded by the same analysis
    ctrl = fb.bodies.get("hyeong::core::execute::execute_one")
    if R.anchor(ctrl is not None, "control", "execute_one (positive control for the guard analysis)"):
        vars_ = Vars(ctrl)
        cfg = CFG(ctrl)
        flagged = 0
        total = 0
        for bi, t in ctrl.calls():
            if callee_name(t["f"], fb) != POP_WRAP:
                continue
            total += 1
            key = vars_.key_of_operand(t["args"][4])
            guards = comparison_edges(ctrl, vars_, key, lambda v: v > 2) if key else []
            starts = [0]
            for (db, di) in vars_.def_sites(key) if key else []:
                starts.extend(cfg.succ[db])
            if key is None or reaches_without(cfg, starts, bi, cut_edges=guards):
                flagged += 1
        if total == 0 or flagged != total:
            R.fail("control", "positive control failed: the guard analysis does not flag execute_one's %d unguarded pops (flagged %d)" % (total, flagged), kind="anchor-lost")
        else:
            R.note("positive control: %d/%d unguarded pops of execute_one flagged" % (flagged, total))


def _ordinal(body, bi, fb):
    """ordinal of a pop call among the pop calls of the body, in source order"""
    sites = sorted((_linecol(t["span"]["at"]), b) for b, t in body.calls() if callee_name(t["f"], fb) == POP_WRAP)
    for i, (_, b) in enumerate(sites):
        if b == bi:
            return i
    return -1


def _linecol(at):
    p = at.rsplit(":", 2)
    return (int(p[1]), int(p[2]))


# ------------------------------------------------------------------------------------------------
SINK_EXACT = {
    "std::process::exit": "terminates the process",
    "std::process::abort": "terminates the process",
    "std::io::stdio::_print": "writes to the process's stdout",
    "std::io::stdio::_eprint": "writes to the process's stderr",
    "std::io::stdio::stdout": "handle to the process's stdout",
    "std::io::stdio::stderr": "handle to the process's stderr",
    "std::io::stdio::Stdin::read_line": "reads the process's stdin",
    "std::io::stdio::Stdin::lock": "reads the process's stdin",
    "std::io::stdio::Stdin::lines": "reads the process's stdin",
    "hyeong::util::io::ReadLine::read_line_": "reads a line from the input handle (real stdin below optimize())",
    "hyeong::util::io::read_line_from": "reads a line from the input handle (real stdin below optimize())",
}
SINK_PREFIX = ["std::fs::", "std::process::Command", "std::net::", "termcolor::", "std::io::stdio::Stdout", "std::io::stdio::Stderr", "std::io::stdio::StdinLock", "std::env::set_", "std::os::", "ctrlc::", "std::thread::", "std::io::Read::", "std::io::BufRead::"]


def sink_reason(name):
    if name in SINK_EXACT:
        return SINK_EXACT[name]
    for p in SINK_PREFIX:
        if name.startswith(p):
            return "I/O or process effect (%s*)" % p
    return None


def rule_sinks(ctx, R):
    fb, cg = ctx.fb, ctx.cg
    reach = below_optimize(ctx)
    popb = fb.bodies.get(POP_WRAP)
    if not R.anchor(popb is not None and POP_WRAP in reach, "pop_wrap", "pop_stack_wrap reachable below optimize()"):
        return
    # call sites of the pop routine that sit behind the index switch arms 0/1/2 are unreachable for
    # index > 2 (C10.GUARD): walk the call graph without them
    guarded = {}
    large = _reachable_for_large_index(popb, fb)
    for bi, t in popb.calls():
        ok, arm = _behind_index_arm(popb, bi)
        if ok:
            guarded[bi] = arm
        elif large is not None and bi not in large:
            guarded[bi] = "index<=2"
    R.floor("guarded_sites_in_pop_wrap", len(guarded), 6, "call sites of pop_stack_wrap behind index arms 0/1/2")
    seen, sites = cg.reachable_sites([OPTIMIZE], lambda name, bi, t: name == POP_WRAP and bi in guarded)
    n_checked = 0
    for name, bi, t, targets, extn in sites:
        R.analyse(name)
        f = t["f"]
        if "indirect" in f:
            continue
        names = {callee_name(f, fb)}
        r = callee_resolved(f, fb)
        if r:
            names.add(r)
        names.update(targets)
        n_checked += 1
        for n in sorted(names):
            why = sink_reason(n)
            if why is None:
                continue
            path = cg.path_to(OPTIMIZE, name)
            R.fail("%s:%s" % (name, n), "effect sink %s (%s) is reachable below optimize() without passing the index switch of the pop routine; call path: %s" % (n, why, " -> ".join(path or [name])), t["span"]["at"])
    R.check(True, "callsites", "%d call sites in %d bodies below optimize() (guarded arms of the pop routine excluded) name no effect sink" % (n_checked, len(seen)))
    # the guarded arms do contain the sinks: positive control + documentation of what GUARD protects
    sink_sites = 0
    full = cg.reachable([OPTIMIZE])
    gsinks = []
    for bi, arm in sorted(guarded.items()):
        t = popb.blocks[bi]["term"]
        sub, subsites = cg.reachable_sites([x for _, b2, t2, tg, _ in [(0, bi, t, [y for b3, t3, tg3, _ in cg.sites[POP_WRAP] if b3 == bi for y in tg3], 0)] for x in tg], lambda *a: False)
        names = {callee_name(t["f"], fb)} | {callee_name(tt["f"], fb) for _, _, tt, _, _ in subsites if "indirect" not in tt["f"]}
        for n in sorted(names):
            if sink_reason(n):
                sink_sites += 1
                gsinks.append("arm %s: %s" % (arm, n))
    R.floor("sink_sites_behind_arms", sink_sites, 3, "effect sinks found behind arms 0/1/2 of pop_stack_wrap (read line, exit x2)")
    R.note("sinks behind the guarded arms: %s" % gsinks)
    # the writers and the state handed to speculative execution
    opt = fb.bodies.get(OPTIMIZE)
    if not R.anchor(opt is not None, "optimize", "optimize::optimize"):
        return
    org = Origins(opt, fb)
    spec_calls = [(bi, t) for bi, t in opt.calls() if any(tt.endswith("::opt_execute") for _, _, tgts, _ in [(0, 0, cg.sites and [x for b2, t2, tg, _ in cg.sites[OPTIMIZE] if b2 == bi for x in tg], 0)] for tt in tgts)]
    if not R.anchor(len(spec_calls) >= 1, "spec_call", "call of the speculative executor in optimize()"):
        return
    for bi, t in spec_calls:
        args = [org.of_operand(a, bi, "t") for a in t["args"]]
        # writers: arguments whose type is a CustomWriter; they must be locals built by CustomWriter::new(closure)
        writers = [(i, a) for i, a in enumerate(args) if "CustomWriter" in t["argtys"][i]]
        R.check(len(writers) == 2, "optimize:writers", "speculative execution receives two in-memory CustomWriter values for out/err (found %d)" % len(writers), t["span"]["at"])
        for i, a in writers:
            ok = a[0] == "call" and a[1].endswith("CustomWriter::new") and a[2] and a[2][0][0] == "agg" and a[2][0][1].startswith("closure:")
            R.check(ok, "optimize:writer%d" % i, "writer argument #%d of the speculative executor is a local CustomWriter::new(closure): %s" % (i, show(a)), t["span"]["at"])
            if ok:
                cpath = a[2][0][1][len("closure:"):]
                cb = fb.by_path.get(cpath)
                ncalls = len(list(cb.calls())) if cb else -1
                R.check(cb is not None and ncalls == 0, "optimize:writer%d:closure" % i, "the print function of writer #%d performs no call at all (%d calls)" % (i, ncalls), cb.span if cb else None)
        # input handle: the real stdin — the reason GUARD matters; recorded, not an obligation
        R.note("input handle passed to speculative execution: %s" % show(args[0]))
    # CustomWriter::write/flush (reachable through the generic writers) only touch the buffer and the print function
    for n in ("<util::io::CustomWriter<T> as std::io::Write>::write", "<util::io::CustomWriter<T> as std::io::Write>::flush"):
        b = fb.bodies.get(n)
        if R.anchor(b is not None, n, "CustomWriter's Write impl"):
            bad = [callee_name(t["f"], fb) for _, t in b.calls() if sink_reason(callee_name(t["f"], fb))]
            R.check(not bad, n, "%s calls no effect sink" % n, b.span, bad)


def _reachable_for_large_index(body, fb):
    """blocks of the pop routine that can execute when its index parameter is > 2: every branch whose condition
    compares the index parameter with a constant is decided for the abstract value `> 2` (idx == c, idx < c,
    idx <= c with c <= 2 are false; switch arms 0..2 are not taken); every other branch keeps both successors"""
    cfg = CFG(body)
    org = Origins(body, fb)
    idx = [i for i in range(1, body.argc + 1) if body.lty(i) == "usize"]
    if len(idx) != 1:
        return None
    IDX = ("arg", idx[0])

    def decide(o):
        # -> True / False / None (unknown)
        if o[0] == "un" and o[1] == "Not":
            r = decide(o[2])
            return None if r is None else (not r)
        if o[0] == "bin" and o[1] in ("Eq", "Ne", "Lt", "Le", "Gt", "Ge"):
            a, b_, op = o[2], o[3], o[1]
            if b_ == IDX and a[0] == "const":
                a, b_ = b_, a
                op = {"Lt": "Gt", "Le": "Ge", "Gt": "Lt", "Ge": "Le"}.get(op, op)
            if a == IDX and b_[0] == "const" and isinstance(b_[2], int):
                c = b_[2]
                if op == "Eq" and c <= 2:
                    return False
                if op == "Ne" and c <= 2:
                    return True
                if op == "Lt" and c <= 3:
                    return False
                if op == "Le" and c <= 2:
                    return False
                if op == "Gt" and c <= 2:
                    return True
                if op == "Ge" and c <= 3:
                    return True
        return None

    seen, st = set(), [0]
    while st:
        b = st.pop()
        if b in seen:
            continue
        seen.add(b)
        t = body.blocks[b]["term"]
        succ = list(cfg.succ[b])
        if t["k"] == "switch":
            o = org.of_operand(t["x"], b, "t")
            if o == IDX:
                if all(int(v) <= 2 for v, _ in t["arms"]):
                    succ = [t["otherwise"]]
            elif t["xty"] == "bool":
                r = decide(o)
                if r is not None:
                    want = 1 if r else 0
                    tgt = [bb for v, bb in t["arms"] if int(v) == want]
                    succ = tgt if tgt else [t["otherwise"]]
        st.extend(x for x in succ if x not in seen)
    return seen


def _behind_index_arm(body, site_block):
    """is `site_block` dominated by one of the explicit arms 0/1/2 of a switch on the index parameter?"""
    cfg = CFG(body)
    vars_ = Vars(body)
    for bi, b in enumerate(body.blocks):
        t = b["term"]
        if t["k"] == "switch" and t["xty"] == "usize":
            key = vars_.key_of_operand(t["x"])
            if key and key[0] == "L" and key[1] <= body.argc and body.lty(key[1]) == "usize":
                for v, tgt in t["arms"]:
                    if int(v) in (0, 1, 2) and tgt != t["otherwise"]:
                        # site reachable only through edge (bi,tgt)?
                        if not reaches_without(cfg, [0], site_block, cut_edges=[(bi, tgt)]):
                            return True, v
    return False, None


# ------------------------------------------------------------------------------------------------
FINITE_ITERS = ("std::ops::Range<", "std::vec::IntoIter<", "std::slice::Iter<", "std::slice::IterMut<", "std::str::Chars<", "std::iter::Rev<", "std::iter::Enumerate<", "std::iter::Map<", "std::str::Split<", "std::collections::hash_map::Iter<", "std::collections::hash_map::Keys<", "std::collections::hash_map::IntoIter<", "std::iter::Copied<", "std::iter::Cloned<", "std::iter::Zip<", "std::iter::Skip<", "std::iter::Take<", "std::iter::StepBy<", "std::ops::RangeInclusive<")

# loops of the numeric core that are neither iterator loops nor simple counter loops; each entry
# names the structural variant that is checked on every path to the back edge
AUDITED_LOOPS = {
    "number::big_number::BigNum::shrink_to_fit": ("call", "std::vec::Vec::pop", "each iteration pops one limb; the vector is finite"),
    "number::big_number::BigNum::gcd": ("call", "core::ops::arith::Rem::rem", "Euclid: b is replaced by a % b on every iteration (|b| strictly decreases, given C05's remainder)"),
    "number::big_number::BigNum::to_string_base": ("call", "core::ops::arith::DivAssign::div_assign", "num /= base on every iteration (base >= 2 outside the documented base-1 exclusion)"),
}


def rule_term(ctx, R):
    fb, cg = ctx.fb, ctx.cg
    reach = below_optimize(ctx)
    nloops = 0
    kinds = {}
    for name in sorted(reach):
        body = fb.bodies[name]
        cfg = CFG(body)
        bes = cfg.back_edges()
        heads = {}
        for be in bes:
            heads.setdefault(be[1], []).append(be)
        for head, edges in sorted(heads.items()):
            nloops += 1
            R.analyse(name)
            loop = set()
            for e in edges:
                loop |= cfg.natural_loop(e)
            kind, why = classify_loop(fb, body, cfg, head, loop, edges)
            kinds[kind] = kinds.get(kind, 0) + 1
            at = body.blocks[head]["term"]["span"]["at"]
            key = "%s:loop@%s" % (name, _loop_key(fb, body, loop))
            R.check(kind != "unknown", key, "loop in %s is %s: %s" % (name, kind, why), at)
    R.floor("loops_below_optimize", nloops, 28, "loops in bodies below optimize()")
    R.note("loop kinds: %s" % kinds)
    # recursion
    for comp in cg.sccs(reach):
        R.analyse("SCC " + ",".join(comp))
        ok = all(_structural_recursion(fb, cg, fb.bodies[n], comp) for n in comp)
        R.check(ok, "scc:" + ",".join(comp), "recursion among %s is structural (every recursive call receives a field of the callee's own argument)" % comp)


def _loop_key(fb, body, loop):
    names = sorted({callee_name(body.blocks[b]["term"]["f"], fb).rsplit("::", 1)[-1] for b in loop if body.blocks[b]["term"]["k"] == "call"})
    return "+".join(names[:6]) or "nocalls"


def classify_loop(fb, body, cfg, head, loop, edges):
    org = Origins(body, fb)
    vars_ = Vars(body)
    exits = [(b, s) for b in loop for s in cfg.succ[b] if s not in loop]
    # (i) iterator loop: a `next` call in the loop on a finite iterator, and the loop is left on its None arm
    for b in sorted(loop):
        t = body.blocks[b]["term"]
        if t["k"] == "call" and callee_name(t["f"], fb) == "core::iter::traits::iterator::Iterator::next":
            ity = t["argtys"][0].replace("&mut ", "")
            if any(ity.startswith(p) for p in FINITE_ITERS):
                # every path from head to a back edge passes through this call
                if all(not reaches_without(cfg, [head], e[0], cut_blocks=[b]) or e[0] == b for e in edges) or b == head:
                    return "iterator", "for-loop over %s (finite iterator; each iteration advances it)" % ity.split("<")[0]
    # (ii) structural descent: the loop variable is only reassigned from a field of its own referent
    # (iii) budgeted loop / counter loops: handled below by looking at the exit conditions
    # exits guarded by comparisons
    for (b, s) in exits:
        t = body.blocks[b]["term"]
        if t["k"] != "switch":
            continue
        x = t["x"]
        if x["k"] not in ("copy", "move") or x["p"]["proj"]:
            continue
        ds = vars_.defs.get(x["p"]["l"], [])
        if len(ds) != 1 or ds[0][0] != "assign":
            continue
        r = ds[0][3]["r"]
        if r["k"] == "bin" and r["op"] in ("Lt", "Le", "Gt", "Ge", "Ne"):
            # counter loop: one side is a variable that moves monotonically by a constant on every
            # path to the back edge, the other side is loop-invariant
            for side, other in (("l", "r"), ("r", "l")):
                key = vars_.key_of_operand(r[side])
                if key is None or key[0] != "L":
                    continue
                step = _monotone_step(body, cfg, vars_, key, head, loop, edges)
                okey = vars_.key_of_operand(r[other])
                inv = r[other]["k"] == "const" or (okey is not None and not any(db in loop for db, _ in vars_.def_sites(okey)))
                if step and inv:
                    return "counter", "variable %s changes by %s on every iteration and is compared with a loop-invariant bound" % (vars_.name(key), step)
    # (ii) descent over a tree
    d = _descent(fb, body, cfg, vars_, head, loop)
    if d:
        return "descent", d
    # (iii) the speculation loop
    s = _budgeted(fb, body, cfg, vars_, org, head, loop, edges)
    if s:
        return "budgeted", s
    aud = AUDITED_LOOPS.get(body.name)
    if aud:
        kind, callee, why = aud
        blocks = [b for b in loop if body.blocks[b]["term"]["k"] == "call" and callee_name(body.blocks[b]["term"]["f"], fb) == callee]
        if blocks and all(not reaches_without(cfg, [head], e[0], cut_blocks=blocks) or e[0] in blocks for e in edges):
            return "audited", why
    return "unknown", "no termination argument found (not an iterator loop, counter loop, descent, budgeted loop or audited numeric loop)"


def _assigns_in(body, vars_, key, blocks):
    out = []
    for (db, di) in vars_.def_sites(key):
        if db in blocks:
            out.append((db, di))
    return out


def _monotone_step(body, cfg, vars_, key, head, loop, edges):
    """'+k'/'-k' when every definition of the variable inside the loop is var = var +/- const and every
    path from the loop head to a back edge passes through such a definition"""
    defs = _assigns_in(body, vars_, key, loop)
    if not defs:
        return None
    sign = None
    dblocks = []
    for (db, di) in defs:
        if di == "t":
            return None
        s = body.blocks[db]["stmts"][di]
        r = s["r"]
        # var = move (tmp.0) where tmp = AddWithOverflow(var, const)  or var = Add(var,const)
        o = Origins(body).of_rvalue(r, db, di)
        if o[0] == "bin" and o[1] in ("Add", "Sub") and o[3][0] == "const" and isinstance(o[3][2], int) and o[3][2] > 0:
            base = o[2]
            sg = "+" if o[1] == "Add" else "-"
        else:
            return None
        if sign is None:
            sign = sg + str(o[3][2])
        elif sign[0] != sg:
            return None
        dblocks.append(db)
    # every path head -> back edge passes through a defining block
    for e in edges:
        if e[0] in dblocks:
            continue
        if reaches_without(cfg, [head], e[0], cut_blocks=dblocks):
            return None
    return sign


def _descent(fb, body, cfg, vars_, head, loop):
    """loop variable v (a reference) is reassigned inside the loop only from fields of (*v)"""
    org = Origins(body, fb)
    cands = {}
    for l, ds in vars_.defs.items():
        inl = [d for d in ds if d[1] in loop]
        if not inl or not body.lty(l).startswith("&"):
            continue
        if l not in body.local_names():
            continue
        ok = True
        for d in inl:
            if d[0] != "assign":
                ok = False
                break
            r = d[3]["r"]
            o = org.of_rvalue(r, d[1], d[2])
            # must be a field projection chain rooted at the variable itself
            if not _rooted_field(o, l, body, org, d[1], d[2]):
                ok = False
                break
        if ok:
            cands[l] = len(inl)
    if not cands:
        return None
    # every path from head to the back edge must reassign some candidate
    for l, n in cands.items():
        dblocks = [d[1] for d in vars_.defs[l] if d[1] in loop]
        bes = [(b, s) for b in loop for s in cfg.succ[b] if s == head]
        if all(e[0] in dblocks or not reaches_without(cfg, [head], e[0], cut_blocks=dblocks) for e in bes):
            return "variable %s is replaced by a field of the node it points to on every iteration (finite tree)" % body.lname(l)
    return None


def _rooted_field(o, l, body, org, bi, si):
    # a choice between several children (`node = if c { left } else { right }`) descends on every alternative
    if isinstance(o, tuple) and o and o[0] == "phi":
        return all(_rooted_field(x, l, body, org, bi, si) for x in o[1])
    # walk down field/variant/deref chain
    depth = 0
    cur = o
    saw_field = False
    while isinstance(cur, tuple) and cur[0] in ("field", "variant", "some", "ok") and depth < 10:
        if cur[0] == "field":
            saw_field = True
            cur = cur[2]
        elif cur[0] == "variant":
            cur = cur[2]
        else:
            cur = cur[1]
        depth += 1
    if not saw_field:
        return False
    # root must be the variable itself (phi of its definitions) -> compare by re-evaluating the local
    try:
        rootself = org.of_local(l, bi, si)
    except RecursionError:
        return False
    if cur == rootself or (cur[0] in ("phi", "cycle", "arg") and _mentions_local(cur, l)) or cur == ("cycle", l):
        return True
    # the root is reached through other locals of the same iteration (`let (t, left, right) = match node {..}`):
    # every leaf of the root expression is the variable's value before the loop, a loop-carried value, or again a
    # child of such a value
    init = [org.of_rvalue(d[3]["r"], d[1], d[2]) for d in org.defs.get(l, []) if d[2] == "assign" and False]
    inits = set()
    for d in Vars(body).defs.get(l, []):
        if d[0] == "assign":
            o0 = org.of_rvalue(d[3]["r"], d[1], d[2])
            if not any(isinstance(x, tuple) and x and x[0] in ("cycle", "phi", "field") for x in walk(o0)):
                inits.add(o0)

    def derived(o, depth=0):
        if depth > 40 or not isinstance(o, tuple) or not o:
            return False
        if o[0] == "cycle" or o in inits:
            return True
        if o[0] == "phi":
            return all(derived(x, depth + 1) for x in o[1])
        if o[0] == "field":
            return derived(o[2], depth + 1)
        if o[0] == "variant":
            return derived(o[2], depth + 1)
        if o[0] in ("some", "ok"):
            return derived(o[1], depth + 1)
        return False

    return bool(inits) and derived(cur)


def _mentions_local(o, l):
    return any(x == ("cycle", l) or x == ("arg", l) for x in walk(o))


def _budgeted(fb, body, cfg, vars_, org, head, loop, edges):
    """speculation loop: a budget counter c with  (c >= K -> leave the loop) dominating the body, and
    on every path to a back edge either the position variable advanced by one and was not otherwise
    assigned, or the budget counter was incremented"""
    # find the budget test: a switch in the loop on  c >= K / c < K  whose exit edge leaves the loop
    for b in sorted(loop):
        t = body.blocks[b]["term"]
        if t["k"] != "switch":
            continue
        x = t["x"]
        if x["k"] not in ("copy", "move") or x["p"]["proj"]:
            continue
        ds = vars_.defs.get(x["p"]["l"], [])
        if len(ds) != 1 or ds[0][0] != "assign":
            continue
        r = ds[0][3]["r"]
        if r["k"] != "bin" or r["op"] not in ("Ge", "Gt", "Lt", "Le"):
            continue
        ck = vars_.key_of_operand(r["l"])
        K = vars_.const_of_operand(r["r"])
        if ck is None or K is None or ck[0] != "L":
            continue
        # exit edge taken when c is large
        big_exits = [s for s in cfg.succ[b] if s not in loop]
        if not big_exits:
            continue
        # the budget test must dominate every other block of the loop body (it is at the loop top)
        others = [o for o in loop if o != head and o != b and not reaches_without(cfg, [head], o, cut_blocks=[b])]
        before = [o for o in loop if o != b and o not in others]
        if len(others) < len(loop) - 3 and any(body.blocks[o]["term"]["k"] == "call" for o in before):
            continue  # something happens in the loop before the budget is looked at
        cstep = _inc_blocks(body, vars_, ck, loop)
        # position variable: compared in the loop condition at the head
        pos = None
        for hb in (head,):
            for (eb, es) in [(bb, s) for bb in loop for s in cfg.succ[bb] if s not in loop]:
                tt = body.blocks[eb]["term"]
                if tt["k"] == "switch" and eb != b and eb == head:
                    xx = tt["x"]
                    dd = vars_.defs.get(xx["p"]["l"], []) if xx["k"] in ("copy", "move") and not xx["p"]["proj"] else []
                    if len(dd) == 1 and dd[0][0] == "assign" and dd[0][3]["r"]["k"] == "bin" and dd[0][3]["r"]["op"] in ("Lt", "Le"):
                        pos = vars_.key_of_operand(dd[0][3]["r"]["l"])
        if pos is None:
            continue
        pinc = _inc_blocks(body, vars_, pos, loop)
        pdefs = [db for db, _ in vars_.def_sites(pos) if db in loop]
        other_pos_defs = [d for d in pdefs if d not in pinc]
        # every path head -> back edge: passes an increment of c, or passes an increment of pos and no other def of pos
        for e in edges:
            # paths avoiding every c-increment
            if e[0] in cstep or not reaches_without(cfg, [head], e[0], cut_blocks=cstep):
                continue
            # on those paths pos must be incremented and not otherwise assigned
            if e[0] not in pinc and reaches_without(cfg, [head], e[0], cut_blocks=list(cstep) + list(pinc)):
                return None
            for od in other_pos_defs:
                # a path through another definition of pos that avoids the budget increment
                if reaches_without(cfg, [head], od, cut_blocks=cstep) and (od == e[0] or reaches_without(cfg, cfg.succ[od], e[0], cut_blocks=cstep)):
                    return None
        return "budget counter %s tested against %d at the loop top; every iteration either advances %s by one or spends budget" % (vars_.name(ck), K, vars_.name(pos))
    return None


def _inc_blocks(body, vars_, key, loop):
    out = []
    for (db, di) in vars_.def_sites(key):
        if db not in loop or di == "t":
            continue
        o = Origins(body).of_rvalue(body.blocks[db]["stmts"][di]["r"], db, di)
        if o[0] == "bin" and o[1] == "Add" and o[3] == ("const", o[3][1], 1):
            out.append(db)
    return out


def _structural_recursion(fb, cg, body, comp):
    org = Origins(body, fb)
    for bi, t, targets, _ in cg.sites[body.name]:
        if not any(x in comp for x in targets):
            continue
        # some argument must be a field of (a deref of) one of the body's own arguments
        ok = False
        for a in t["args"]:
            o = org.of_operand(a, bi, "t")
            cur = o
            saw = False
            d = 0
            while isinstance(cur, tuple) and cur[0] in ("field", "variant") and d < 8:
                saw = saw or cur[0] == "field"
                cur = cur[2]
                d += 1
            if saw and cur[0] == "arg":
                ok = True
        if not ok:
            return False
    return True


RULES = [
    ("C10.GUARD", "every effectful pop below optimize() is dominated by index > 2", rule_guard),
    ("C10.SINKS", "effect sinks below optimize() only behind the guarded pop routine; writers are in-memory", rule_sinks),
    ("C10.TERM", "every loop below optimize() has a termination argument; recursion is structural", rule_term),
]


def rule_nopanic(ctx, R):
    """a panic inside optimize() is an effect (message on the real stderr, process ends): every panic-capable site
    optimize() can reach is mechanically discharged or in C13's audited table"""
    from . import p_c13
    n = p_c13.rule_panic(ctx, R, roots=[OPTIMIZE])
    R.floor("sites_below_optimize", n or 0, 47, "panic-capable sites reachable from optimize()")


RULES.append(("C10.NOPANIC", "no unaudited panic-capable site below optimize() (a panic there writes to the real stderr and ends the process)", rule_nopanic))


def rule_level2(ctx, R):
    """pre-execution (the only part of optimize() that runs program commands) happens exactly for level >= 2"""
    from .interp import Events, normal_cfg
    from .lang import Roles
    fb = ctx.fb
    b = fb.bodies.get(OPTIMIZE)
    if not R.anchor(b is not None, "optimize", OPTIMIZE):
        return
    R.analyse(b.name)
    cfg = normal_cfg(b)
    roles = Roles(b, fb, param_roles={1: "CODE", 2: "LEVEL"})
    ev = Events(b, fb, roles=roles)
    ge2, lt2, other = [], [], []
    for gb, blk in enumerate(b.blocks):
        tt = blk["term"]
        if tt["k"] == "switch" and not blk["cleanup"]:
            for s_ in cfg.succ[gb]:
                lab = ev.generic_edge(gb, tt, s_) or ""
                if lab == "LT[LEVEL,K2]=0":
                    ge2.append((gb, s_))
                elif lab == "LT[LEVEL,K2]=1":
                    lt2.append((gb, s_))
    specs = [bi for bi, t in b.calls() if (t["f"].get("resolved") or t["f"].get("def", "")).endswith("::opt_execute")]
    if R.anchor(len(specs) == 1 and len(ge2) == 1 and len(lt2) == 1, "level2_test", "the test `level >= 2` and the call of opt_execute in optimize()"):
        R.check(not reaches_without(cfg, [0], specs[0], cut_edges=ge2) and not reaches_without(cfg, [lt2[0][1]], specs[0]), "level2:iff", "commands are pre-executed exactly for level >= 2", b.blocks[specs[0]]["term"]["span"]["at"])


RULES.append(("C10.LEVEL2", "optimize() pre-executes commands exactly for level >= 2", rule_level2))


def _c02(name):
    def f(ctx, R):
        from . import p_c02
        return getattr(p_c02, name)(ctx, R)
    return f


RULES.append(("C10.WINDOW", "opt_execute never reads a command past the log: the loop bound is the appended command's index (a read past it panics inside optimize(); shared with C02.WINDOW)", _c02("rule_window")))


def _codeapi(ctx, R):
    from . import p_c01
    return p_c01.rule_codeapi(ctx, R)


RULES.append(("C10.CODEAPI", "the words kind / syllable count / dot count / area count / area mean the fields of the command record: getters and constructors of UnOptCode and OptCode (shared with C01.CODEAPI)", _codeapi))


# rules of other properties re-run under this property's name; resolved by rules/main.py once every module can be
# imported (the owners import this module themselves)
DEFERRED_BUNDLES = [
    {'prop': 'C10', 'tag': 'INT', 'module': 'p_c05', 'only': ('CTOR', 'DIVLESS', 'LIMBS', 'NORMALISE', 'CONSTS'), 'skip': (), 'why': 'the audited panic sites of the numeric core (NUMERIC table: limb vectors are never empty, result vectors are long enough) rest on the lengths these rules decide'},
    {'prop': 'C10', 'tag': 'WRITER', 'module': 'p_c11', 'only': ('ONCE',), 'skip': (), 'why': 'the in-memory writers optimisation writes to'},
    {'prop': 'C10', 'tag': 'STATE', 'module': 'p_c02', 'only': ('OPTSTATE', 'SLOTS'), 'skip': (), 'why': 'the audited index sites of the vector-backed state are safe because push_stack tests its bound and optimize() hands out only slots below the size it allocates: pre-execution must not panic'},
]
