"""A-LIN: linear symbolic forms with interval-checked casts over path-precise origins.

Used to decide per-iteration conservation laws of the limb routines: along one path through a loop
body, every stored value is normalised to  sum(coef * atom) + const  over atoms (array cells read on the
path, products of cells, quotient/remainder pairs); integer casts are the identity when the interval of
the operand fits the target type (otherwise the analysis fails closed).  Branch conditions on the path
refine intervals and substitute cells that are known to equal a constant."""
from fractions import Fraction

U = {"u8": 8, "u16": 16, "u32": 32, "u64": 64, "usize": 64, "u128": 128}
I = {"i8": 8, "i16": 16, "i32": 32, "i64": 64, "isize": 64, "i128": 128}


class NotLinear(Exception):
    pass


class Lossy(Exception):
    pass


def ty_range(t):
    if t in U:
        return (0, (1 << U[t]) - 1)
    if t in I:
        return (-(1 << (I[t] - 1)), (1 << (I[t] - 1)) - 1)
    if t == "bool":
        return (0, 1)
    return None


class Lin:
    __slots__ = ("terms", "const")

    def __init__(self, terms=None, const=0):
        self.terms = {k: v for k, v in (terms or {}).items() if v != 0}
        self.const = const

    def __add__(self, o):
        t = dict(self.terms)
        for k, v in o.terms.items():
            t[k] = t.get(k, 0) + v
        return Lin(t, self.const + o.const)

    def __sub__(self, o):
        return self + o.scale(-1)

    def scale(self, c):
        return Lin({k: v * c for k, v in self.terms.items()}, self.const * c)

    def is_const(self):
        return not self.terms

    def key(self):
        return (tuple(sorted(self.terms.items(), key=repr)), self.const)

    def __eq__(self, o):
        return isinstance(o, Lin) and self.terms == o.terms and self.const == o.const

    def __repr__(self):
        parts = ["%+d*%s" % (v, _short(k)) for k, v in sorted(self.terms.items(), key=repr)]
        if self.const or not parts:
            parts.append("%+d" % self.const)
        return " ".join(parts)


def _short(a):
    s = a if isinstance(a, str) else repr(a)
    return s if len(s) < 70 else s[:67] + "..."


class Env:
    """atom naming and interval knowledge for one path"""

    def __init__(self, name_cell, cell_range):
        self.name_cell = name_cell  # origin of an array read -> atom name or None
        self.cell_range = cell_range  # atom name -> (lo, hi)
        self.subst = {}  # atom -> constant (from path predicates)
        self.bounds = []  # (Lin, lo, hi) constraints from path predicates
        self.ranges = {}

    def rng(self, atom):
        if atom in self.subst:
            return (self.subst[atom], self.subst[atom])
        if atom in self.ranges:
            return self.ranges[atom]
        return self.cell_range(atom)


def lin(o, env):
    k = o[0]
    if k == "const":
        if isinstance(o[2], int):
            return Lin(const=o[2])
        raise NotLinear("non-integer constant %r" % (o[2],))
    a = env.name_cell(o)
    if a is not None:
        if a in env.subst:
            return Lin(const=env.subst[a])
        return Lin({a: 1})
    if k == "cast":
        x = lin(o[3], env)
        lo, hi = interval(x, env)
        tr = ty_range(o[2])
        if tr is None:
            raise NotLinear("cast to %s" % o[2])
        if lo < tr[0] or hi > tr[1]:
            raise Lossy("cast %s -> %s of a value in [%d, %d]" % (o[1], o[2], lo, hi))
        return x
    if k == "bin":
        op = o[1]
        if op in ("Add", "Sub", "AddWithOverflow", "SubWithOverflow"):
            l, r = lin(o[2], env), lin(o[3], env)
            return l + r if op.startswith("Add") else l - r
        if op == "Shl":
            l, r = lin(o[2], env), lin(o[3], env)
            if r.is_const():
                return l.scale(1 << r.const)
            raise NotLinear("shift by a non-constant")
        if op in ("Mul", "MulWithOverflow"):
            l, r = lin(o[2], env), lin(o[3], env)
            if l.is_const():
                return r.scale(l.const)
            if r.is_const():
                return l.scale(r.const)
            if len(l.terms) == 1 and len(r.terms) == 1 and l.const == 0 and r.const == 0:
                (a1, c1), (a2, c2) = list(l.terms.items())[0], list(r.terms.items())[0]
                x, y = sorted([a1, a2], key=repr)
                atom = "MUL(%s,%s)" % (x, y)
                r1, r2 = env.rng(a1), env.rng(a2)
                cands = [r1[0] * r2[0], r1[0] * r2[1], r1[1] * r2[0], r1[1] * r2[1]]
                env.ranges[atom] = (min(cands), max(cands))
                return Lin({atom: c1 * c2})
            raise NotLinear("product of two non-atomic expressions")
        if op in ("Div", "Rem"):
            l, r = lin(o[2], env), lin(o[3], env)
            if not r.is_const() or r.const <= 0:
                raise NotLinear("division by a non-constant")
            lo, hi = interval(l, env)
            if lo < 0:
                raise NotLinear("division of a possibly negative value")
            C = r.const
            if l.is_const():
                return Lin(const=l.const // C if op == "Div" else l.const % C)
            if hi < C:
                return Lin() if op == "Div" else l
            atom = ("DIV" if op == "Div" else "MOD", l.key(), C)
            env.ranges[atom] = (lo // C, hi // C) if op == "Div" else (0, C - 1)
            env.ranges.setdefault(("EXPR", l.key(), C), l)
            return Lin({atom: 1})
        raise NotLinear("operator %s" % op)
    if k == "field" and o[1] == "0" and o[2][0] == "bin":
        return lin(o[2], env)
    raise NotLinear("expression %s" % _short(repr(o)))


def interval(l, env):
    lo = hi = l.const
    for a, c in l.terms.items():
        r = env.rng(a)
        if r is None:
            raise NotLinear("no range for %s" % _short(a))
        x, y = r[0] * c, r[1] * c
        lo += min(x, y)
        hi += max(x, y)
    # path constraints on the same linear form (up to a constant)
    for cl, clo, chi in env.bounds:
        if cl.terms == l.terms:
            d = l.const - cl.const
            if clo is not None:
                lo = max(lo, clo + d)
            if chi is not None:
                hi = min(hi, chi + d)
    return lo, hi


def recombine(l, env):
    """C * DIV(e, C) + MOD(e, C) == e"""
    changed = True
    cur = l
    while changed:
        changed = False
        for a, c in list(cur.terms.items()):
            if isinstance(a, tuple) and a[0] == "MOD":
                d = ("DIV", a[1], a[2])
                if cur.terms.get(d, 0) == c * a[2]:
                    e = env.ranges.get(("EXPR", a[1], a[2]))
                    if isinstance(e, Lin):
                        t = dict(cur.terms)
                        del t[a]
                        del t[d]
                        cur = Lin(t, cur.const) + e.scale(c)
                        changed = True
                        break
    return cur


def add_predicate(env, cond, truth):
    """record a branch condition (origin of a comparison) taken with the given truth value"""
    if cond[0] != "bin" or cond[1] not in ("Lt", "Le", "Gt", "Ge", "Eq", "Ne"):
        return
    try:
        l, r = lin(cond[2], env), lin(cond[3], env)
    except (NotLinear, Lossy):
        return
    d = l - r  # d OP 0
    op = cond[1]
    if not truth:
        op = {"Lt": "Ge", "Le": "Gt", "Gt": "Le", "Ge": "Lt", "Eq": "Ne", "Ne": "Eq"}[op]
    base = Lin(d.terms, 0)
    c = -d.const  # base OP c
    if op == "Lt":
        env.bounds.append((base, None, c - 1))
    elif op == "Le":
        env.bounds.append((base, None, c))
    elif op == "Gt":
        env.bounds.append((base, c + 1, None))
    elif op == "Ge":
        env.bounds.append((base, c, None))
    elif op == "Eq":
        env.bounds.append((base, c, c))
        if len(base.terms) == 1:
            (a, k), = base.terms.items()
            if c % k == 0 and not isinstance(a, tuple):
                env.subst[a] = c // k
