"""Fact base produced by hv-mir (rustc_private driver): loading, canonical names, small accessors.

Nothing in this package executes code of /repo; it only reads the MIR facts dumped by the driver.
"""
import json, os, re, os

PURE_STRIP = re.compile(r"<.*$")


def type_head(t):
    """'std::vec::Vec<T, A>' -> 'std::vec::Vec' ; '&mut X<..>' keeps the reference prefix."""
    t = t.strip()
    pre = ""
    while True:
        if t.startswith("&mut "):
            pre += "&mut "
            t = t[5:]
        elif t.startswith("&"):
            pre += "&"
            t = t[1:].lstrip()
            # drop lifetimes
            if t.startswith("'"):
                t = t.split(" ", 1)[1] if " " in t else t
        else:
            break
    depth = 0
    out = []
    for ch in t:
        if ch == "<":
            break
        out.append(ch)
    return pre + "".join(out)


class Body:
    def __init__(self, raw, crate):
        self.raw = raw
        self.crate = crate
        self.path = raw["path"]
        self.kind = raw["kind"]
        self.blocks = raw["blocks"]
        self.locals = raw["locals"]
        self.argc = raw["argc"]
        self.debug = raw.get("debug", [])
        self.sig = raw.get("sig")
        self.span = raw["span"]["at"]
        self.name = None  # canonical, set by FactBase
        self._names = None

    @property
    def file(self):
        return self.span.split(":")[0]

    def local_names(self):
        """local index -> source name (only for debug entries that are a bare local)."""
        if self._names is None:
            m = {}
            for d in self.debug:
                p = d.get("place")
                if p and not p["proj"]:
                    m.setdefault(p["l"], d["name"])
            self._names = m
        return self._names

    def upvar_names(self):
        """for closures: field index of _1 -> captured variable name"""
        m = {}
        for d in self.debug:
            p = d.get("place")
            if p and p["l"] == 1 and p["proj"]:
                for e in p["proj"]:
                    if isinstance(e, dict) and "f" in e:
                        m[e["f"]] = d["name"]
                        break
        return m

    def lname(self, l):
        return self.local_names().get(l, "_%d" % l)

    def lty(self, l):
        return self.locals[l]["ty"]

    def terms(self):
        for i, b in enumerate(self.blocks):
            yield i, b["term"]

    def calls(self):
        for i, b in enumerate(self.blocks):
            if b["cleanup"]:
                continue
            t = b["term"]
            if t["k"] == "call":
                yield i, t


def callee_name(f, fb=None):
    """canonical, impl-index-free name of a call target"""
    n = _callee_name(f)
    rn = getattr(fb, "renamed", None) if fb is not None else None
    if rn and "indirect" not in f:
        # a call of a function that was recognised as a renamed known function names the known function
        for key in (f.get("resolved"), f.get("def")):
            if key in rn:
                n = rn[key]
                break
    rw = getattr(fb, "rewrite", None) if fb is not None else None
    return rw(n) if rw else n


def _callee_name(f):
    if "indirect" in f:
        return "<indirect>"
    d = f["def"]
    last = d.rsplit("::", 1)[-1]
    if "trait" in f:
        return f["trait"] + "::" + last
    if "impl_trait" in f:
        return "<%s as %s>::%s" % (type_head(f["impl_self"]), f["impl_trait"], last)
    if "impl_self" in f:
        return "%s::%s" % (type_head(f["impl_self"]), last)
    return d


def callee_resolved(f, fb):
    """canonical name of the resolved instance (for local bodies: the body's canonical name)"""
    r = f.get("resolved")
    if r is None:
        return None
    if fb is not None and r in fb.by_path:
        return fb.by_path[r].name
    last = r.rsplit("::", 1)[-1]
    if "resolved_self" in f:
        return "%s::%s" % (type_head(f["resolved_self"]), last)
    if r == f.get("def"):
        return callee_name(f)
    return r


NAMED_LITERALS = {}  # def path of a `const NAME: int = literal;` -> value (filled while fact files are loaded)


def _literal_of_const_body(raw):
    vals = []
    for blk in raw.get("blocks") or []:
        for st in blk["stmts"]:
            if st["k"] == "assign" and st["p"]["l"] == 0 and not st["p"]["proj"]:
                r = st["r"]
                if r["k"] == "use" and r["x"]["k"] == "const" and "int" in r["x"] and "uneval" not in r["x"]:
                    vals.append(int(r["x"]["int"]))
                else:
                    return None
            elif st["k"] == "assign":
                return None
        if blk["term"]["k"] not in ("return", "goto", "unreachable"):
            return None
    return vals[0] if len(vals) == 1 else None


def strip_debug_assertions(raw):
    """`debug_assert!(..)` does not exist in a build without debug assertions (cargo's release profile, what
    `cargo install` produces).  The facts are extracted from a development build, where the macro expands to
    `if cfg!(debug_assertions) { if !cond { panic } }`: the test of the configuration flag is replaced by a jump to
    its `false` side and what hangs only below the `true` side is emptied, so that neither the panic nor the
    evaluation of the condition is seen by the rules.  (Arithmetic overflow checks are kept: without them the
    operation wraps, which is a wrong value in either build.)  Returns the number of assertions removed."""
    blocks = raw.get("blocks") or []
    n = 0
    for blk in blocks:
        t = blk["term"]
        exp = t.get("span", {}).get("exp", []) if isinstance(t.get("span"), dict) else []
        if t["k"] == "switch" and any(e.endswith("debug_assert") or e.endswith("debug_assert_eq") or e.endswith("debug_assert_ne") for e in exp) and any(e.endswith("::cfg") or e == "macro:cfg" for e in exp):
            # the side taken when the flag is false: the arm for 0, or `otherwise` when 0 has no arm
            zero = [bb for v, bb in t["arms"] if int(v) == 0]
            tgt = zero[0] if zero else t["otherwise"]
            blk["term"] = {"k": "goto", "t": tgt, "span": t["span"]}
            n += 1
    if n:
        # empty what is no longer reachable
        succ = lambda t: ([t["t"]] if t.get("t") is not None and t["k"] in ("goto", "drop", "assert", "call") else []) + ([bb for _, bb in t["arms"]] + [t["otherwise"]] if t["k"] == "switch" else []) + ([t["unwind"]] if t.get("unwind") is not None else [])
        seen, st = set(), [0]
        while st:
            x = st.pop()
            if x in seen or x >= len(blocks):
                continue
            seen.add(x)
            st.extend(succ(blocks[x]["term"]))
        for i, blk in enumerate(blocks):
            if i not in seen:
                blk["stmts"] = []
                blk["term"] = {"k": "unreachable", "span": blk["term"].get("span", {"at": "?", "exp": []})}
                blk["cleanup"] = True
        raw["_debug_assertions_removed"] = n
    return n


def canonical_field_names(bodies):
    """A private field that was renamed keeps the name the rules know it by.  The current names of a struct's fields
    are read off its constructor expressions (aggregates list them in declaration order); where the name at a
    position differs from the name known for that position (rules/known_fields.json) and the new name is not the
    known name of any field, every field projection and aggregate that uses the new name is rewritten to the known
    one.  Returns {new name: known name}."""
    try:
        known = json.load(open(os.path.join(os.path.dirname(os.path.abspath(__file__)), "known_fields.json"), encoding="utf-8"))
    except (OSError, ValueError):
        return {}
    taken = {n for v in known.values() for n in v}
    current = {}

    def collect(x):
        if isinstance(x, dict):
            if x.get("agg") == "adt" and "fields_n" in x:
                current.setdefault("%s::%s" % (x.get("adt"), x.get("variant", "")), x["fields_n"])
            for v in x.values():
                collect(v)
        elif isinstance(x, list):
            for v in x:
                collect(v)

    collect(bodies)
    ren = {}
    for adt, names in current.items():
        kn = known.get(adt)
        if not kn or len(kn) != len(names):
            continue
        for new, old in zip(names, kn):
            if new != old and new not in taken and ren.get(new, old) == old:
                ren[new] = old
    if not ren:
        return {}

    def rewrite(x):
        if isinstance(x, dict):
            if "n" in x and "f" in x and x["n"] in ren:
                x["n"] = ren[x["n"]]
            if "fields_n" in x:
                x["fields_n"] = [ren.get(n, n) for n in x["fields_n"]]
            for v in x.values():
                rewrite(v)
        elif isinstance(x, list):
            for v in x:
                rewrite(v)

    rewrite(bodies)
    return ren


def fold_constant_switches(raw):
    """`if false { .. }`, `if true { .. } else { .. }`, `while false`: a branch on a literal is not a branch.  The switch
    is replaced by a jump to the side it always takes and what becomes unreachable is emptied, so that a rule
    looking for a call, a template or a store does not find it in dead code (and fails closed when its anchor only
    exists there).  Returns the number of switches folded."""
    blocks = raw.get("blocks") or []
    n = 0
    # temporaries that are assigned exactly once, a literal
    defs = {}
    for blk in blocks:
        for st in blk["stmts"]:
            if st["k"] == "assign":
                defs.setdefault(st["p"]["l"], []).append(st if not st["p"]["proj"] else None)
        t = blk["term"]
        if t["k"] == "call" and t.get("dest"):
            defs.setdefault(t["dest"]["l"], []).append(None)
    argc = raw.get("argc", 0)

    def literal(x):
        if not isinstance(x, dict):
            return None
        if x.get("k") == "const" and "int" in x and "uneval" not in x:
            return int(x["int"])
        if x.get("k") in ("copy", "move") and not x["p"]["proj"] and x["p"]["l"] > argc:
            ds = defs.get(x["p"]["l"], [])
            if len(ds) == 1 and ds[0] is not None and ds[0]["r"]["k"] == "use":
                y = ds[0]["r"]["x"]
                if y.get("k") == "const" and "int" in y and "uneval" not in y:
                    return int(y["int"])
        return None

    for blk in blocks:
        t = blk["term"]
        if t["k"] == "switch" and literal(t.get("x")) is not None:
            v = literal(t["x"])
            tgt = [bb for a_, bb in t["arms"] if int(a_) == v]
            blk["term"] = {"k": "goto", "t": tgt[0] if tgt else t["otherwise"], "span": t["span"]}
            n += 1
    if n:
        _empty_unreachable(blocks)
        raw["_constant_switches_folded"] = n
    return n


def _empty_unreachable(blocks):
    succ = lambda t: ([t["t"]] if t.get("t") is not None and t["k"] in ("goto", "drop", "assert", "call") else []) + ([bb for _, bb in t["arms"]] + [t["otherwise"]] if t["k"] == "switch" else []) + ([t["unwind"]] if t.get("unwind") is not None else [])
    seen, st = set(), [0]
    while st:
        x = st.pop()
        if x in seen or x >= len(blocks):
            continue
        seen.add(x)
        st.extend(succ(blocks[x]["term"]))
    for i, blk in enumerate(blocks):
        if i not in seen:
            blk["stmts"] = []
            blk["term"] = {"k": "unreachable", "span": blk["term"].get("span", {"at": "?", "exp": []})}
            blk["cleanup"] = True


class FactBase:
    def __init__(self, files, inline=True):
        self.crates = {}
        self.bodies = {}  # canonical name -> Body
        self.by_path = {}  # raw def path -> Body
        self.promoted = {}  # (raw path, idx) -> Body
        self.impls = []
        for fn in files:
            with open(fn, encoding="utf-8") as fh:
                d = json.load(fh)
            self.crates[fn] = d["crate"]
            self.impls.extend(d.get("impls", []))
            self.renamed_fields = getattr(self, "renamed_fields", {})
            self.renamed_fields.update(canonical_field_names(d["bodies"]))
            for raw in d["bodies"]:
                strip_debug_assertions(raw)
                fold_constant_switches(raw)
                if raw.get("kind") == "const" and not raw["path"].startswith("hvwitness::"):
                    v_ = _literal_of_const_body(raw)
                    if v_ is not None:
                        NAMED_LITERALS[raw["path"]] = v_
                b = Body(raw, d["crate"])
                if raw["kind"] == "promoted":
                    self.promoted[(raw["path"], raw["promoted"])] = b
                    b.name = "%s::{promoted#%d}" % (raw["path"], raw["promoted"])
                    continue
                self.by_path[b.path] = b
        # helper functions (not part of the tree the rules were written for) are inlined into their callers
        self.helpers = set()
        if inline:
            from .inline import known_functions, inline_body
            known = known_functions()
            for b in self.by_path.values():
                b.name = self._canon(b)
            cand = {b.path for b in self.by_path.values() if b.kind in ("fn", "assoc_fn") and b.name not in known and not b.raw.get("impl_trait") and not b.raw.get("in_trait")}
            # a function of the known tree that is gone while exactly one new function with the same signature stands
            # in the same module / impl is that function under a new name: it keeps its old identity for the rules
            self.renamed = {}
            try:
                import json as _json
                sigs = _json.load(open(os.path.join(os.path.dirname(os.path.abspath(__file__)), "known_signatures.json"), encoding="utf-8"))
            except (OSError, ValueError):
                sigs = {}
            present = {b.name for b in self.by_path.values()}
            crates = {b.name.split("::", 1)[0] for b in self.by_path.values() if b.kind in ("fn", "assoc_fn") and not b.name.startswith("<")}
            for m in sorted(known - present):
                if m.startswith("<") or m not in sigs or m.split("::", 1)[0] not in crates:
                    continue
                box = m.rsplit("::", 1)[0]
                cs = []
                for pth in cand:
                    b_ = self.by_path[pth]
                    sg = b_.raw.get("sig")
                    if b_.name.rsplit("::", 1)[0] == box and sg and "(%s) -> %s" % (", ".join(sg["inputs"]), sg["output"]) == sigs[m]:
                        cs.append(pth)
                if len(cs) == 1:
                    self.renamed[cs[0]] = m
                    cand.discard(cs[0])
            # a helper must not be (mutually) recursive: splicing it in would never end
            def callees_of(pth):
                out = set()
                for blk in self.by_path[pth].raw["blocks"]:
                    t = blk["term"]
                    if t["k"] == "call" and "indirect" not in t["f"]:
                        r = t["f"].get("resolved") or t["f"].get("def")
                        if r in cand:
                            out.add(r)
                return out
            edges = {c: callees_of(c) for c in cand}
            def reaches_self(c):
                seen, st = set(), list(edges[c])
                while st:
                    x = st.pop()
                    if x == c:
                        return True
                    if x not in seen:
                        seen.add(x)
                        st.extend(edges.get(x, ()))
                return False
            cand = {c for c in cand if not reaches_self(c)}
            self.helpers = cand
            if cand:
                raws = {p: self.by_path[p].raw for p in self.by_path}
                for pth, b in list(self.by_path.items()):
                    new_raw = inline_body(b.raw, lambda r: raws.get(r), cand)
                    if new_raw is not b.raw:
                        nb = Body(new_raw, b.crate)
                        nb.inlined_from = b
                        self.by_path[pth] = nb
        # canonical names
        for b in self.by_path.values():
            b.name = self._canon(b)
        for b in self.by_path.values():
            if b.name in self.bodies:
                # disambiguate (should not happen)
                b.name = b.name + "@" + b.path
            self.bodies[b.name] = b

    def _canon(self, b):
        if b.path in getattr(self, "renamed", {}):
            return self.renamed[b.path]
        raw = b.raw
        last = b.path.rsplit("::", 1)[-1]
        if b.kind == "closure":
            parent = self.by_path.get(raw.get("parent"))
            # nested closures: parent may be a closure
            pn = self._canon(parent) if parent is not None else raw.get("parent", "?")
            return pn + "::" + last
        if "impl_trait" in raw:
            return "<%s as %s>::%s" % (raw["impl_self"], raw["impl_trait"], last)
        if "impl_self" in raw:
            return "%s::%s" % (type_head(raw["impl_self"]), last)
        return b.path

    def get(self, name):
        b = self.bodies.get(name)
        if b is None:
            raise KeyError(name)
        return b

    def find(self, pred):
        return [b for b in self.bodies.values() if pred(b)]

    def closures_of(self, body):
        pre = body.name + "::{closure#"
        return [b for n, b in self.bodies.items() if n.startswith(pre)]


def span_at(x):
    return x["span"]["at"]


def span_exp(x):
    return x["span"]["exp"]


def is_user(x):
    """statement/terminator written by the user (not inside a macro expansion other than desugarings)"""
    return not any(e.startswith("macro:") for e in x["span"]["exp"])
