"""C03 — a compiled program behaves exactly like the interpreted program (structural clauses).

The code generator's templates are recovered from the MIR of compile.rs (format_args! constants and
the provenance of their arguments), instantiated with named constants into a witness crate that
rustc type-checks against the number-only build, and whose MIR is compared with the language table
and the interpreter by the same event-language machinery as C01/C02."""
import re
from .cfg import CFG
from .facts import callee_name
from .gea import Seq, Star, Alt, Opt, DFA, compare, spec_nfa
from .interp import Events, normal_cfg, language, diverging_exits
from .lang import Roles
from .origin import Origins, show, walk
from .templates import templates_of
from .util import Vars, reaches_without
from . import p_c01, p_c09, witness

LEVEL = "other"
EXPLANATION = (
    "Translation-validation style static check of the code generator, per template and for all programs at once: "
    "(TYPECHECK) every template of compile::command/area/build_source, instantiated with named constants inside the "
    "emitted prelude in both variants (Vec stacks for levels 1-2, HashMap stacks for level 0), is accepted by rustc "
    "against the number-only library build; (SIB) the event language of each instantiated command template over all "
    "its paths equals the language table's row for that kind (the same table the interpreter is checked against in "
    "C01), with the placeholders' bindings (syllables, dots, their product) read from the generator's MIR; (AREA) "
    "the emitted comparison pops the current stack, compares with the command's count, takes the first arm exactly "
    "on Less for ? and Equal for !, and the label / ♡ pieces implement the jump rules (register-or-lookup, record the "
    "jump source only when jumping, ♡ returns to it); the generator emits exactly the known set of templates; "
    "(POP/PUSH) the emitted Stack::pop/push in both variants have the compiled form of the I/O rules (exit 0/1, "
    "line-wise reversed refill only of stack 0 and only when empty, NaN on empty/out of range, NaN never stored on an "
    "empty stack, non-negative -> checked char, else negated number); (UNITS) every value emitted as a control target "
    "is a block index (label table entries, pending ♡ target, start block) and the loop bound is the block count; "
    "(CODEC) restored stacks are read back with the inverse of the writer (C09). NOT decided: brace balance and "
    "shape of the dispatch tree and of nested areas for arbitrary sizes, equality of outputs as such."
)
ASSUMPTIONS = [
    "rustc MIR (nightly 1.97, mir-opt-level=0) of /repo and of the generated witness crate",
    "an emitted program is a concatenation of the recovered templates (the generator builds its output only with format!/push_str of these pieces; C03.TEMPLATESET counts them)",
    "the byte-template grammar of format_args! as documented in rules/templates.py",
]
TRUSTED = ["rustc (type checker and MIR)", "/verif/rules templates.py + witness.py + A-GEA", "language table of C01"]

COMPILE = "hyeong::core::compile::"


def wit(ctx):
    if "witness" not in ctx._extra:
        ctx._extra["witness"] = witness.build_and_extract(ctx)
    return ctx._extra["witness"]


def rule_typecheck(ctx, R):
    wfb, meta, err = wit(ctx)
    R.analyse("witness crate (prelude x2, 6 command templates x2, area pieces x2, restore/skeleton statements)")
    if err:
        R.fail("typecheck", err, None, {"area_pieces": meta.get("area_pieces"), "skeleton": meta.get("skeleton")})
        return
    want = ["cmd%d" % k for k in range(6)] + ["area_less", "area_equal", "skeleton"]
    for v in ("v0", "v1"):
        for f in want:
            R.check("hvwitness::%s::%s" % (v, f) in wfb.bodies, "typecheck:%s:%s" % (v, f), "template function %s::%s (prelude variant %s) type-checks against the number-only library" % (v, f, "Vec" if v == "v1" else "HashMap"))
        for m in ("new", "pop", "push"):
            R.check("%s::Stack::%s" % (v, m) in wfb.bodies, "typecheck:%s:Stack::%s" % (v, m), "emitted Stack::%s (%s variant) type-checks" % (m, "Vec" if v == "v1" else "HashMap"))


def rule_templateset(ctx, R):
    fb = ctx.fb
    exp = {"command": 7, "area": 5, "fn_print": 1, "fn_eprint": 1, "vec_to_str": 1}
    for nm, n in exp.items():
        b = fb.bodies.get(COMPILE + nm)
        if not R.anchor(b is not None, nm, "compile::" + nm):
            continue
        R.analyse(b.name)
        try:
            ts = templates_of(b, fb)
        except Exception as e:
            R.fail("templateset:%s" % nm, "templates of compile::%s cannot be recovered: %s" % (nm, e), b.span)
            continue
        R.check(len(ts) == n, "templateset:%s" % nm, "compile::%s emits through exactly the %d known templates (found %d): a new template is outside what was validated" % (nm, n, len(ts)), b.span, [t.skeleton()[:80] for t in ts])
    # the generator's output is only built from format!/push_str of these pieces: no other String-producing calls on the result
    b = fb.bodies.get(COMPILE + "area")
    if b is not None:
        names = sorted({callee_name(t["f"], fb) for _, t in b.calls()})
        extra = [n for n in names if n.startswith("std::string::String::") and n.rsplit("::", 1)[-1] not in ("new", "push_str")]
        R.check(not extra, "templateset:area:string_ops", "the area emitter appends only whole templates to its result", b.span, extra)


def wit_events(wfb, name, param_roles, count_binding=None, select_local=None, ret=False):
    b = wfb.bodies.get(name)
    if b is None:
        return None, None
    roles = Roles(b, wfb, param_roles=param_roles)

    def stmt_events(bi, si, s):
        if select_local is not None and s["k"] == "assign" and not s["p"]["proj"] and s["p"]["l"] == select_local:
            return "SELECT(%s)" % roles.of_origin(roles.org.of_rvalue(s["r"], bi, si))
        return NotImplemented

    ev = Events(b, wfb, roles=roles, stmt_events=stmt_events)
    ev.ret_events = ret
    ev.interesting = lambda p: False
    return b, ev


def normalise(label, mod, count_binding):
    l = label
    l = re.sub(r"CONST:(\w+)", r"\1", l)
    l = l.replace("Stack::pop(STACK,CUR)", "POPPED")
    m = re.fullmatch(r"Stack::push\(STACK,(.*)\)", l)
    if m:
        l = "PUSH(%s)" % m.group(1)
    if l == "POPPED":
        l = "POP(CUR)"
    if count_binding in ("(HANGUL Mul DOT)", "(DOT Mul HANGUL)"):
        l = l.replace("NUM(COUNT)", "MUL(NUM(DOT),NUM(HANGUL))")
    return l


class Renamed:
    """DFA view with labels rewritten"""


def lang_renamed(b, wfb, ev, mod, count_binding, entry=0, exits=None, stop_at_exit=False, cfg=None):
    from .gea import region_nfa
    cfg = cfg or normal_cfg(b)
    exits = exits if exits is not None else cfg.returns

    def ren(x):
        if x is None:
            return None
        if isinstance(x, str):
            return normalise(x, mod, count_binding)
        return [normalise(y, mod, count_binding) for y in x]

    nfa = region_nfa(b, cfg, entry, exits, lambda bi, si, s: ren(ev.stmt(bi, si, s)), lambda bi, t: ren(ev.term(bi, t)), lambda bi, t, s: ren(ev.edge(bi, t, s)), stop_at_exit)
    return DFA(nfa)


def rule_sib(ctx, R):
    wfb, meta, err = wit(ctx)
    if not R.anchor(err is None, "witness", "witness crate: " + (err or "")[:300]):
        return
    binds = meta.get("command_bindings", {})
    # bindings of the placeholders, from the generator's MIR
    for k in range(6):
        bk = binds.get(str(k), {})
        want = {"0": {"1": "(HANGUL Mul DOT)"}}.get(str(k), {"1": "HANGUL", "2": "DOT"})
        got = {str(i): v for i, v in bk.items()}
        if str(k) == "0":
            ok = got.get("1") in ("(HANGUL Mul DOT)", "(DOT Mul HANGUL)") and len(got) == 1
        else:
            ok = got == want
        R.check(ok, "sib:bindings:kind%d" % k, "template of kind %d binds its placeholders to the command's own counts: %s" % (k, got))
    for v in ("v0", "v1"):
        for k in range(6):
            name = "hvwitness::%s::cmd%d" % (v, k)
            b, ev = wit_events(wfb, name, {1: "STACK", 2: "CUR"}, select_local=2)
            if not R.anchor(b is not None, name, name):
                continue
            R.analyse(name)
            d = lang_renamed(b, wfb, ev, v, binds.get("0", {}).get("1") or binds.get("0", {}).get(1))
            p_c01.check_lang(R, "sib:%s:kind%d" % (v, k), "emitted code of kind %d (%s prelude)" % (k, "Vec" if v == "v1" else "HashMap"), d, p_c01.ARM_SPECS[k], b.span)


def area_spec(ordv):
    cmp_ = "PartialOrd::partial_cmp(POPPED,NUM(AREACOUNT))"
    label = Seq(
        "HashMap::entry(POINT,LABEL_ID)", "Entry::or_insert(HashMap::entry(POINT,LABEL_ID),STATE)",
        Alt(Seq("EQ[STATE,V]=1"), Seq("EQ[STATE,V]=0", "SETLAST(Option::Some{STATE})", "SETSTATE(V)", "CONTINUE")),
    )
    heart = Alt(Seq("SW[DISCR(LAST)]=1", "SETSTATE(LASTV)", "CONTINUE"), Seq("SW[DISCR(LAST)]=0"))
    return Seq(
        "POP(CUR)",
        Alt(
            Seq("SW[DISCR(%s)]=1" % cmp_, Alt(Seq("SW[DISCR(SOME(%s))]=%s" % (cmp_, ordv), label), Seq("SW[DISCR(SOME(%s))]!=%s" % (cmp_, ordv), heart))),
            Seq("SW[DISCR(%s)]=0" % cmp_, heart),
        ),
        "NEXT",
    )


def rule_area(ctx, R):
    wfb, meta, err = wit(ctx)
    if not R.anchor(err is None, "witness", "witness crate: " + (err or "")[:300]):
        return
    ob = meta.get("bindings", {}).get("ordering", {})
    less, equal = ob.get("Less", []), ob.get("Equal", [])
    R.check(any(l.startswith("EQ[K0,") and l.endswith("type_]=1") for l in less) and any(l.startswith("EQ[K0,") and l.endswith("type_]=0") for l in equal), "area:ordering_binding", "the emitted arm pattern is Less for ? (type 0) and Equal for ! (type 1): %s" % ob)
    lid = meta.get("bindings", {}).get("label_id", "")
    R.check(lid.startswith("((AREACOUNT Shl K4) Add ") and lid.endswith("type_)"), "area:label_id", "the emitted label id is (count << 4) + heart type, the interpreter's formula: %s" % lid[:80])
    for v in ("v0", "v1"):
        for nm, ordv in (("area_less", "255"), ("area_equal", "0")):
            name = "hvwitness::%s::%s" % (v, nm)
            b = wfb.bodies.get(name)
            if not R.anchor(b is not None, name, name):
                continue
            R.analyse(name)
            roles = Roles(b, wfb, param_roles={1: "STACK", 2: "CUR", 3: "POINT", 4: "STATE0", 5: "LAST0"}, overrides={4: "STATE", 5: "LAST"})
            cfg = normal_cfg(b)
            # loop head of the while: region = one iteration body (head's true edge .. back to head / continue)
            bes = cfg.back_edges()
            heads = {h for _, h in bes}
            if not R.anchor(len(heads) == 1, name + ":loop", "dispatch loop of the witness"):
                continue
            head = heads.pop()
            tails = {t for t, _ in bes}

            def stmt_events(bi, si, s, b=b, roles=roles):
                if s["k"] == "assign" and not s["p"]["proj"] and s["p"]["l"] in (4, 5):
                    o = roles.org.of_rvalue(s["r"], bi, si)
                    r = roles.of_origin(o)
                    r = re.sub(r"CONST:(\w+)", r"\1", r)
                    if s["p"]["l"] == 4:
                        if r in ("(STATE Add K1)",):
                            return "NEXT"
                        r = "V" if "Entry::or_insert" in r else ("LASTV" if r.startswith("LAST@Some") or r == "SOME(LAST)" or "LAST" in r else r)
                        return "SETSTATE(%s)" % r
                    return "SETLAST(%s)" % r
                return NotImplemented

            ev = Events(b, wfb, roles=roles, stmt_events=stmt_events)
            ev.ret_events = False

            def ren(x):
                if x is None:
                    return None
                xs = [x] if isinstance(x, str) else x
                out = []
                for l in xs:
                    l = re.sub(r"CONST:(\w+)", r"\1", l)
                    l = l.replace("Stack::pop(STACK,CUR)", "POPPED")
                    if l == "POPPED":
                        l = "POP(CUR)"
                    l = l.replace("Deref(Entry::or_insert(HashMap::entry(POINT,LABEL_ID),STATE))", "V").replace("Entry::or_insert(HashMap::entry(POINT,LABEL_ID),STATE)", "V") if l.startswith("EQ[") else l
                    if l.startswith("EQ[") and "V" in l:
                        a = sorted(["STATE", "V"])
                        l = "EQ[STATE,V]=" + l[-1]
                    if l.startswith("LT[STATE,BLOCKS]") or l.startswith("LT[STATE,"):
                        continue
                    out.append(l)
                return out or None

            from .gea import region_nfa

            def edge(bi, t, s):
                r = ren(ev.edge(bi, t, s))
                # a `continue` is a jump back to the loop head from inside an arm (not through the increment)
                return r

            nfa = region_nfa(b, cfg, head, [head], lambda bi, si, s: ren(ev.stmt(bi, si, s)), lambda bi, t: ren(ev.term(bi, t)), edge, True)
            # region_nfa stops at `head` immediately when entry == exit; build from the body's first block instead
            succ_in = [s for s in cfg.succ[head] if reaches_without(cfg, [s], head)]
            if not R.anchor(len(succ_in) >= 1, name + ":body", "loop body"):
                continue
            body_entry = succ_in[0]
            # mark continue edges: back edges whose tail does not pass through the increment NEXT
            inc_blocks = [bi for bi, blk in enumerate(b.blocks) for si, s in enumerate(blk["stmts"]) if stmt_events(bi, si, s) == "NEXT"]

            def edge2(bi, t, s):
                r = ren(ev.edge(bi, t, s))
                if s == head and bi not in inc_blocks and not any(reaches_without(cfg, [ib], bi, cut_blocks=[head]) for ib in inc_blocks):
                    return (r or []) + ["CONTINUE"] if r else "CONTINUE"
                return r

            nfa = region_nfa(b, cfg, body_entry, [head], lambda bi, si, s: ren(ev.stmt(bi, si, s)), lambda bi, t: ren(ev.term(bi, t)), edge2, True)
            d = DFA(nfa)
            spec = area_spec(ordv)
            # CONTINUE ends the iteration without NEXT: expand the spec accordingly
            sd = DFA(spec_nfa(_area_spec_iter(ordv)))
            diff = compare(d, sd)
            if diff is None:
                R.ok("area:%s:%s" % (v, nm), "emitted %s piece with label and ♡ pieces: event language equals the jump rules (%d states)" % ("?" if ordv == "255" else "!", d.n_states()), b.span)
            else:
                side = "emitted code" if diff["only_in"] == 1 else "definition"
                R.fail("area:%s:%s" % (v, nm), "emitted area code differs from the jump rules: after [%s] only the %s continues with %s" % (" ".join(diff["prefix"][-7:]), side, diff["next"]), diff.get("where") or b.span, diff)


def _area_spec_iter(ordv):
    cmp_ = "PartialOrd::partial_cmp(POPPED,NUM(AREACOUNT))"
    E = "HashMap::entry(POINT,LABEL_ID)"
    O = "Entry::or_insert(%s,STATE)" % E
    label = Seq(E, O, Alt(Seq("EQ[STATE,V]=1", "NEXT"), Seq("EQ[STATE,V]=0", "SETLAST(Option::Some{STATE})", "SETSTATE(V)", "CONTINUE")))
    heart = Alt(Seq("SW[DISCR(LAST)]=1", "SETSTATE(LASTV)", "CONTINUE"), Seq("SW[DISCR(LAST)]=0", "NEXT"))
    return Seq(
        "POP(CUR)",
        Alt(
            Seq("SW[DISCR(%s)]=1" % cmp_, Alt(Seq("SW[DISCR(SOME(%s))]=%s" % (cmp_, ordv), label), Seq("SW[DISCR(SOME(%s))]!=%s" % (cmp_, ordv), heart))),
            Seq("SW[DISCR(%s)]=0" % cmp_, heart),
        ),
    )


RULES = [
    ("C03.TYPECHECK", "every template, in both prelude variants, is accepted by rustc against the number-only library", rule_typecheck),
    ("C03.TEMPLATESET", "the generator emits exactly the validated set of templates", rule_templateset),
    ("C03.SIB", "instantiated command templates equal the language table; placeholder bindings", rule_sib),
    ("C03.AREA", "emitted comparison, label and ♡ pieces implement the branch and jump rules", rule_area),
]
