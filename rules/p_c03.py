"""C03 — a compiled program behaves exactly like the interpreted program (structural clauses).

The code generator's templates are recovered from the MIR of compile.rs (format_args! constants and
the provenance of their arguments), instantiated with named constants into a witness crate that
rustc type-checks against the number-only build, and whose MIR is compared with the language table
and the interpreter by the same event-language machinery as C01/C02."""
import re
from .cfg import CFG
from .facts import callee_name
from .gea import Seq, Star, Alt, Opt, DFA, compare, spec_nfa
from .interp import Events, normal_cfg, language, diverging_exits
from .lang import Roles
from .origin import Origins, show, walk
from .templates import templates_of
from .util import Vars, reaches_without, dominating_edge_labels
from .paths import acyclic_paths, PathOriginsOv
from . import p_c01, p_c02, p_c09, witness

TECHNIQUE = 'static analysis: code-generator templates recovered from format_args! constants in MIR; generated witness crate type-checked by rustc; event-language equality of instantiated templates against the language table; placeholder provenance (units) and format-string-position lint'
LEVEL = "other"
EXPLANATION = (
    'Translation-validation style static check of the code generator, per template and for all programs at once: '
    '(TYPECHECK) every template of compile::command/area/build_source, instantiated with named constants inside the '
    'emitted prelude in both variants (Vec stacks for levels 1-2, HashMap stacks for level 0), is accepted by rustc '
    'against the number-only library build; (SIB) the event language of each instantiated command template over all '
    "its paths equals the language table's row for that kind (the same table the interpreter is checked against in "
    "C01), with the placeholders' bindings (syllables, dots, their product) read from the generator's MIR; (AREA) the "
    "emitted comparison pops the current stack, compares with the command's count, takes the first arm exactly on "
    'Less for ? and Equal for !, and the label / ♡ pieces implement the jump rules (register-or-lookup, record the '
    'jump source only when jumping, ♡ returns to it); the generator emits exactly the known set of templates; '
    '(POP/PUSH) the emitted Stack::pop/push in both variants have the compiled form of the I/O rules (exit 0/1, '
    'line-wise reversed refill only of stack 0 and only when empty, NaN on empty/out of range, NaN never stored on an '
    'empty stack, non-negative -> checked char, else negated number); (UNITS) every value emitted as a control target '
    'is a block index (label table entries, pending ♡ target, start block) and the loop bound is the block count; '
    '(CODEC) restored stacks are read back with the inverse of the writer (C09), every element in order; the label '
    'table is sorted by command index before the single-cursor rewrite to block indices; (FMTPOS) no hole filled with '
    'computed text stands in the format-string position of an emitted print!/eprint!/format!-style macro (a `{` in '
    'pre-computed output would otherwise make rustc reject the program). NOT decided: brace balance and shape of the '
    'dispatch tree and of nested areas for arbitrary sizes, equality of outputs as such.'
)
ASSUMPTIONS = [
    "rustc MIR (nightly 1.97, mir-opt-level=0) of /repo and of the generated witness crate",
    "an emitted program is a concatenation of the recovered templates (the generator builds its output only with format!/push_str of these pieces; C03.TEMPLATESET counts them)",
    "the byte-template grammar of format_args! as documented in rules/templates.py",
]
TRUSTED = ["rustc (type checker and MIR)", "/verif/rules templates.py + witness.py + A-GEA", "language table of C01"]

COMPILE = "hyeong::core::compile::"


def wit(ctx):
    if "witness" not in ctx._extra:
        ctx._extra["witness"] = witness.build_and_extract(ctx)
    return ctx._extra["witness"]


def rule_typecheck(ctx, R):
    wfb, meta, err = wit(ctx)
    R.analyse("witness crate (prelude x2, 6 command templates x2, area pieces x2, restore/skeleton statements)")
    if err:
        R.fail("typecheck", err, None, {"area_pieces": meta.get("area_pieces"), "skeleton": meta.get("skeleton")})
        return
    want = ["cmd%d" % k for k in range(6)] + ["area_less", "area_equal", "skeleton"]
    for v in ("v0", "v1"):
        for f in want:
            R.check("hvwitness::%s::%s" % (v, f) in wfb.bodies, "typecheck:%s:%s" % (v, f), "template function %s::%s (prelude variant %s) type-checks against the number-only library" % (v, f, "Vec" if v == "v1" else "HashMap"))
        for m in ("new", "pop", "push"):
            R.check("%s::Stack::%s" % (v, m) in wfb.bodies, "typecheck:%s:Stack::%s" % (v, m), "emitted Stack::%s (%s variant) type-checks" % (m, "Vec" if v == "v1" else "HashMap"))


def rule_templateset(ctx, R):
    fb = ctx.fb
    # templates that carry text; a pure concatenation `format!("{}{}", a, b)` emits nothing of its own
    exp = {"command": 6, "area": 5, "fn_print": 1, "fn_eprint": 1, "vec_to_str": 1}
    for nm, n in exp.items():
        b = fb.bodies.get(COMPILE + nm)
        if not R.anchor(b is not None, nm, "compile::" + nm):
            continue
        R.analyse(b.name)
        try:
            ts = templates_of(b, fb, closures=True)
        except Exception as e:
            R.fail("templateset:%s" % nm, "templates of compile::%s cannot be recovered: %s" % (nm, e), b.span)
            continue
        ts = [t for t in ts if any(p[0] == "lit" and p[1].strip() for p in t.pieces)]
        R.check(len(ts) == n, "templateset:%s" % nm, "compile::%s emits through exactly the %d known text templates (found %d): a new template is outside what was validated" % (nm, n, len(ts)), b.span, [t.skeleton()[:80] for t in ts])
    # the generator's output is only built from format!/push_str of these pieces: no other String-producing calls on the result
    b = fb.bodies.get(COMPILE + "area")
    if b is not None:
        names = sorted({callee_name(t["f"], fb) for _, t in b.calls()})
        extra = [n for n in names if n.startswith("std::string::String::") and n.rsplit("::", 1)[-1] not in ("new", "push_str")]
        R.check(not extra, "templateset:area:string_ops", "the area emitter appends only whole templates to its result", b.span, extra)


def wit_events(wfb, name, param_roles, count_binding=None, select_local=None, ret=False):
    b = wfb.bodies.get(name)
    if b is None:
        return None, None
    roles = Roles(b, wfb, param_roles=param_roles)

    def stmt_events(bi, si, s):
        if select_local is not None and s["k"] == "assign" and not s["p"]["proj"] and s["p"]["l"] == select_local:
            return "SELECT(%s)" % roles.of_origin(roles.org.of_rvalue(s["r"], bi, si))
        return NotImplemented

    ev = Events(b, wfb, roles=roles, stmt_events=stmt_events)
    ev.ret_events = ret
    ev.interesting = lambda p: False
    return b, ev


def normalise(label, mod, count_binding):
    l = label
    l = re.sub(r"CONST:(\w+)", r"\1", l)
    l = l.replace("Stack::pop(STACK,CUR)", "POPPED")
    m = re.fullmatch(r"Stack::push\(STACK,(.*)\)", l)
    if m:
        l = "PUSH(%s)" % m.group(1)
    if l == "POPPED":
        l = "POP(CUR)"
    if count_binding in ("(HANGUL Mul DOT)", "(DOT Mul HANGUL)"):
        l = l.replace("NUM(COUNT)", "MUL(NUM(DOT),NUM(HANGUL))")
    return l


class Renamed:
    """DFA view with labels rewritten"""


def lang_renamed(b, wfb, ev, mod, count_binding, entry=0, exits=None, stop_at_exit=False, cfg=None):
    from .gea import region_nfa
    cfg = cfg or normal_cfg(b)
    exits = exits if exits is not None else cfg.returns

    def ren(x):
        if x is None:
            return None
        if isinstance(x, str):
            return normalise(x, mod, count_binding)
        return [normalise(y, mod, count_binding) for y in x]

    nfa = region_nfa(b, cfg, entry, exits, lambda bi, si, s: ren(ev.stmt(bi, si, s)), lambda bi, t: ren(ev.term(bi, t)), lambda bi, t, s: ren(ev.edge(bi, t, s)), stop_at_exit)
    return DFA(nfa)


def rule_sib(ctx, R):
    wfb, meta, err = wit(ctx)
    if not R.anchor(err is None, "witness", "witness crate: " + (err or "")[:300]):
        return
    binds = meta.get("command_bindings", {})
    # bindings of the placeholders, from the generator's MIR
    for k in range(6):
        bk = binds.get(str(k), {})
        want = {"0": {"1": "(HANGUL Mul DOT)"}}.get(str(k), {"1": "HANGUL", "2": "DOT"})
        got = {str(i): v for i, v in bk.items()}
        if str(k) == "0":
            ok = got.get("1") in ("(HANGUL Mul DOT)", "(DOT Mul HANGUL)") and len(got) == 1
        else:
            ok = got == want
        R.check(ok, "sib:bindings:kind%d" % k, "template of kind %d binds its placeholders to the command's own counts: %s" % (k, got))
    for v in ("v0", "v1"):
        for k in range(6):
            name = "hvwitness::%s::cmd%d" % (v, k)
            b, ev = wit_events(wfb, name, {1: "STACK", 2: "CUR"}, select_local=2)
            if not R.anchor(b is not None, name, name):
                continue
            R.analyse(name)
            d = lang_renamed(b, wfb, ev, v, binds.get("0", {}).get("1") or binds.get("0", {}).get(1))
            p_c01.check_lang(R, "sib:%s:kind%d" % (v, k), "emitted code of kind %d (%s prelude)" % (k, "Vec" if v == "v1" else "HashMap"), d, p_c01.ARM_SPECS[k], b.span)


def area_spec(ordv):
    cmp_ = "PartialOrd::partial_cmp(POPPED,NUM(AREACOUNT))"
    label = Seq(
        "HashMap::entry(POINT,LABEL_ID)", "Entry::or_insert(HashMap::entry(POINT,LABEL_ID),STATE)",
        Alt(Seq("EQ[STATE,V]=1"), Seq("EQ[STATE,V]=0", "SETLAST(Option::Some{STATE})", "SETSTATE(V)", "CONTINUE")),
    )
    heart = Alt(Seq("SW[DISCR(LAST)]=1", "SETSTATE(LASTV)", "CONTINUE"), Seq("SW[DISCR(LAST)]=0"))
    return Seq(
        "POP(CUR)",
        Alt(
            Seq("SW[DISCR(%s)]=1" % cmp_, Alt(Seq("SW[DISCR(SOME(%s))]=%s" % (cmp_, ordv), label), Seq("SW[DISCR(SOME(%s))]!=%s" % (cmp_, ordv), heart))),
            Seq("SW[DISCR(%s)]=0" % cmp_, heart),
        ),
        "NEXT",
    )


def rule_area(ctx, R):
    wfb, meta, err = wit(ctx)
    if not R.anchor(err is None, "witness", "witness crate: " + (err or "")[:300]):
        return
    ob = meta.get("bindings", {}).get("ordering", {})
    less, equal = ob.get("Less", []), ob.get("Equal", [])
    ok_less = "EQ(Val.type_,K0)" in less
    ok_equal = "!EQ(Val.type_,K0)" in equal or "EQ(Val.type_,K1)" in equal
    R.check(ok_less and ok_equal, "area:ordering_binding", "the emitted arm pattern is Less for ? (type 0) and Equal for ! (type 1): %s" % ob)
    # the count the emitted comparison uses: the area emitter is called with the command's area and area count
    cb = ctx.fb.bodies.get(COMPILE + "command")
    if R.anchor(cb is not None, "command", "compile::command"):
        croles = Roles(cb, ctx.fb, param_roles={1: "INDENT"})
        sites_ = [[croles.of_operand(a, bi) for a in t["args"]] for bi, t in cb.calls() if callee_name(t["f"], ctx.fb) == COMPILE + "area"]
        R.check(len(sites_) == 1 and sites_[0][1:] == ["AREA", "AREACOUNT"], "area:call_binding", "command() emits the area of the command with the command's count (syllables x dots): %s" % sites_, cb.span)
    # which node emits which piece: operators (type 0/1) the comparison, hearts 2..12 the label piece, ♡ (13) the return
    ab = ctx.fb.bodies.get(COMPILE + "area")
    if R.anchor(ab is not None, "area_fn", "compile::area"):
        acfg = normal_cfg(ab)
        aroles = Roles(ab, ctx.fb, param_roles={1: "INDENT", 2: "AREA", 3: "AREACOUNT"})
        aev = Events(ab, ctx.fb, roles=aroles)
        got = {}
        for t in templates_of(ab, ctx.fb, aroles.org):
            sk = t.skeleton()
            key = "compare" if "partial_cmp" in sk else "label" if "point.entry" in sk else "return" if "= last" in sk else None
            if key:
                labs = sorted(re.sub(r"^LT\[.*type_,", "LT[type_,", l) for l in dominating_edge_labels(acfg, ab, aev, t.block) if "type_" in l)
                got[key] = labs
        want_d = {"compare": ["LT[type_,K2]=1"], "label": ["LT[type_,K13]=1", "LT[type_,K2]=0"], "return": ["LT[type_,K13]=0", "LT[type_,K2]=0"]}
        R.check(got == want_d, "area:dispatch", "the comparison is emitted for node types 0/1, the label piece for hearts 2..12, the return piece for ♡ (13): %s" % got, ab.span)
    lid = meta.get("bindings", {}).get("label_id", "")
    R.check(lid.startswith("((AREACOUNT Shl K4) Add ") and lid.endswith("type_)"), "area:label_id", "the emitted label id is (count << 4) + heart type, the interpreter's formula: %s" % lid[:80])
    for v in ("v0", "v1"):
        for nm, ordv in (("area_less", "255"), ("area_equal", "0")):
            name = "hvwitness::%s::%s" % (v, nm)
            b = wfb.bodies.get(name)
            if not R.anchor(b is not None, name, name):
                continue
            R.analyse(name)
            roles = Roles(b, wfb, param_roles={1: "STACK", 2: "CUR", 3: "POINT", 4: "STATE0", 5: "LAST0"}, overrides={4: "STATE", 5: "LAST"})
            cfg = normal_cfg(b)
            # loop head of the while: region = one iteration body (head's true edge .. back to head / continue)
            bes = cfg.back_edges()
            heads = {h for _, h in bes}
            if not R.anchor(len(heads) == 1, name + ":loop", "dispatch loop of the witness"):
                continue
            head = heads.pop()
            tails = {t for t, _ in bes}

            def stmt_events(bi, si, s, b=b, roles=roles):
                if s["k"] == "assign" and not s["p"]["proj"] and s["p"]["l"] in (4, 5):
                    o = roles.org.of_rvalue(s["r"], bi, si)
                    r = roles.of_origin(o)
                    r = re.sub(r"CONST:(\w+)", r"\1", r)
                    if s["p"]["l"] == 4:
                        if r in ("(STATE Add K1)",):
                            return "NEXT"
                        r = "V" if "Entry::or_insert" in r else ("LASTV" if r.startswith("LAST@Some") or r == "SOME(LAST)" or "LAST" in r else r)
                        return "SETSTATE(%s)" % r
                    return "SETLAST(%s)" % r
                return NotImplemented

            ev = Events(b, wfb, roles=roles, stmt_events=stmt_events)
            ev.ret_events = False

            def ren(x):
                if x is None:
                    return None
                xs = [x] if isinstance(x, str) else x
                out = []
                for l in xs:
                    l = re.sub(r"CONST:(\w+)", r"\1", l)
                    l = l.replace("Stack::pop(STACK,CUR)", "POPPED")
                    if l == "POPPED":
                        l = "POP(CUR)"
                    l = l.replace("Deref(Entry::or_insert(HashMap::entry(POINT,LABEL_ID),STATE))", "V").replace("Entry::or_insert(HashMap::entry(POINT,LABEL_ID),STATE)", "V") if l.startswith("EQ[") else l
                    if l.startswith("EQ[") and "V" in l:
                        a = sorted(["STATE", "V"])
                        l = "EQ[STATE,V]=" + l[-1]
                    if l.startswith("LT[STATE,BLOCKS]") or l.startswith("LT[STATE,"):
                        continue
                    out.append(l)
                return out or None

            from .gea import region_nfa

            def edge(bi, t, s):
                r = ren(ev.edge(bi, t, s))
                # a `continue` is a jump back to the loop head from inside an arm (not through the increment)
                return r

            nfa = region_nfa(b, cfg, head, [head], lambda bi, si, s: ren(ev.stmt(bi, si, s)), lambda bi, t: ren(ev.term(bi, t)), edge, True)
            # region_nfa stops at `head` immediately when entry == exit; build from the body's first block instead
            succ_in = [s for s in cfg.succ[head] if reaches_without(cfg, [s], head)]
            if not R.anchor(len(succ_in) >= 1, name + ":body", "loop body"):
                continue
            body_entry = succ_in[0]
            # mark continue edges: back edges whose tail does not pass through the increment NEXT
            inc_blocks = [bi for bi, blk in enumerate(b.blocks) for si, s in enumerate(blk["stmts"]) if stmt_events(bi, si, s) == "NEXT"]

            def edge2(bi, t, s):
                r = ren(ev.edge(bi, t, s))
                if s == head and bi not in inc_blocks and not any(reaches_without(cfg, [ib], bi, cut_blocks=[head]) for ib in inc_blocks):
                    return (r or []) + ["CONTINUE"] if r else "CONTINUE"
                return r

            nfa = region_nfa(b, cfg, body_entry, [head], lambda bi, si, s: ren(ev.stmt(bi, si, s)), lambda bi, t: ren(ev.term(bi, t)), edge2, True)
            d = DFA(nfa)
            spec = area_spec(ordv)
            # CONTINUE ends the iteration without NEXT: expand the spec accordingly
            sd = DFA(spec_nfa(_area_spec_iter(ordv)))
            diff = compare(d, sd)
            if diff is None:
                R.ok("area:%s:%s" % (v, nm), "emitted %s piece with label and ♡ pieces: event language equals the jump rules (%d states)" % ("?" if ordv == "255" else "!", d.n_states()), b.span)
            else:
                side = "emitted code" if diff["only_in"] == 1 else "definition"
                R.fail("area:%s:%s" % (v, nm), "emitted area code differs from the jump rules: after [%s] only the %s continues with %s" % (" ".join(diff["prefix"][-7:]), side, diff["next"]), diff.get("where") or b.span, diff)


def _area_spec_iter(ordv):
    cmp_ = "PartialOrd::partial_cmp(POPPED,NUM(AREACOUNT))"
    E = "HashMap::entry(POINT,LABEL_ID)"
    O = "Entry::or_insert(%s,STATE)" % E
    label = Seq(E, O, Alt(Seq("EQ[STATE,V]=1", "NEXT"), Seq("EQ[STATE,V]=0", "SETLAST(Option::Some{STATE})", "SETSTATE(V)", "CONTINUE")))
    heart = Alt(Seq("SW[DISCR(LAST)]=1", "SETSTATE(LASTV)", "CONTINUE"), Seq("SW[DISCR(LAST)]=0", "NEXT"))
    return Seq(
        "POP(CUR)",
        Alt(
            Seq("SW[DISCR(%s)]=1" % cmp_, Alt(Seq("SW[DISCR(SOME(%s))]=%s" % (cmp_, ordv), label), Seq("SW[DISCR(SOME(%s))]!=%s" % (cmp_, ordv), heart))),
            Seq("SW[DISCR(%s)]=0" % cmp_, heart),
        ),
    )


RULES = [
    ("C03.TYPECHECK", "every template, in both prelude variants, is accepted by rustc against the number-only library", rule_typecheck),
    ("C03.TEMPLATESET", "the generator emits exactly the validated set of templates", rule_templateset),
    ("C03.SIB", "instantiated command templates equal the language table; placeholder bindings", rule_sib),
    ("C03.AREA", "emitted comparison, label and ♡ pieces implement the branch and jump rules", rule_area),
]


# ------------------------------------------------------------------------------------------------ emitted Stack
def _stream(prn):
    fl = "Num::floor(VALUE)"
    ti = "BigNum::to_int(%s)" % fl
    fu = "char::from_u32(%s)" % ti
    fmt = "Arguments::new(Kb'\\xc0\\x00',array{Argument::new_display(%s)})"
    return Alt(
        Seq("BR[Num::is_pos(VALUE)]=1", fl, ti, fu, "%s(%s)" % (prn, fmt % ("UNWRAP(%s)" % fu)), "RET(K'()')"),
        Seq("BR[Num::is_pos(VALUE)]=0", "%s(%s)" % (prn, fmt % "NEG(VALUE)"), "RET(K'()')"),
    )


def stack_specs():
    R0 = "RET(K'()')"
    specs = {}
    # ---- Vec variant
    L = "LT[IDX,Vec::len(SELF.data)]"
    G, G0 = "IndexMut::index_mut(SELF.data,IDX)", "IndexMut::index_mut(SELF.data,K0)"
    P, P0 = "Vec::pop(%s)" % G, "Vec::pop(%s)" % G0
    refill = ("Stdin::read_line(stdio::stdin(),String::new())", "ITER(REV(CHARS(String::new())))")
    specs["v1::Stack::pop"] = Alt(
        Seq("EQ[IDX,K1]=1", "EXIT(K0)"),
        Seq("EQ[IDX,K1]=0", "EQ[IDX,K2]=1", "EXIT(K1)"),
        Seq("EQ[IDX,K1]=0", "EQ[IDX,K2]=0", Alt(
            Seq(L + "=0", "RET(NAN)"),
            Seq(L + "=1", G, P, Alt(
                Seq("SW[DISCR(%s)]=1" % P, "RET(SOME(%s))" % P),
                Seq("SW[DISCR(%s)]=0" % P, Alt(
                    Seq("EQ[IDX,K0]=0", "RET(NAN)"),
                    Seq("EQ[IDX,K0]=1", refill[0], refill[1], Star(G0, "COLLECT(%s,NUM(ELEM))" % G0), G0, P0, Alt(Seq("SW[DISCR(%s)]=1" % P0, "RET(SOME(%s))" % P0), Seq("SW[DISCR(%s)]=0" % P0, "RET(NAN)"))),
                )),
            )),
        )),
    )
    I = "Index::index(SELF.data,IDX)"
    EM = "BR[Vec::is_empty(%s)]" % I
    store = Seq(G, "COLLECT(%s,VALUE)" % G, R0)
    specs["v1::Stack::push"] = Alt(
        Seq("EQ[IDX,K1]=1", _stream("stdio::_print")),
        Seq("EQ[IDX,K1]=0", "EQ[IDX,K2]=1", _stream("stdio::_eprint")),
        Seq("EQ[IDX,K1]=0", "EQ[IDX,K2]=0", Alt(
            Seq(L + "=0", R0),
            Seq(L + "=1", I, Alt(Seq(EM + "=0", store), Seq(EM + "=1", Alt(Seq("BR[Num::is_nan(VALUE)]=1", R0), Seq("BR[Num::is_nan(VALUE)]=0", store))))),
        )),
    )
    # ---- HashMap variant
    E = "HashMap::entry(SELF.data,IDX)"
    O = "Entry::or_insert(%s,VEC)" % E
    PO = "Vec::pop(%s)" % O
    GM = "HashMap::get_mut(SELF.data,K0)"
    U = "UNWRAP(%s)" % GM
    PU = "Vec::pop(%s)" % U
    specs["v0::Stack::pop"] = Alt(
        Seq("EQ[IDX,K1]=1", "EXIT(K0)"),
        Seq("EQ[IDX,K1]=0", "EQ[IDX,K2]=1", "EXIT(K1)"),
        Seq("EQ[IDX,K1]=0", "EQ[IDX,K2]=0", E, O, PO, Alt(
            Seq("SW[DISCR(%s)]=1" % PO, "RET(SOME(%s))" % PO),
            Seq("SW[DISCR(%s)]=0" % PO, Alt(
                Seq("EQ[IDX,K0]=0", "RET(NAN)"),
                Seq("EQ[IDX,K0]=1", refill[0], refill[1], Star(GM, "COLLECT(%s,NUM(ELEM))" % U), GM, PU, Alt(Seq("SW[DISCR(%s)]=1" % PU, "RET(SOME(%s))" % PU), Seq("SW[DISCR(%s)]=0" % PU, "RET(NAN)"))),
            )),
        )),
    )
    EMo = "BR[Vec::is_empty(%s)]" % O
    store0 = Seq("COLLECT(%s,VALUE)" % O, R0)
    specs["v0::Stack::push"] = Alt(
        Seq("EQ[IDX,K1]=1", _stream("stdio::_print")),
        Seq("EQ[IDX,K1]=0", "EQ[IDX,K2]=1", _stream("stdio::_eprint")),
        Seq("EQ[IDX,K1]=0", "EQ[IDX,K2]=0", E, O, Alt(Seq(EMo + "=0", store0), Seq(EMo + "=1", Alt(Seq("BR[Num::is_nan(VALUE)]=1", R0), Seq("BR[Num::is_nan(VALUE)]=0", store0))))),
    )
    return specs


def rule_stack(ctx, R):
    wfb, meta, err = wit(ctx)
    if not R.anchor(err is None, "witness", "witness crate: " + (err or "")[:300]):
        return
    specs = stack_specs()
    what = {
        "pop": "emitted Stack::pop: exit 0/1 on stacks 1/2; out of range or empty -> NaN; stack 0 empty -> read one line, push its characters in reverse, pop (end of input -> NaN)",
        "push": "emitted Stack::push: stacks 1/2 print (non-negative -> checked char of floor, else the negated number); otherwise store unless NaN onto an empty stack (and in range)",
    }
    for name, spec in sorted(specs.items()):
        b = wfb.bodies.get(name)
        if not R.anchor(b is not None, name, name):
            continue
        R.analyse(name)
        roles = Roles(b, wfb, param_roles={1: "SELF", 2: "IDX", 3: "VALUE"})
        ev = Events(b, wfb, roles=roles, extra_epsilon={"std::string::String::new"})
        cfg = normal_cfg(b)
        d = language(b, wfb, cfg, 0, cfg.returns + diverging_exits(b, wfb), ev, stop_at_exit=False)
        p_c01.check_lang(R, "stack:%s" % name, "%s (%s variant)" % (what[name.rsplit("::", 1)[-1]], "Vec" if name.startswith("v1") else "HashMap"), d, spec, b.span)
    # the initial selection and program counter of the emitted main
    for v in ("v0", "v1"):
        b = wfb.bodies.get("hvwitness::%s::skeleton" % v)
        if not R.anchor(b is not None, v + "::skeleton", "emitted main skeleton"):
            continue
        inits = {}
        for bi, blk in enumerate(b.blocks):
            for s in blk["stmts"]:
                if s["k"] == "assign" and not s["p"]["proj"] and s["p"]["l"] in b.local_names() and s["r"]["k"] == "use" and s["r"]["x"]["k"] == "const" and "int" in s["r"]["x"]:
                    inits.setdefault(b.lname(s["p"]["l"]), int(s["r"]["x"]["int"]))
        # by type/role: the usize locals initialised by the prelude: state = 0, cur = 3
        vals = sorted(inits.values())
        R.check(0 in vals and 3 in vals, "stack:%s:main_init" % v, "the emitted main starts at block 0 with stack 3 selected: %s" % inits, b.span)


# ------------------------------------------------------------------------------------------------ units
def rule_units(ctx, R):
    fb = ctx.fb
    b = fb.bodies.get(COMPILE + "build_source")
    if not R.anchor(b is not None, "build_source", "compile::build_source"):
        return
    R.analyse(b.name)
    org = Origins(b, fb)
    vars_ = Vars(b)
    cfg = normal_cfg(b)
    # the blocks vector: Vec<Vec<T::CodeType>>
    blocks = [l for l, d in enumerate(b.locals) if d["ty"].startswith("std::vec::Vec<std::vec::Vec<") and l in b.local_names()]
    if not R.anchor(len(blocks) == 1, "blocks_vec", "the vector of blocks in build_source"):
        return
    BL = blocks[0]
    roles = Roles(b, fb, param_roles={1: "STATE", 2: "CODE", 3: "LEVEL"}, overrides={BL: "BLOCKS"})
    tpls = templates_of(b, fb, roles.org)

    def find(pat):
        return [t for t in tpls if pat in t.skeleton() and "struct Stack" not in t.skeleton()]

    COUNT, IDX = "Vec::len(BLOCKS)", "(Vec::len(BLOCKS) Sub K1)"
    # loop bound
    for t in find("while state < "):
        r = roles.of_origin(t.args[0])
        R.check(r == COUNT, "units:while", "the emitted loop bound is the number of blocks: %s" % r, t.where)
        evw = Events(b, fb, roles=roles)
        dl = [l for l in dominating_edge_labels(cfg, b, evw, t.block) if "is_empty(" in l and "State::get_stack" not in l and "BLOCKS" not in l]
        R.check(all(l.endswith("=0") for l in dl) and len(dl) <= 1, "units:while:nonempty", "the main loop is emitted whenever the program has commands (the only guard may be `the command list is not empty`): %s" % [l[-30:] for l in dl], t.where)
    # start block
    for t in find("    state = "):
        r = roles.of_origin(t.args[0])
        R.check(r == IDX, "units:start", "the emitted start block is a block index (number of blocks - 1, the block that is open after grouping): %s" % r, t.where)
        # emitted after the open block was normalised: every path from the grouping loop to this template passes the
        # test `codes.last().is_empty()`
        norm = []
        for gb, blk in enumerate(b.blocks):
            tt = blk["term"]
            if tt["k"] == "switch" and tt["xty"] == "bool":
                o = roles.of_origin(roles.org.of_operand(tt["x"], gb, "t"))
                if "Vec::is_empty(UNWRAP([T]::last(BLOCKS)))" in o:
                    norm.append(gb)
        # the grouping loop over the pre-executed code: the loop containing the Index of the block_of / point rewrite
        loops = {}
        for be in cfg.back_edges():
            loops.setdefault(be[1], set()).update(cfg.natural_loop(be))
        pre_loops = [(h, bl) for h, bl in loops.items() if any(callee_name(b.blocks[x]["term"]["f"], fb) == "hyeong::core::state::State::get_all_code" for x in range(len(b.blocks)) if b.blocks[x]["term"]["k"] == "call" and reaches_without(cfg, [x], h) and not b.blocks[x]["cleanup"])]
        grouping = None
        for h, bl in loops.items():
            # the loop whose iterator comes from get_all_code()
            for x in bl:
                tt = b.blocks[x]["term"]
                if tt["k"] == "call" and callee_name(tt["f"], fb) == "core::iter::traits::iterator::Iterator::next" and "State::get_all_code" in roles.of_operand(tt["args"][0], x):
                    grouping = (h, bl)
        if R.anchor(grouping is not None and norm, "units:grouping_loop", "grouping loop over the pre-executed commands and the normalisation test of the open block"):
            h, bl = grouping
            exits = [sx for x in bl for sx in cfg.succ[x] if sx not in bl]
            after = [n for n in norm if n not in bl]
            ok = bool(after) and not any(reaches_without(cfg, [e], t.block, cut_blocks=after) for e in exits)
            R.check(ok, "units:start_after_normalise", "the start block is emitted after the open block was normalised (an empty block opened when the last pre-executed command carries an area)", t.where)
    # pending ♡ target
    for t in find("Some("):
        r = roles.of_origin(t.args[0])
        m = re.fullmatch(r"Index::index\((.*),LATESTLOC\)", r)
        ok = False
        if m:
            # the table: a Vec<usize> all of whose pushes are block indices
            tab = [l for l, d in enumerate(b.locals) if d["ty"] == "std::vec::Vec<usize>" and l in b.local_names()]
            pushes = []
            for bi, tt in b.calls():
                if callee_name(tt["f"], fb) == "std::vec::Vec::push" and vars_.root_key(tt["args"][0]) in [("L", x) for x in tab]:
                    pushes.append(roles.of_operand(tt["args"][1], bi))
            ok = len(pushes) >= 1 and all(p == IDX for p in pushes)
            R.check(ok, "units:last:table", "the command -> block table records, for every pre-executed command, the index of the block it was put in: %s" % pushes, t.where)
        R.check(bool(m), "units:last", "the pending ♡ target is emitted as a block index looked up in the command -> block table, not as the interpreter's command index: %s" % r[:90], t.where)
    # no pending target is emitted as `None`, a pending one as `Some(..)`: bound to the variant of the jump source
    for t in find("last = Option::"):
        r = roles.of_origin(t.args[0])
        evl = Events(b, fb, roles=roles)
        where_none = [bi for bi, tt in b.calls() if "K'None'" in " ".join(roles.of_operand(a, bi) for a in tt["args"]) and callee_name(tt["f"], fb).rsplit("::", 1)[-1] in ("from", "to_string", "to_owned", "into")]
        where_some = [tp.block for tp in tpls if tp.skeleton() == "Some({0})"]
        ok = len(where_none) == 1 and len(where_some) == 1 and "K'None'" in r and "Some(" in r
        if ok:
            ln = [l for l in dominating_edge_labels(cfg, b, evl, where_none[0]) if l.startswith("SW[DISCR(LATEST)]")]
            ls = [l for l in dominating_edge_labels(cfg, b, evl, where_some[0]) if l.startswith("SW[DISCR(LATEST)]")]
            ok = ln == ["SW[DISCR(LATEST)]=0"] and ls == ["SW[DISCR(LATEST)]=1"]
        R.check(ok, "units:last:variants", "`last = Option::None` is emitted when the pre-executed state has no jump source and `Option::Some(block)` when it has one: %s" % r[:110], t.where)
    from .util import check_whole_loops
    check_whole_loops(R, "units:loops:whole", b, cfg, "restoring, grouping, label emission and block emission go over all stacks / commands / labels / blocks (a skipped element does not end the loop)")
    # ... and it records one entry for every pre-executed command: no iteration of the grouping loop bypasses the push
    tab_ = [l for l, d in enumerate(b.locals) if d["ty"] == "std::vec::Vec<usize>" and l in b.local_names()]
    tpush = [bi for bi, tt in b.calls() if callee_name(tt["f"], fb) == "std::vec::Vec::push" and vars_.root_key(tt["args"][0]) in [("L", x) for x in tab_]]
    if R.anchor(bool(tpush), "units:last:pushes", "pushes into the command -> block table"):
        lps = [(be, cfg.natural_loop(be)) for be in cfg.back_edges() if all(x in cfg.natural_loop(be) for x in tpush)]
        if R.anchor(bool(lps), "units:last:loop", "the grouping loop that fills the command -> block table"):
            be_, lp_ = min(lps, key=lambda x: len(x[1]))
            hd_ = be_[1]
            out_ = [x for x in range(len(b.blocks)) if x not in lp_]
            # the element edge: successors of the head's iterator test that stay in the loop
            sws = [x for x in lp_ if b.blocks[x]["term"]["k"] == "switch" and any(y not in lp_ for y in cfg.succ[x])]
            stay_ = [y for x in sws for y in cfg.succ[x] if y in lp_]
            R.check(bool(stay_) and not reaches_without(cfg, stay_, [hd_], cut_blocks=tpush + out_), "units:last:table_total", "every pre-executed command gets its entry in the command -> block table (no path through an iteration of the grouping loop avoids the push)", b.blocks[tpush[0]]["term"]["span"]["at"])
    # every read or write of a label-table entry in the rewrite sweep is behind the bounds test of the cursor
    evb = Events(b, fb, roles=roles)
    n_idx = 0
    for bi, tt in b.calls():
        n_ = callee_name(tt["f"], fb)
        if n_ in ("core::ops::index::Index::index", "core::ops::index::IndexMut::index_mut") and roles.of_operand(tt["args"][0], bi) == "State::get_all_point(STATE)":
            n_idx += 1
            ix = roles.of_operand(tt["args"][1], bi)
            R.check("LT[%s,Vec::len(State::get_all_point(STATE))]=1" % ix in dominating_edge_labels(cfg, b, evb, bi), "units:point:bounded:%d" % n_idx, "the label table is indexed only behind the test cursor < number of labels (index %s)" % ix[:50], tt["span"]["at"])
    # the emission loop visits every block and, inside it, every command of the block
    its_ = {bi: roles.of_operand(tt["args"][0], bi) for bi, tt in b.calls() if callee_name(tt["f"], fb) == "core::iter::traits::collect::IntoIterator::into_iter"}
    outer_ = [bi for bi, r_ in its_.items() if r_ in ("Range::Range{K0,Vec::len(BLOCKS)}", "ENUMERATE([T]::iter(BLOCKS))", "[T]::iter(BLOCKS)")]
    inner_ = [bi for bi, r_ in its_.items() if r_ in ("Index::index(BLOCKS,ELEM)", "ELEM<ENUMERATE([T]::iter(BLOCKS))>.1", "ELEM<[T]::iter(BLOCKS)>")]
    cmds_ = [(bi, tt) for bi, tt in b.calls() if callee_name(tt["f"], fb) == COMPILE + "command"]
    ok_ = len(outer_) == 1 and len(inner_) == 1 and len(cmds_) == 1
    why_ = "block loops %s, command loops %s, calls of command() %d" % ([its_[x] for x in outer_], [its_[x] for x in inner_], len(cmds_))
    if ok_:
        cb_, ct_ = cmds_[0]
        item = roles.of_operand(ct_["args"][1], cb_)
        lps = [(be, cfg.natural_loop(be)) for be in cfg.back_edges() if cb_ in cfg.natural_loop(be)]
        be_, lp_ = min(lps, key=lambda x: len(x[1])) if lps else ((None, None), set())
        ps_ = [bi for bi, tt in b.calls() if callee_name(tt["f"], fb).endswith("String::push_str") and bi in lp_ and "compile::command(" in roles.of_operand(tt["args"][1], bi)]
        out_ = [x for x in range(len(b.blocks)) if x not in lp_]
        sws = [x for x in lp_ if b.blocks[x]["term"]["k"] == "switch" and any(y not in lp_ for y in cfg.succ[x])]
        stay_ = [y for x in sws for y in cfg.succ[x] if y in lp_]
        ok_ = item.startswith("ELEM<") and ("BLOCKS" in item) and len(ps_) == 1 and bool(stay_) and not reaches_without(cfg, stay_, [be_[1]], cut_blocks=ps_ + out_) and reaches_without(cfg, [inner_[0]], cb_) and reaches_without(cfg, [outer_[0]], inner_[0])
        why_ += ", item %s, appended %d time(s)" % (item[:50], len(ps_))
    R.check(ok_, "units:emit:every_command", "the emitted loop body holds every block (0 .. number of blocks) and, for each block, the code of every command in it, appended to the output: %s" % why_, cmds_[0][1]["span"]["at"] if cmds_ else None)
    # label table
    for t in find("point.insert("):
        rs = [roles.of_origin(a) for a in t.args]
        R.check(rs[1].endswith(".1") and "State::get_all_point" in rs[1], "units:point:source", "emitted label targets come from the label table's entries: %s" % rs, t.where)
        R.check(rs[0] == rs[1][:-2] + ".0", "units:point:key", "the emitted label key is the key of the same table entry whose target is emitted: %s" % rs, t.where)
    # every label target is rewritten to a block index inside the grouping loop
    rew = []
    for bi, blk in enumerate(b.blocks):
        for si, s in enumerate(blk["stmts"]):
            if s["k"] == "assign" and s["p"]["proj"] and any(isinstance(e, dict) and e.get("n") == "1" for e in s["p"]["proj"]):
                val = roles.of_origin(roles.org.of_rvalue(s["r"], bi, si))
                rew.append((val, s["span"]["at"]))
    R.check(len(rew) == 1 and rew[0][0] == IDX, "units:point:rewrite", "label targets (command indices) are rewritten to the index of the block that holds the command: %s" % rew)
    # the rewrite advances one cursor through the table while walking the commands in order: the table must be ordered
    # by command index (the .1 component) when the walk starts
    sorts = [(bi, tt) for bi, tt in b.calls() if callee_name(tt["f"], fb).rsplit("::", 1)[-1] in ("sort_by", "sort_unstable_by", "sort_by_key", "sort_unstable_by_key", "sort_by_cached_key", "sort", "sort_unstable") and "State::get_all_point" in roles.of_operand(tt["args"][0], bi)]
    rew_blocks = [bi for bi, blk in enumerate(b.blocks) for s in blk["stmts"] if s["k"] == "assign" and s["p"]["proj"] and any(isinstance(e, dict) and e.get("n") == "1" for e in s["p"]["proj"])]
    if R.anchor(len(sorts) == 1, "units:point:sort", "the one sort of the label table before the rewrite sweep (found %d)" % len(sorts)):
        sb_, st_ = sorts[0]
        kind = callee_name(st_["f"], fb).rsplit("::", 1)[-1]
        keys = []
        for c in fb.closures_of(b):
            if len(st_["args"]) > 1 and c.name.rsplit("::", 1)[-1] in roles.org.of_operand(st_["args"][1], sb_, "t")[1]:
                cr = Roles(c, fb, param_roles={i: "P%d" % i for i in range(1, c.argc + 1)})
                ccfg = normal_cfg(c)
                for r_ in ccfg.returns:
                    keys.append(cr.of_origin(cr.org.of_place({"l": 0, "proj": []}, r_, "t")))
        if "key" in kind:
            ok = keys == ["P2.1"]
        else:
            ok = len(keys) == 1 and keys[0] in ("UNWRAP(PartialOrd::partial_cmp(P2.1,P3.1))", "Ord::cmp(P2.1,P3.1)", "PartialOrd::partial_cmp(P2.1,P3.1)")
        R.check(ok, "units:point:sorted_by_location", "the label table is sorted by command index (ascending) before the single-cursor rewrite sweep: %s %s" % (kind, keys), st_["span"]["at"])
        R.check(bool(rew_blocks) and not any(reaches_without(cfg, [0], rb, cut_blocks=[sb_]) for rb in rew_blocks), "units:point:sort_first", "the sort precedes the rewrite on every path", st_["span"]["at"])
    # freshness of the block index: `len(BLOCKS) - 1` is the index of the block that holds the command only between
    # the statement that put the command into its block and the one that opens the next (empty) block.  (Roles do
    # not see this: the expression reads the same before and after `codes.push(Vec::new())`.)
    opens, adds = [], []
    for bi, tt in b.calls():
        if callee_name(tt["f"], fb) == "std::vec::Vec::push" and not b.blocks[bi]["cleanup"]:
            k0 = vars_.root_key(tt["args"][0])
            if k0 == ("L", BL):
                arg = roles.of_operand(tt["args"][1], bi)
                r0 = roles.of_operand(tt["args"][0], bi)
                if r0 == "BLOCKS" and arg in ("VEC", "Vec::new()"):
                    opens.append(bi)
                else:
                    adds.append(bi)
    uses = []
    for bi, tt in b.calls():
        if callee_name(tt["f"], fb) == "std::vec::Vec::push" and vars_.root_key(tt["args"][0]) in [("L", x) for x in [l for l, d in enumerate(b.locals) if d["ty"] == "std::vec::Vec<usize>" and l in b.local_names()]] and roles.of_operand(tt["args"][1], bi) == IDX:
            uses.append((bi, "command -> block table"))
    for rb in rew_blocks:
        uses.append((rb, "label target rewrite"))
    loops_ = {}
    for be in cfg.back_edges():
        loops_.setdefault(be[1], set()).update(cfg.natural_loop(be))
    if R.anchor(bool(opens) and bool(adds) and bool(uses), "units:fresh:anchors", "where a command is put into a block, where the next block is opened, and where the block index is recorded"):
        from .p_c11 import _feeding_calls
        LEN = {"std::vec::Vec::len"}
        for ub, what in uses:
            heads_ = [h for h, bl in loops_.items() if ub in bl]
            # where the length was read: the Vec::len call(s) whose result flows into the recorded value
            if what.startswith("command"):
                ops_ = [b.blocks[ub]["term"]["args"][1]]
            else:
                ops_ = [st_["r"]["x"] for st_ in b.blocks[ub]["stmts"] if st_["k"] == "assign" and st_["p"]["proj"] and st_["r"]["k"] == "use" and any(isinstance(e, dict) and e.get("n") == "1" for e in st_["p"]["proj"])]
            reads = set()
            for o_ in ops_:
                reads |= _feeding_calls(b, fb, vars_, o_, LEN)
            reads = reads or {ub}
            stale = [o for o in opens if any(reaches_without(cfg, cfg.succ[o], lb, cut_blocks=set(adds) | set(heads_)) for lb in reads)]
            R.check(not stale, "units:fresh:%s" % what.replace(" ", "_"), "the block index recorded by the %s is read after the command was put into its block and before the next block is opened" % what, b.blocks[ub]["term"]["span"]["at"] if b.blocks[ub]["term"].get("span") else None)
    # output computed during pre-execution: stack 1 goes into the emitted print!, stack 2 into the emitted eprint!,
    # each under the guard that this very stack is not empty, and that same stack is cleared afterwards
    evp = Events(b, fb, roles=roles)
    for fn_, k_ in ((COMPILE + "fn_print", "1"), (COMPILE + "fn_eprint", "2")):
        sites = [(bi, t) for bi, t in b.calls() if callee_name(t["f"], fb) == fn_]
        if not R.anchor(len(sites) == 1, "units:preout:%s" % k_, "the call of %s" % fn_.rsplit("::", 1)[-1]):
            continue
        bi, t = sites[0]
        txt = roles.of_operand(t["args"][1], bi)
        labs = [l for l in dominating_edge_labels(cfg, b, evp, bi) if "Vec::is_empty(State::get_stack(STATE,K" in l]
        want_s = "State::get_stack(STATE,K%s)" % k_
        other_s = "State::get_stack(STATE,K%s)" % ("2" if k_ == "1" else "1")
        cl_same = [b2 for b2, t2 in b.calls() if callee_name(t2["f"], fb) == "std::vec::Vec::clear" and roles.of_operand(t2["args"][0], b2) == want_s]
        covered = bool(cl_same) and not (reaches_without(cfg, [0], bi, cut_blocks=cl_same) and reaches_without(cfg, [bi], cfg.returns, cut_blocks=cl_same))
        if bool(cl_same) and not covered:
            # the clear may sit in a helper that returns Option: follow the paths to the site with path-precise origins
            # and drop those on which a discriminant test contradicts the value constructed on that very path
            try:
                feas_avoiding = False
                for p_ in acyclic_paths(cfg, 0, [bi], 3000):
                    if any(x in cl_same for x in p_):
                        continue
                    org_ = PathOriginsOv(b, fb, p_, overrides={BL: ("role", "BLOCKS")})
                    ok_ = True
                    for i_, b2 in enumerate(p_[:-1]):
                        t2 = b.blocks[b2]["term"]
                        if t2["k"] != "switch":
                            continue
                        o2 = org_.of_operand(t2["x"], b2, "t")
                        if o2[0] == "discr" and o2[1][0] == "agg" and o2[1][1].rsplit("::", 1)[-1] in ("None", "Some"):
                            v2 = 1 if o2[1][1].endswith("Some") else 0
                            tk = [bb for a_, bb in t2["arms"] if int(a_) == v2]
                            tk = tk[0] if tk else t2["otherwise"]
                            if tk != p_[i_ + 1]:
                                ok_ = False
                                break
                    if ok_:
                        feas_avoiding = True
                        break
                covered = not feas_avoiding
            except RuntimeError:
                pass
        ok = want_s in txt and other_s not in txt and all(want_s in l for l in labs) and all(l.endswith("=0") for l in labs) and covered
        R.check(ok, "units:preout:stack%s" % k_, "the text pre-execution wrote to stack %s is emitted through %s (never guarded by the emptiness of the other stack), and every run that emits it also clears that stack: text from %s, guards %s, clears of it %d" % (k_, fn_.rsplit("::", 1)[-1], txt[:60], [l[-40:] for l in labs], len(cl_same)), t["span"]["at"])
    # how commands are grouped into blocks, as a decision table per command: an area-carrying command is the last of
    # its block (it starts a new block unless the open one is empty, and a fresh empty block is opened after it); any
    # other command joins the open block
    LASTEMPTY = "BR[Vec::is_empty(UNWRAP([T]::last(BLOCKS)))]"

    def grouping_rows(head_, blocks_):
        rows = set()
        latches = [x for x in blocks_ if head_ in cfg.succ[x]]
        for p_ in acyclic_paths(cfg, head_, latches, 6000):
            if any(x not in blocks_ for x in p_):
                continue
            org_ = PathOriginsOv(b, fb, p_, overrides={BL: ("role", "BLOCKS")})
            r_ = Roles(b, fb, param_roles={1: "STATE", 2: "CODE", 3: "LEVEL"}, org=org_)
            e_ = Events(b, fb, roles=r_)
            g_, ev_ = [], []
            for i_, bi_ in enumerate(p_):
                t_ = b.blocks[bi_]["term"]
                if t_["k"] == "call" and callee_name(t_["f"], fb) in ("std::vec::Vec::push", "std::vec::Vec::pop"):
                    tgt_ = r_.of_operand(t_["args"][0], bi_)
                    if callee_name(t_["f"], fb).endswith("pop") and tgt_ == "BLOCKS":
                        ev_.append("POP")
                    elif tgt_ == "BLOCKS":
                        a_ = r_.of_operand(t_["args"][1], bi_)
                        ev_.append("OPEN" if a_ in ("VEC", "Vec::new()") else "NEWBLOCK(c)")
                    elif tgt_ == "UNWRAP([T]::last_mut(BLOCKS))":
                        ev_.append("APPEND(c)")
                if i_ + 1 < len(p_) and t_["k"] == "switch":
                    lab_ = e_.generic_edge(bi_, t_, p_[i_ + 1]) or ""
                    if lab_.startswith(LASTEMPTY):
                        g_.append("EMPTY=" + lab_[-1])
                    elif lab_.startswith("SW[DISCR(") and ("get_area" in lab_ or lab_.startswith("SW[DISCR(AREA")):
                        g_.append("AREA=" + ("Val" if lab_.endswith("=0") else "Nil"))
            gs_ = set(g_)
            if {"AREA=Val", "AREA=Nil"} <= gs_ or {"EMPTY=0", "EMPTY=1"} <= gs_:
                continue  # the same test taken both ways on one path: infeasible
            rows.add((tuple(sorted(gs_)), tuple(ev_)))
        return rows

    want_g = {(("AREA=Val", "EMPTY=0"), ("NEWBLOCK(c)", "OPEN")), (("AREA=Val", "EMPTY=1"), ("APPEND(c)", "OPEN")), (("AREA=Nil",), ("APPEND(c)",))}
    n_group = 0
    for h_, bl_ in sorted(loops_.items()):
        has_append = any(b.blocks[x]["term"]["k"] == "call" and callee_name(b.blocks[x]["term"]["f"], fb) == "std::vec::Vec::push" and roles.of_operand(b.blocks[x]["term"]["args"][0], x) == "UNWRAP([T]::last_mut(BLOCKS))" for x in bl_)
        inner_heads = [h2 for h2, bl2 in loops_.items() if h2 != h_ and h2 in bl_ and any(b.blocks[x]["term"]["k"] == "call" and callee_name(b.blocks[x]["term"]["f"], fb) == "std::vec::Vec::push" and roles.of_operand(b.blocks[x]["term"]["args"][0], x) == "UNWRAP([T]::last_mut(BLOCKS))" for x in bl2)]
        if not has_append or inner_heads:
            continue
        n_group += 1
        try:
            got_g = grouping_rows(h_, bl_)
        except RuntimeError as e_:
            got_g = {("too many paths", str(e_))}
        R.check(got_g == want_g, "units:grouping:%d" % n_group, "grouping into blocks: an area-carrying command closes its block (new block unless the open one is empty, then a fresh empty block); other commands join the open block", b.blocks[h_]["term"]["span"]["at"], {"unexpected": sorted(map(str, got_g - want_g)), "missing": sorted(map(str, want_g - got_g))})
    # between and after the two grouping loops the open block is normalised: an empty block is opened after the
    # pre-executed prefix unless one is open already; an empty block left at the very end is dropped
    norm_rows = set()
    for bi_, t_ in b.calls():
        if b.blocks[bi_]["cleanup"] or any(bi_ in bl_ for bl_ in loops_.values()):
            continue
        n_ = callee_name(t_["f"], fb)
        if n_ in ("std::vec::Vec::push", "std::vec::Vec::pop") and roles.of_operand(t_["args"][0], bi_) == "BLOCKS":
            what_ = "POP" if n_.endswith("pop") else ("OPEN" if roles.of_operand(t_["args"][1], bi_) in ("VEC", "Vec::new()") else "OTHER")
            labs_ = sorted(l_[len(LASTEMPTY):] for l_ in dominating_edge_labels(cfg, b, Events(b, fb, roles=roles), bi_) if l_.startswith(LASTEMPTY))
            norm_rows.add((what_, tuple(labs_[-1:])))
    R.check(norm_rows == {("OPEN", ("=0",)), ("POP", ("=1",))}, "units:grouping:normalise", "outside the grouping loops an empty block is opened only when the open block is not empty, and a block is dropped only when it is empty: %s" % sorted(norm_rows), b.span)
    R.floor("grouping_loops", n_group, 2, "loops that group commands into blocks (pre-executed prefix, residual program)", slack=1.0)
    # the pre-state is serialised exactly for level >= 2 (where a pre-executed prefix exists)
    evl = Events(b, fb, roles=roles)
    for pat, key in (("stack.data[", "restore"), ("    cur = ", "cur"), ("    last = ", "last"), ("point.insert(", "point"), ("    state = ", "start")):
        for t in find(pat):
            labs = sorted(l for l in dominating_edge_labels(cfg, b, evl, t.block) if "LEVEL" in l)
            R.check("LT[LEVEL,K2]=0" in labs and not any(l.startswith("LT[LEVEL,K") and l != "LT[LEVEL,K2]=0" for l in labs), "units:level2:%s" % key, "the %s line of the pre-state is emitted exactly for level >= 2: %s" % (key, labs), t.where)
    # a label is rewritten exactly when its recorded command index is the command just grouped
    for rb in rew_blocks:
        labs = sorted(l for l in dominating_edge_labels(cfg, b, evl, rb, entry=[h for h, bl in loops_.items() if rb in bl and len(bl) == max(len(x) for hh, x in loops_.items() if rb in x)][0]) if l.startswith("EQ[") and ".1" in l)
        R.check(len(labs) == 1 and labs[0].endswith("=1") and "ELEM<ENUMERATE(" in labs[0] and ".0" in labs[0], "units:point:match", "a label target is rewritten when (and only when) it equals the index of the command being grouped: %s" % [l[-70:] for l in labs], b.blocks[rb]["stmts"][0]["span"]["at"] if b.blocks[rb]["stmts"] else None)
    # the label cursor starts at the first label and advances by one
    curs = {}
    for l_, ds_ in vars_.defs.items():
        if b.lty(l_) == "usize" and l_ in b.local_names():
            vals_ = [roles.of_origin(org.of_rvalue(d_[3]["r"], d_[1], d_[2])) for d_ in ds_ if d_[0] == "assign"]
            if any(v_.endswith(" Add K1)") and "LOOPVAR" in v_ for v_ in vals_) and any(rb_ in [d_[1] for d_ in ds_] for rb_ in rew_blocks + [x for rb in rew_blocks for x in cfg.succ[rb]]):
                curs[l_] = vals_
    idx_inits = [v_ for vals_ in curs.values() for v_ in vals_ if not v_.endswith(" Add K1)")]
    if rew_blocks:
        R.check(bool(curs) and idx_inits == ["K0"] * len(idx_inits) and len(idx_inits) >= 1, "units:point:cursor", "the cursor of the label rewrite starts at the first label (0) and advances by one per rewritten label: %s" % list(curs.values()), b.span)
    # the restored selection
    for t in find("cur = "):
        r = roles.of_origin(t.args[0])
        R.check(r == "CUR", "units:cur", "the restored selected stack is the pre-executed state's current stack: %s" % r, t.where)
    # restored stacks: index and contents of the same stack
    for t in find("stack.data["):
        rs = [roles.of_origin(a) for a in t.args]
        m0 = rs[0]
        ok = m0.startswith("ELEM<State::get_all_stack_index(STATE)>") and rs[1] == "compile::vec_to_str(State::get_stack(STATE,%s))" % m0
        R.check(ok, "units:restore", "each restored stack is written to its own index: %s" % [x[:80] for x in rs], t.where)
        # every non-empty stack is restored: inside the restore loop the only decision is emptiness of that stack
        lp = [bl for h, bl in loops_.items() if t.block in bl]
        if R.anchor(bool(lp), "units:restore_loop", "the loop over the stack indices that emits the restore lines"):
            inner = min(lp, key=len)
            evr = Events(b, fb, roles=roles)
            conds = set()
            for gb in inner:
                tt = b.blocks[gb]["term"]
                if tt["k"] == "switch" and not b.blocks[gb]["cleanup"]:
                    for s_ in cfg.succ[gb]:
                        lab = evr.generic_edge(gb, tt, s_)
                        if lab and lab[:3] in ("BR[", "LT[", "EQ["):
                            conds.add(lab.rsplit("=", 1)[0])
            R.check(conds == {"BR[Vec::is_empty(State::get_stack(STATE,%s))]" % m0}, "units:restore_all", "every non-empty stack of the pre-executed state is restored (the only skip is an empty stack): %s" % sorted(c[:90] for c in conds), t.where)
            dl = [l for l in dominating_edge_labels(cfg, b, evr, t.block) if "Vec::is_empty(State::get_stack(STATE," in l and "get_all_stack_index" in l]
            R.check(dl == ["BR[Vec::is_empty(State::get_stack(STATE,%s))]=0" % m0], "units:restore_nonempty", "a restore line is emitted for the stacks that are not empty (an empty `vec![]` line would not even type-check): %s" % [l[-30:] for l in dl], t.where)
        R.check("Num::from_string(x.to_string())" in t.skeleton(), "units:restore_reader", "restored values are read back with Num::from_string (the inverse of the writer, C09)", t.where)
        # ... all of them, in the order they were written: the emitted line applies no positional adapter or reordering
        # operation to the literals (the template is text, so the words of A-ORD are looked for in the text)
        import re as _re
        from . import order as _order
        words = set(_re.findall(r"\.([a-z_]+)\(", t.skeleton()))
        bad = sorted(words & (_order.ADAPTERS | _order.SEQ_OPS))
        R.check(not bad, "units:restore_in_order", "the emitted restore line reads every literal in the order written (no rev/skip/take/sort.. between `vec![..]` and `collect()`): %s" % bad, t.where)
    R.floor("control_templates", len(find("while state < ")) + len(find("    state = ")) + len(find("Some(")) + len(find("point.insert(")), 4, "templates that emit control targets")


RULES += [
    ("C03.STACK", "emitted Stack::pop / Stack::push in both prelude variants have the compiled form of the I/O and NaN rules", rule_stack),
    ("C03.UNITS", "every emitted control target is a block index; the loop bound is the block count", rule_units),
    ("C03.CODEC", "restored stack values are embedded as quoted Display text and read back by its inverse", p_c09.rule_embed),
    ("C03.CODEC2", "Num::from_string inverts Display for every shape", p_c09.rule_num_codec),
]

RULES += [
    ("C03.PRESTATE", "the state a level-2 program resumes from is the state before the abandoned command (roll-back of pre-execution)", p_c02.rule_rollback),
    ("C03.PRESIB", "pre-execution agrees with the interpreter command by command", p_c02.rule_sib),
    ("C03.PRECAPTURE", "output captured during pre-execution is put back character by character on stacks 1/2; the residual program starts at the abandoned command", p_c02.rule_capture),
]


# ------------------------------------------------------------------------------------------------ format-string position
FMT_MACRO = re.compile(r"\b(?:print|println|eprint|eprintln|format|panic|unreachable|todo|unimplemented)!\s*[\(\[\{]\s*$|\b(?:write|writeln)!\s*[\(\[\{][^,;]*,\s*$|\b(?:assert|debug_assert)!\s*[\(\[\{][^;]*,\s*$")
TEXT_TYPES = ("std::string::String", "&str", "str", "char", "&std::string::String")
BRACE_FREE = {"hyeong::core::compile::make_indent": "spaces only"}


def rule_fmtpos(ctx, R):
    """Text computed from the program (captured output, values) is emitted as an *argument* of the emitted
    print!/eprint!/format!-style macro, never as its format string: a `{` or `}` in it would be read as a placeholder
    and rustc rejects the program (or prints something else)."""
    fb = ctx.fb
    n_tpl = n_holes = n_text = 0
    for name in sorted(fb.bodies):
        if not name.startswith(COMPILE):
            continue
        b = fb.bodies[name]
        try:
            ts = templates_of(b, fb)
        except Exception as e:
            R.fail("fmtpos:templates:%s" % name, "templates of %s cannot be recovered: %s" % (name, e), b.span)
            continue
        if ts:
            R.analyse(name)
        for ti, t in enumerate(ts):
            n_tpl += 1
            before = ""
            for p in t.pieces:
                if p[0] == "lit":
                    before += p[1]
                    continue
                n_holes += 1
                ty = (t.types or [None] * len(t.args))[p[1]] if t.types is not None and p[1] < len(t.types) else None
                textual = ty is None or ty in TEXT_TYPES or "Num" in ty
                o = t.args[p[1]]
                while isinstance(o, tuple) and o and o[0] in ("ref", "deref") and len(o) >= 2 and isinstance(o[-1], tuple):
                    o = o[-1]
                const = isinstance(o, tuple) and o and o[0] == "const"
                safe = isinstance(o, tuple) and o and o[0] == "call" and o[1] in BRACE_FREE
                if textual and not const and not safe:
                    n_text += 1
                    fmtpos = FMT_MACRO.search(before) is not None
                    R.check(not fmtpos, "fmtpos:%s:%d:%d" % (name.rsplit("::", 1)[-1], ti, p[1]),
                            "computed text (%s, %s) is spliced into the emitted source as an argument, not in the format-string position of an emitted macro: ...%r{}" % (ty, show(o)[:50], before[-40:]), t.where)
                before += "\x00"
    R.floor("templates", n_tpl, 27, "format templates of compile.rs")
    R.floor("computed_text_holes", n_text, 5, "holes filled with computed text")


RULES += [("C03.FMTPOS", "computed text never lands in the format-string position of an emitted print!/format!-style macro", rule_fmtpos)]


def rule_numctor(ctx, R):
    from . import p_c05
    return p_c05.rule_ctor(ctx, R)


RULES.append(("C03.NUMCTOR", "the number constructor that emitted programs call for every pushed count (Num::from_num -> BigNum::new) keeps every bit and the sign, zero non-negative (shared with C05.CTOR)", rule_numctor))


RULES.append(("C03.SLOTS", "level-1 renumbering keeps every selectable stack apart (shared with C02.SLOTS): a program compiled at level 1 or 2 addresses the stacks the interpreter addresses", p_c02.rule_slots))


def rule_levels(ctx, R):
    """the command line hands the chosen level through unchanged: levels >= 1 go through optimize(code, level) and
    compile / run what it returns, level 0 compiles / runs the parsed code on a fresh unoptimised state"""
    fb = ctx.fb_all
    for fn, sink in (("hyeong::app::build::run", COMPILE + "build_source"), ("hyeong::app::run::run", None)):
        b = fb.bodies.get(fn)
        if not R.anchor(b is not None, fn, fn):
            continue
        R.analyse(fn)
        cfg = normal_cfg(b)
        pr = {i: ("OPT" if "HyeongOption" in b.lty(i) else "P%d" % i) for i in range(1, b.argc + 1)}
        roles = Roles(b, fb, param_roles=pr)
        ev = Events(b, fb, roles=roles)
        ge1, lt1 = [], []
        for gb, blk in enumerate(b.blocks):
            tt = blk["term"]
            if tt["k"] == "switch" and not blk["cleanup"]:
                for s_ in cfg.succ[gb]:
                    lab = ev.generic_edge(gb, tt, s_) or ""
                    if lab in ("LT[OPT.optimize,K1]=0", "EQ[K0,OPT.optimize]=0", "LT[K0,OPT.optimize]=1"):
                        ge1.append((gb, s_))
                    elif lab in ("LT[OPT.optimize,K1]=1", "EQ[K0,OPT.optimize]=1", "LT[K0,OPT.optimize]=0"):
                        lt1.append((gb, s_))
        short = fn.rsplit("::", 2)[-2]
        if not R.anchor(len(ge1) == 1 and len(lt1) == 1, "levels:%s:test" % short, "the test `level >= 1` of %s" % fn):
            continue
        opts = [(bi, t) for bi, t in b.calls() if callee_name(t["f"], fb) == "hyeong::core::optimize::optimize"]
        if R.anchor(len(opts) == 1, "levels:%s:optimize" % short, "the call of optimize()"):
            ob, ot = opts[0]
            R.check(roles.of_operand(ot["args"][1], ob) == "OPT.optimize", "levels:%s:optimize_level" % short, "optimize() receives the level chosen on the command line unchanged: %s" % roles.of_operand(ot["args"][1], ob), ot["span"]["at"])
            R.check(not reaches_without(cfg, [0], ob, cut_edges=ge1) and not reaches_without(cfg, [lt1[0][1]], ob), "levels:%s:optimize_iff" % short, "optimize() runs exactly for levels >= 1", ot["span"]["at"])
        if sink:
            for bi, t in b.calls():
                if callee_name(t["f"], fb) == sink:
                    first = roles.of_operand(t["args"][0], bi)
                    R.check(roles.of_operand(t["args"][2], bi) == "OPT.optimize", "levels:%s:emit_level:%s" % (short, "opt" if "optimize::optimize" in first else "unopt"), "build_source receives the chosen level unchanged", t["span"]["at"])
                    if "optimize::optimize" in first:
                        R.check(not reaches_without(cfg, [0], bi, cut_edges=ge1), "levels:%s:emit_opt" % short, "the optimised state and code are compiled only for levels >= 1", t["span"]["at"])
                    else:
                        R.check(not reaches_without(cfg, [0], bi, cut_edges=lt1) and "UnOptState::new" in first, "levels:%s:emit_unopt" % short, "the parsed code on a fresh unoptimised state is compiled only for level 0: %s" % first[:60], t["span"]["at"])


RULES.append(("C03.LEVELS", "the level chosen on the command line selects the optimised / unoptimised path and is handed through unchanged", rule_levels))


RULES.append(("C03.STATEAPI", "the accessors build_source reads the pre-state through (all stack indices, all labels, the selected stack, the jump source) return exactly what the state holds (shared with C01.STATEAPI)", p_c01.rule_stateapi))
RULES.append(("C03.WINDOW", "pre-execution reads no command past the log (shared with C02.WINDOW)", p_c02.rule_window))


def rule_dispatch(ctx, R):
    """the emitted main loop finds the block to run by a binary tree of `if state < m { .. } else { .. }`.  The
    generator is an explicit-stack walk over index ranges; its event language (stack operations, templates appended,
    branch outcomes) must equal the reference walk, which emits a correct search tree (DESIGN.md section 12)."""
    from .emitlang import EmitEvents
    from .interp import language
    from .gea import Seq, Star, Alt
    fb = ctx.fb
    b = fb.bodies.get(COMPILE + "build_source")
    if not R.anchor(b is not None, "build_source", "compile::build_source"):
        return
    R.analyse(b.name)
    cfg = normal_cfg(b)
    blocks = [l for l, d in enumerate(b.locals) if d["ty"].startswith("std::vec::Vec<std::vec::Vec<") and l in b.local_names()]
    stk = [l for l, d in enumerate(b.locals) if d["ty"] == "std::vec::Vec<(usize, bool)>" and l in b.local_names()]
    if not R.anchor(len(blocks) == 1 and len(stk) == 1, "dispatch:stack", "the vector of blocks and the explicit stack of (range size, is right half) pairs"):
        return
    roles = Roles(b, fb, param_roles={1: "STATE", 2: "CODE", 3: "LEVEL"}, overrides={blocks[0]: "BLOCKS", stk[0]: "STK"})
    its = {bi: roles.of_operand(t["args"][0], bi) for bi, t in b.calls() if callee_name(t["f"], fb) == "core::iter::traits::collect::IntoIterator::into_iter"}
    ent = [bi for bi, r in its.items() if r == "Range::Range{K0,Vec::len(BLOCKS)}"]
    if not R.anchor(len(ent) == 1, "dispatch:loop", "the loop over the block indices 0 .. number of blocks"):
        return
    cands = [(be, cfg.natural_loop(be)) for be in cfg.back_edges() if be[1] in cfg.reachable_from(ent[0])]
    be, loop = max(cands, key=lambda x: len(x[1]))
    exits = [s_ for x in loop for s_ in cfg.succ[x] if s_ not in loop]
    # the stack starts with the whole range, not marked as a right half
    plain = Roles(b, fb, param_roles={1: "STATE", 2: "CODE", 3: "LEVEL"}, overrides={blocks[0]: "BLOCKS"})
    vars_ = Vars(b)
    inits = []
    for bi, blk in enumerate(b.blocks):
        if blk["cleanup"] or bi in loop:
            continue
        for si, st in enumerate(blk["stmts"]):
            if st["k"] == "assign" and st["r"]["k"] == "agg" and st["r"].get("agg") == "tuple" and not st["p"]["proj"] and b.lty(st["p"]["l"]) == "(usize, bool)":
                inits.append(plain.of_origin(plain.org.of_rvalue(st["r"], bi, si)))
    pushes_out = [bi for bi, t in b.calls() if bi not in loop and callee_name(t["f"], fb) == "std::vec::Vec::push" and vars_.root_key(t["args"][0]) == ("L", stk[0])]
    R.check(inits == ["tuple{Vec::len(BLOCKS),K0}"] and not pushes_out, "dispatch:init", "the walk starts with one range holding all blocks, not marked as a right half: %s" % [x[:120] for x in inits], b.span)
    mk = {vars_.root_key(t["args"][0]) for bi, t in b.calls() if callee_name(t["f"], fb) == COMPILE + "make_indent" and bi in loop}
    mk = {k[1] for k in mk if k and k[0] == "L" and b.lty(k[1]) == "usize" and k[1] in b.local_names()}
    if not R.anchor(len(mk) == 1, "dispatch:indent", "the indentation counter of the emission loop"):
        return
    roles = Roles(b, fb, param_roles={1: "STATE", 2: "CODE", 3: "LEVEL"}, overrides={blocks[0]: "BLOCKS", stk[0]: "STK", list(mk)[0]: "INDENT"})
    ev = EmitEvents(b, fb, roles, "STK")
    ev.indent_local = list(mk)[0]

    def canon(lab):
        # ELEM ranges over 0 .. number of blocks: `ELEM + 1 < n` is `ELEM != n - 1`
        for v in ("0", "1"):
            if lab == "LT[(ELEM Add K1),Vec::len(BLOCKS)]=" + v:
                return "EQ[(Vec::len(BLOCKS) Sub K1),ELEM]=" + ("1" if v == "0" else "0")
        return lab
    ev.canon = canon
    d = language(b, fb, cfg, ent[0], exits, ev)
    L0, L1, L2 = "UNWRAP([T]::last(STK)).0", "UNWRAP([T]::last(STK)).1", "Vec::len(STK)"
    LASTB = "EQ[(Vec::len(BLOCKS) Sub K1),ELEM]"
    specs = []
    for k, form in ((1, "a"), (1, "b"), (2, "a"), (2, "b"), (4, "a"), (4, "b")):
        descend = Seq("LAST", "LT[%s,K2]=0" % L0, "LAST", "PUSH(tuple{(%s Div K2),K0})" % L0, "LAST", "EMIT(\\n{0}if state < {1} {|make_indent(INDENT),(ELEM Add %s))" % L0, "APPEND(text)", "INDENT+=%d" % k)
        leaf = Seq("LAST", "LT[%s,K2]=1" % L0, "Index::index(BLOCKS,ELEM)", "ITER(Index::index(BLOCKS,ELEM))", Star(Seq("CMD(ELEM<Index::index(BLOCKS,ELEM)>)", "APPEND(command)")))
        close = Seq("LT[%s,K2]=0" % L2, "LAST", "BR[%s]=1" % L1, "POP", "INDENT-=%d" % k, "EMIT(\\n{0}}|make_indent(INDENT))", "APPEND(text)")
        stop = Alt("LT[%s,K2]=1" % L2, Seq("LT[%s,K2]=0" % L2, "LAST", "BR[%s]=0" % L1))
        els = Seq("EMIT(\\n{0}} else {|make_indent((INDENT Sub K%d)))" % k, "APPEND(text)") if form == "b" else Seq("INDENT-=%d" % k, "EMIT(\\n{0}} else {|make_indent(INDENT))", "APPEND(text)", "INDENT+=%d" % k)
        nxt = Alt(LASTB + "=1", Seq(LASTB + "=0", "POP", "LAST", "PUSH(tuple{(%s Sub UNWRAP(Vec::pop(STK)).0),K1})" % L0, els))
        specs.append(Seq("ITER(Range::Range{K0,Vec::len(BLOCKS)})", Star(Seq(Star(descend), leaf, Star(close), stop, nxt))))
    p_c01.check_lang_any(R, "dispatch:walk", "the generator of the block dispatch tree (halve the range and open `if state < first + half` until one block is left; emit the block; close every finished right half; turn the finished left half into its right sibling with `} else {`; the indentation counter moves up and down by the same step)", d, specs, b.blocks[ent[0]]["term"]["span"]["at"])


RULES.append(("C03.DISPATCH", "the emitted block dispatch is the binary search tree over the block indices (generator recognised as the reference explicit-stack walk)", rule_dispatch))


def rule_areaemit(ctx, R):
    """the comparison tree of a command's area is emitted by an explicit-stack walk (node, sibling, is right child):
    a `?`/`!` node opens `match stack.pop(cur).partial_cmp(count) { Some(Less|Equal) => {`, its left child is emitted,
    `} _ => {` turns to the right child, finished right children are closed; a leaf emits the label or return jump.
    The walk's event language must equal the reference walk."""
    from .emitlang import EmitEvents
    from .interp import language
    from .gea import Seq, Star, Alt
    fb = ctx.fb
    b = fb.bodies.get(COMPILE + "area")
    if not R.anchor(b is not None, "area", "compile::area"):
        return
    R.analyse(b.name)
    cfg = normal_cfg(b)
    stk = [l for l in b.local_names() if b.lty(l).startswith("std::vec::Vec<(&") and "Area" in b.lty(l)]
    if not R.anchor(len(stk) == 1, "areaemit:stack", "the explicit stack of (node, sibling, is right child)"):
        return
    roles = Roles(b, fb, param_roles={2: "AREA", 3: "COUNT"}, overrides={stk[0]: "STK", 1: "INDENT"})
    ev = EmitEvents(b, fb, roles, "STK")
    ev.indent_local = 1
    ev.ret_events = True
    # which of Less / Equal is printed is a choice of text, not a step of the walk (C03.AREA binds it to the node kind)
    ev.canon = lambda lab: None if (lab.startswith("EQ[K0,UNWRAP([T]::last(STK)).0@Val.type_]") or lab.startswith("SW[UNWRAP([T]::last(STK)).0@Val.type_]")) else lab
    d = language(b, fb, cfg, 0, cfg.returns, ev, stop_at_exit=False)
    N = "UNWRAP([T]::last(STK)).0"
    T_ = N + "@Val.type_"
    LEN = "Vec::len(STK)"
    # the five templates, by what they are (their meaning is C03.AREA's business)
    E = {}
    for bi, tp in ev.tpl.items():
        sk = tp.skeleton()
        k_ = "MATCH" if "partial_cmp" in sk else "LABEL" if "point.entry(" in sk else "RETURN" if "= last {" in sk else "ELSE" if "_ => {" in sk else "CLOSE" if sk.strip().replace(" ", "").replace("\n", "").replace("{0}", "") == "}}" else None
        if k_:
            E.setdefault(k_, []).append(ev.term(bi, b.blocks[bi]["term"]))
    if not R.anchor(all(len(E.get(k_, [])) == 1 for k_ in ("MATCH", "LABEL", "RETURN", "ELSE", "CLOSE")), "areaemit:templates", "the five templates of the comparison tree (match head, label jump, return jump, else arm, closing braces): %s" % {k_: len(v) for k_, v in E.items()}):
        return
    E = {k_: v[0] for k_, v in E.items()}
    R.check(E["MATCH"].endswith("|make_indent(INDENT),COUNT,PHI(K'Equal'|K'Less'))") and E["LABEL"].endswith("|make_indent(INDENT),((COUNT Shl K4) Add %s))" % T_), "areaemit:args", "the comparison is made with the command's area count and the label key is (area count << 4) + heart kind of the leaf being emitted")
    specs = []
    for k, form in ((1, "a"), (1, "b"), (2, "a"), (2, "b")):
        node = Seq("LAST", "SW[DISCR(%s)]=0" % N, "LT[%s,K2]=1" % T_, "PUSH(tuple{%s@Val.left.0.pointer,%s@Val.right.0.pointer,K0})" % (N, N),
                   E["MATCH"], "APPEND(text)", "INDENT+=%d" % (2 * k))
        leaf = Alt(
            Seq("LAST", "SW[DISCR(%s)]=1" % N),
            Seq("LAST", "SW[DISCR(%s)]=0" % N, "LT[%s,K2]=0" % T_, "LT[%s,K13]=1" % T_, E["LABEL"], "APPEND(text)"),
            Seq("LAST", "SW[DISCR(%s)]=0" % N, "LT[%s,K2]=0" % T_, "LT[%s,K13]=0" % T_, E["RETURN"], "APPEND(text)"))
        close = Seq("LT[%s,K2]=0" % LEN, "LAST", "BR[UNWRAP([T]::last(STK)).2]=1", "POP", "INDENT-=%d" % (2 * k), E["CLOSE"], "APPEND(text)")
        stop = Alt("LT[%s,K2]=1" % LEN, Seq("LT[%s,K2]=0" % LEN, "LAST", "BR[UNWRAP([T]::last(STK)).2]=0"))
        # the else arm is one step less indented: the counter is moved down and up again, or the text is built from counter - step
        els = Seq("INDENT-=%d" % k, E["ELSE"], "APPEND(text)", "INDENT+=%d" % k) if form == "a" else Seq(E["ELSE"].replace("make_indent(INDENT)", "make_indent((INDENT Sub K%d))" % k), "APPEND(text)")
        turn = Seq("LT[%s,K2]=0" % LEN, "POP", "PUSH(tuple{UNWRAP(Vec::pop(STK)).1,UNWRAP(Vec::pop(STK)).0,K1})", els)
        specs.append(Seq(Star(Seq(Star(node), leaf, Star(close), stop, turn)), Star(node), leaf, Star(close), stop, "LT[%s,K2]=1" % LEN, "RET(String::new())"))
    inits = []
    in_loops = set().union(*[cfg.natural_loop(be) for be in cfg.back_edges()]) if cfg.back_edges() else set()
    for bi, blk in enumerate(b.blocks):
        if blk["cleanup"] or bi in in_loops:
            continue
        for si, st in enumerate(blk["stmts"]):
            if st["k"] == "assign" and st["r"]["k"] == "agg" and st["r"].get("agg") == "tuple" and not st["p"]["proj"] and b.lty(st["p"]["l"]).startswith("(&") and b.lty(st["p"]["l"]).endswith("bool)"):
                inits.append(roles.of_origin(roles.org.of_rvalue(st["r"], bi, si)))
    R.check(len(inits) == 1 and inits[0].startswith("tuple{AREA,") and inits[0].endswith(",K0}"), "areaemit:init", "the walk starts at the root of the command's area, not marked as a right child: %s" % inits, b.span)
    p_c01.check_lang_any(R, "areaemit:walk", "the generator of a command's comparison tree", d, specs, b.span)


RULES.append(("C03.AREAEMIT", "the emitted comparison tree of an area is the area's tree (generator recognised as the reference explicit-stack walk)", rule_areaemit))


def rule_buildchain(ctx, R):
    """from the emitted text to the executable: the text build_source returned is what is written, completely, to
    src/main.rs of the build project before cargo runs on that project; the project is created when it is missing"""
    fb = ctx.fb_all
    IO = "hyeong::util::io::"
    sv = fb.bodies.get(IO + "save_to_file")
    if R.anchor(sv is not None, "save_to_file", IO + "save_to_file"):
        R.analyse(sv.name)
        cfg = normal_cfg(sv)
        r_ = Roles(sv, fb, param_roles={1: "PATH", 2: "TEXT"})
        ws = [bi for bi, t in sv.calls() if callee_name(t["f"], fb) == "std::io::Write::write_all" and r_.of_operand(t["args"][0], bi) == "TRY(File::create(PATH))" and r_.of_operand(t["args"][1], bi) in ("String::as_bytes(TEXT)", "str::as_bytes(TEXT)")]
        oks = [bi for bi, blk in enumerate(sv.blocks) if not blk["cleanup"] for st in blk["stmts"] if st["k"] == "assign" and st["p"]["l"] == 0 and st["r"]["k"] == "agg" and st["r"].get("variant") == "Ok"]
        R.check(len(ws) == 1 and bool(oks) and not reaches_without(cfg, [0], oks, cut_blocks=ws), "buildchain:save_all", "save_to_file creates the file and writes the whole text before it reports success", sv.span)
    b = fb.bodies.get("hyeong::app::build::run")
    if not R.anchor(b is not None, "build_run", "app::build::run"):
        return
    R.analyse(b.name)
    cfg = normal_cfg(b)
    pr = {i: ("OPT" if "HyeongOption" in b.lty(i) else "P%d" % i) for i in range(1, b.argc + 1)}
    roles = Roles(b, fb, param_roles=pr)
    ev = Events(b, fb, roles=roles)
    saves = [(bi, t) for bi, t in b.calls() if callee_name(t["f"], fb) == IO + "save_to_file"]
    cargo = [(bi, t) for bi, t in b.calls() if callee_name(t["f"], fb).endswith("ext::execute_command_stderr")]
    if R.anchor(len(saves) == 1 and len(cargo) == 1, "buildchain:sites", "the one save_to_file call and the one cargo invocation of build::run"):
        sb, st = saves[0]
        cb, ct = cargo[0]
        path, text = roles.of_operand(st["args"][0], sb), roles.of_operand(st["args"][1], sb)
        P = "Path::join(UNWRAP(Option::as_ref(OPT.build_path)),K'hyeong-build/"
        R.check(path == P + "src/main.rs')" and text.startswith("PHI(compile::build_source(") and text.count("compile::build_source(") == 2 and "|" in text, "buildchain:saved_text", "what is written to the build project's src/main.rs is the text build_source returned (either branch): %s <- %s" % (path[-40:], text[:60]), st["span"]["at"])
        cmd = roles.of_operand(ct["args"][1], cb)
        R.check(not reaches_without(cfg, [0], cb, cut_blocks=[sb]) and "cargo build --manifest-path=" in cmd and (P + "Cargo.toml')") in cmd, "buildchain:save_before_cargo", "cargo is run on the manifest of that same project, after the text was saved on every path", ct["span"]["at"])
        inst = [bi for bi, t in b.calls() if callee_name(t["f"], fb).endswith("init::install_run")]
        missing = []
        for gb, blk in enumerate(b.blocks):
            tt = blk["term"]
            if tt["k"] == "switch" and not blk["cleanup"]:
                for s_ in cfg.succ[gb]:
                    if (ev.generic_edge(gb, tt, s_) or "") == "BR[Path::exists(%sCargo.toml'))]=0" % P:
                        missing.append((gb, s_))
        R.check(len(inst) == 1 and len(missing) == 1 and not reaches_without(cfg, [0], inst[0], cut_edges=missing) and not reaches_without(cfg, [missing[0][1]], [sb], cut_blocks=inst), "buildchain:project", "the build project is created exactly when its manifest does not exist yet, before the text is saved", b.blocks[inst[0]]["term"]["span"]["at"] if inst else b.span)


RULES.append(("C03.BUILDCHAIN", "`hyeong build` writes the emitted text, whole, to the build project's main.rs before cargo runs on that project; the project is created when missing", rule_buildchain))


def _codeapi(ctx, R):
    from . import p_c01
    return p_c01.rule_codeapi(ctx, R)


RULES.append(("C03.CODEAPI", "the words kind / syllable count / dot count / area count / area mean the fields of the command record: getters and constructors of UnOptCode and OptCode (shared with C01.CODEAPI)", _codeapi))


def _streams(ctx, R):
    from . import p_c01
    return p_c01.rule_streams(ctx, R)


RULES.append(("C03.STREAMS", "what `run` writes to its first writer reaches the process's standard output, its second the standard error (shared with C01.STREAMS)", _streams))





def _clones(ctx, R):
    from . import p_c01
    return p_c01.rule_clones(ctx, R)


RULES.append(("C03.CLONE", "snapshots and copies are complete: Clone of states, commands, areas and numbers copies every field (shared with C01.CLONE)", _clones))


def _unicode(ctx, R):
    from . import p_c13
    return p_c13.rule_unicode(ctx, R)


RULES.append(("C03.UNICODE", "the interpreter's output conversion is floor -> low limb -> checked scalar value, the conversion the emitted runtime's push performs (C03.STACK decides the emitted side; shared with C13.UNICODE)", _unicode))


# rules of other properties re-run under this property's name; resolved by rules/main.py once every module can be
# imported (the owners import this module themselves)
DEFERRED_BUNDLES = [
    {'prop': 'C03', 'tag': 'INT', 'module': 'p_c05', 'only': None, 'skip': (), 'why': 'compiled programs link the same number library'},
    {'prop': 'C03', 'tag': 'WRITER', 'module': 'p_c11', 'only': ('ONCE',), 'skip': (), 'why': 'capture of pre-executed output'},
]
