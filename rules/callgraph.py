"""A-CG: call graph over resolved callees of the local crate.

Edges: resolved local callee; for unresolved trait-method calls (receiver is a type parameter)
every local impl of that trait method plus the trait's default body; every body -> the closures
it constructs (a closure built in a body may be invoked anywhere below it).
External callees are kept by canonical name so that effect sinks can be looked up.
"""
import re
from .facts import callee_name, callee_resolved


class CallGraph:
    def __init__(self, fb):
        self.fb = fb
        self.fb_crate = next(iter(fb.crates.values())) if fb.crates else "hyeong"
        self.local = {}  # body name -> set(body name)
        self.external = {}  # body name -> list of (callee canonical, block, term)
        self.sites = {}  # body name -> list of (block, term, [local target names], ext name|None)
        # trait method name -> local impl bodies
        self.trait_impls = {}
        for b in fb.bodies.values():
            raw = b.raw
            if raw.get("impl_trait"):
                key = raw["impl_trait"] + "::" + b.path.rsplit("::", 1)[-1]
                self.trait_impls.setdefault(key, []).append(b.name)
            if raw.get("in_trait"):
                key = raw["in_trait"] + "::" + b.path.rsplit("::", 1)[-1]
                self.trait_impls.setdefault(key, []).append(b.name)
        for b in fb.bodies.values():
            loc = set()
            ext = []
            sites = []
            for bi, t in b.calls():
                f = t["f"]
                if "indirect" in f:
                    sites.append((bi, t, [], "<indirect>"))
                    ext.append(("<indirect>", bi, t))
                    continue
                targets = []
                r = f.get("resolved")
                name = callee_name(f, fb)
                if r is not None and r in fb.by_path:
                    targets.append(fb.by_path[r].name)
                elif f["def"] in fb.by_path and "trait" not in f:
                    targets.append(fb.by_path[f["def"]].name)
                elif "trait" in f and (r is None or r == f["def"]):
                    # unresolved trait call on a type parameter: local impls for the types that
                    # satisfy the parameter's local trait bounds (+ the trait's default body)
                    targets.extend(self._candidates(b, f, name))
                # calls that reach local code through foreign generic code
                targets.extend(x for x in self._through_foreign(f, name) if x not in targets)
                extn = None
                if not targets or ("trait" in f and r is None):
                    extn = callee_resolved(f, fb) or name
                    ext.append((extn, bi, t))
                    if "trait" in f and r is None:
                        ext.append((name, bi, t))
                sites.append((bi, t, targets, extn))
                loc.update(targets)
            # closures constructed here
            for c in fb.closures_of(b):
                if c.name.count("{closure#") == b.name.count("{closure#") + 1:
                    loc.add(c.name)
            # ... including the closures of helpers that were spliced into this body (their names hang below the helper)
            for blk in b.blocks:
                for st in blk["stmts"]:
                    r_ = st.get("r") if st.get("k") == "assign" else None
                    if isinstance(r_, dict) and r_.get("k") == "agg" and r_.get("agg") == "closure" and r_.get("closure") in fb.by_path:
                        loc.add(fb.by_path[r_["closure"]].name)
            self.local[b.name] = loc
            self.external[b.name] = ext
            self.sites[b.name] = sites

    def _local_trait(self, t):
        t = t.strip()
        if t.startswith("std::") or t.startswith("core::ops") or t.startswith("core::iter") or t.startswith("core::clone") or t.startswith("core::fmt") or t.startswith("core::cmp") or t.startswith("core::convert") or t.startswith("core::marker"):
            return None
        return self.fb_crate + "::" + t.split("<")[0]

    FMT_CTORS = {
        "new_display": "core::fmt::Display", "new_debug": "core::fmt::Debug", "new_lower_hex": "core::fmt::LowerHex",
        "new_upper_hex": "core::fmt::UpperHex", "new_octal": "core::fmt::Octal", "new_binary": "core::fmt::Binary",
        "new_lower_exp": "core::fmt::LowerExp", "new_upper_exp": "core::fmt::UpperExp", "new_pointer": "core::fmt::Pointer",
    }

    def _through_foreign(self, f, name):
        """local bodies a foreign callee can reach because it is instantiated with a local type:
        formatting arguments (Argument::new_display::<T> stores <T as Display>::fmt), ToString, and
        foreign trait impls for wrappers of local types (Box<T>: Clone calls <T as Clone>::clone)"""
        fb = self.fb
        out = []
        gargs = f.get("gargs") or []
        last = f["def"].rsplit("::", 1)[-1]
        want = []  # (trait, method)
        if "core::fmt::rt::" in f["def"] and last in self.FMT_CTORS:
            want.append((self.FMT_CTORS[last], "fmt"))
        elif name == "alloc::string::ToString::to_string":
            want.append(("core::fmt::Display", "fmt"))
        elif "trait" in f and f.get("resolved") not in fb.by_path:
            want.append((f["trait"], last))
        if not want or not gargs:
            return out
        for i in fb.impls:
            for tr, meth in want:
                if i["trait"] != tr:
                    continue
                st = i["self"]
                base = st.lstrip("&").replace("mut ", "").split("<")[0]
                if not any(base and re.search(r"(^|[^\w:])" + re.escape(base) + r"($|[^\w:])", g) for g in gargs if not g.startswith("'")):
                    continue
                for it in i["items"]:
                    if it["name"] == meth:
                        bb = fb.by_path.get(it["def"])
                        if bb is not None:
                            out.append(bb.name)
        return out

    def _param_types(self, owner, self_ty):
        """concrete local types a (possibly projected) type parameter can stand for; None = unknown"""
        fb = self.fb
        m = re.match(r"^<(.+) as (.+)>::(\w+)$", self_ty)
        if m:
            base, tr, assoc = m.group(1), self._local_trait(m.group(2)), m.group(3)
            base_tys = self._param_types(owner, base)
            out = set()
            for i in fb.impls:
                if i["trait"] == tr and (base_tys is None or i["self"] in base_tys):
                    for it in i["items"]:
                        if it["name"] == assoc and it.get("assoc_ty"):
                            out.add(it["assoc_ty"])
            return out or None
        bounds = set()
        for p in owner.raw.get("preds", []):
            if ": " in p:
                lhs, rhs = p.split(": ", 1)
                if lhs == self_ty:
                    lt = self._local_trait(rhs)
                    if lt:
                        bounds.add(lt)
        allowed = None
        for tr in bounds:
            tys = {i["self"] for i in fb.impls if i["trait"] == tr}
            allowed = tys if allowed is None else (allowed & tys)
        return allowed

    def _candidates(self, b, f, name):
        fb = self.fb
        self_ty = f["gargs"][0] if f.get("gargs") else ""
        owner = b
        while owner.kind == "closure" and owner.raw.get("parent") in fb.by_path:
            owner = fb.by_path[owner.raw["parent"]]
        trait = f["trait"]
        last = name.rsplit("::", 1)[-1]
        impl_selfs = {i["self"] for i in fb.impls if i["trait"] == trait}
        is_param = self_ty.startswith("<") or any(p.split(": ", 1)[0] == self_ty for p in owner.raw.get("preds", []) if ": " in p)
        if f.get("rkind") not in (None, "item"):
            return []  # compiler-generated shim (tuple clone, fn pointer, ...): no local body
        if self_ty in impl_selfs:
            allowed = {self_ty}  # concrete receiver
        elif is_param:
            allowed = self._param_types(owner, self_ty)
        else:
            allowed = set()  # concrete foreign type
        out = []
        for i in fb.impls:
            if i["trait"] != trait:
                continue
            if allowed is not None and i["self"] not in allowed:
                continue
            for it in i["items"]:
                # the called method; for a provided method of an external trait, every method of the
                # impl (the provided method may call any of them)
                local_trait = trait.startswith(self.fb_crate + "::")
                if it["name"] == last or (not local_trait and not any(x["name"] == last for x in i["items"])):
                    bb = fb.by_path.get(it["def"])
                    if bb is not None:
                        out.append(bb.name)
        # default body of a local trait method
        for n in self.trait_impls.get(name, []):
            bb = fb.bodies[n]
            if bb.raw.get("in_trait") and n not in out:
                out.append(n)
        return out

    def reachable(self, roots):
        seen = set()
        st = list(roots)
        while st:
            x = st.pop()
            if x in seen or x not in self.local:
                continue
            seen.add(x)
            st.extend(self.local[x])
        return seen

    def reachable_sites(self, roots, skip_site):
        """bodies reachable from roots when call sites for which skip_site(body_name, block, term) holds
        are ignored; returns (set of bodies, list of (body, block, term, targets, ext))"""
        seen = set()
        sites = []
        st = list(roots)
        while st:
            x = st.pop()
            if x in seen or x not in self.local:
                continue
            seen.add(x)
            for bi, t, targets, extn in self.sites[x]:
                if skip_site(x, bi, t):
                    continue
                sites.append((x, bi, t, targets, extn))
                st.extend(targets)
            b = self.fb.bodies[x]
            for c in self.fb.closures_of(b):
                if c.name.count("{closure#") == b.name.count("{closure#") + 1:
                    st.append(c.name)
            # closures constructed in this body whose names hang elsewhere (closures of spliced-in helpers)
            st.extend(n for n in self.local.get(x, ()) if "{closure#" in n and n not in seen)
        return seen, sites

    def path_to(self, root, target):
        """a shortest call path root -> target (list of body names)"""
        from collections import deque
        q = deque([(root, (root,))])
        seen = {root}
        while q:
            x, p = q.popleft()
            if x == target:
                return list(p)
            for y in sorted(self.local.get(x, ())):
                if y not in seen:
                    seen.add(y)
                    q.append((y, p + (y,)))
        return None

    def sccs(self, nodes):
        """strongly connected components with a cycle (Tarjan), restricted to `nodes`"""
        index = {}
        low = {}
        st = []
        on = set()
        out = []
        idx = [0]
        import sys
        sys.setrecursionlimit(10000)

        def strong(v):
            index[v] = low[v] = idx[0]
            idx[0] += 1
            st.append(v)
            on.add(v)
            for w in self.local.get(v, ()):
                if w not in nodes:
                    continue
                if w not in index:
                    strong(w)
                    low[v] = min(low[v], low[w])
                elif w in on:
                    low[v] = min(low[v], index[w])
            if low[v] == index[v]:
                comp = []
                while True:
                    w = st.pop()
                    on.discard(w)
                    comp.append(w)
                    if w == v:
                        break
                if len(comp) > 1 or v in self.local.get(v, ()):
                    out.append(sorted(comp))

        for v in sorted(nodes):
            if v not in index:
                strong(v)
        return out
