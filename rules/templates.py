"""Recovery of the code generator's templates from MIR: format_args! constants and their bound arguments.

rustc (1.97 nightly) lowers format_args! to `Arguments::new(<byte template>, &[Argument; N])` or
`Arguments::from_str(<str>)`.  Byte template grammar (library/core/src/fmt/mod.rs):
  0x00                      end
  0x01..=0x7f  n            literal piece of n bytes follows
  0x80 lo hi                literal piece of (hi<<8|lo) bytes follows
  0xc0 | flags              placeholder; optional fields follow in this order:
        flags&1: 4 bytes fmt flags, flags&2: 2 bytes width, flags&4: 2 bytes precision, flags&8: 2 bytes argument index
  a placeholder without explicit index takes the next argument
"""
from .facts import callee_name
from .origin import Origins, show, walk


class TemplateError(Exception):
    pass


def decode(bs):
    """-> list of ('lit', str) | ('arg', index)"""
    out = []
    i = 0
    nxt = 0
    n = len(bs)
    while i < n:
        b = bs[i]
        i += 1
        if b == 0:
            if i != n:
                raise TemplateError("bytes after end marker")
            return out
        if b < 0x80:
            out.append(("lit", bytes(bs[i : i + b]).decode("utf-8")))
            i += b
        elif b == 0x80:
            ln = bs[i] | (bs[i + 1] << 8)
            i += 2
            out.append(("lit", bytes(bs[i : i + ln]).decode("utf-8")))
            i += ln
        elif b & 0xC0 == 0xC0:
            fl = b & 0x3F
            if fl & ~0xF:
                raise TemplateError("unknown placeholder flags %#x" % b)
            if fl & 1:
                i += 4
            if fl & 2:
                i += 2
            if fl & 4:
                i += 2
            if fl & 8:
                idx = bs[i] | (bs[i + 1] << 8)
                i += 2
            else:
                idx = nxt
            nxt = idx + 1
            out.append(("arg", idx))
        else:
            raise TemplateError("unknown template byte %#x" % b)
    raise TemplateError("missing end marker")


class Template:
    def __init__(self, body, block, term, pieces, args, kinds):
        self.body, self.block, self.term = body, block, term
        self.pieces = pieces  # list of ('lit', s) / ('arg', i)
        self.args = args  # list of origins (the formatted values)
        self.kinds = kinds  # 'display' / 'debug'
        self.where = term["span"]["at"]
        self.types = None

    def text(self, subst):
        """subst(i, origin) -> replacement text"""
        return "".join(p[1] if p[0] == "lit" else subst(p[1], self.args[p[1]]) for p in self.pieces)

    def skeleton(self):
        return "".join(p[1] if p[0] == "lit" else "{%d}" % p[1] for p in self.pieces)


def _arg_types(body, fb, arr_op):
    """formatted types of the argument array of one Arguments::new call (from the generic arguments of the
    Argument::new_* calls that build its elements); None where not recoverable"""
    from .util import single_defs
    import ast
    defs = single_defs(body)

    def one_def(op):
        for _ in range(8):
            if op.get("k") not in ("copy", "move") or op["p"]["proj"]:
                return None
            ds = defs.get(op["p"]["l"], [])
            if len(ds) != 1:
                return None
            d = ds[0]
            if d[0] == "assign" and d[3]["r"]["k"] == "use":
                op = d[3]["r"]["x"]
                continue
            if d[0] == "assign" and d[3]["r"]["k"] == "ref" and d[3]["r"]["p"]["proj"] in ([], ["deref"]):
                op = {"k": "copy", "p": {"l": d[3]["r"]["p"]["l"], "proj": []}}
                continue
            return d
        return None

    d = one_def(arr_op)
    if d is None or d[0] != "assign" or d[3]["r"]["k"] != "agg":
        return None
    out = []
    for f in d[3]["r"]["fields"]:
        e = one_def(f)
        ty = None
        if e is not None and e[0] == "call" and "Argument::new_" in callee_name(e[3]["f"], fb):
            try:
                ga = e[3]["f"].get("gargs", [])
                ga = ast.literal_eval(ga) if isinstance(ga, str) else ga
                ty = [g for g in ga if not g.startswith("'")][0]
            except Exception:
                ty = None
        out.append(ty)
    return out


def templates_of(body, fb, org=None, closures=False):
    """all format_args! sites of a body, in source order"""
    org = org or Origins(body, fb)
    out = []
    for bi, t in body.calls():
        n = callee_name(t["f"], fb)
        if n == "std::fmt::Arguments::new":
            tpl = org.of_operand(t["args"][0], bi, "t")
            if tpl[0] != "const" or not isinstance(tpl[2], (bytes, bytearray)):
                raise TemplateError("template constant not found at %s" % t["span"]["at"])
            pieces = decode(tpl[2])
            arr = org.of_operand(t["args"][1], bi, "t")
            if arr[0] != "agg":
                raise TemplateError("argument array not found at %s" % t["span"]["at"])
            args, kinds = [], []
            for a in arr[2]:
                if a[0] == "call" and "Argument::new_" in a[1]:
                    kinds.append(a[1].rsplit("new_", 1)[-1])
                    args.append(a[2][0])
                else:
                    raise TemplateError("unrecognised formatting argument at %s: %s" % (t["span"]["at"], show(a)[:80]))
            tp = Template(body, bi, t, pieces, args, kinds)
            tp.types = _arg_types(body, fb, t["args"][1])
            out.append(tp)
        elif n == "std::fmt::Arguments::from_str":
            s = org.of_operand(t["args"][0], bi, "t")
            if s[0] == "const" and isinstance(s[2], str):
                out.append(Template(body, bi, t, [("lit", s[2])], [], []))
    if closures and fb is not None and hasattr(fb, "closures_of"):
        for c in fb.closures_of(body):
            out.extend(templates_of(c, fb, None, closures=True))
    out.sort(key=lambda x: tuple(int(v) for v in x.where.rsplit(":", 2)[1:]))
    return out
