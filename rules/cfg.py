"""A-CFG: control-flow graph utilities over MIR facts (no unwind/cleanup edges)."""
from functools import lru_cache


def succs_raw(term):
    k = term["k"]
    if k == "goto":
        return [term["t"]]
    if k == "switch":
        return [bb for _, bb in term["arms"]] + [term["otherwise"]]
    if k in ("call",):
        return [term["t"]] if term["t"] is not None else []
    if k in ("drop", "assert"):
        return [term["t"]]
    return []


class CFG:
    def __init__(self, body, pruned_edges=None, removed_blocks=None):
        self.body = body
        self.n = len(body.blocks)
        self.removed = set(removed_blocks or ())
        self.pruned = set(pruned_edges or ())
        self.succ = {}
        self.pred = {i: [] for i in range(self.n)}
        for i, b in enumerate(body.blocks):
            if b["cleanup"] or i in self.removed:
                self.succ[i] = []
                continue
            ss = []
            for s in succs_raw(b["term"]):
                if (i, s) in self.pruned or s in self.removed or body.blocks[s]["cleanup"]:
                    continue
                if s not in ss:
                    ss.append(s)
            self.succ[i] = ss
        for i, ss in self.succ.items():
            for s in ss:
                self.pred[s].append(i)
        self.returns = [i for i, b in enumerate(body.blocks) if not b["cleanup"] and i not in self.removed and b["term"]["k"] == "return"]

    def reachable_from(self, start, avoid=()):
        seen = set()
        st = [start] if start not in avoid else []
        while st:
            x = st.pop()
            if x in seen:
                continue
            seen.add(x)
            for s in self.succ[x]:
                if s not in seen and s not in avoid:
                    st.append(s)
        return seen

    def can_reach(self, targets, avoid=()):
        """set of blocks from which some block in `targets` is reachable (targets included)"""
        seen = set()
        st = [t for t in targets if t not in avoid]
        while st:
            x = st.pop()
            if x in seen:
                continue
            seen.add(x)
            for p in self.pred[x]:
                if p not in seen and p not in avoid:
                    st.append(p)
        return seen

    def dominators(self, entry=0):
        """dict block -> set of dominators (iterative; bodies are small)"""
        reach = self.reachable_from(entry)
        order = self._rpo(entry)
        dom = {b: set(reach) for b in reach}
        dom[entry] = {entry}
        changed = True
        while changed:
            changed = False
            for b in order:
                if b == entry:
                    continue
                ps = [p for p in self.pred[b] if p in reach]
                if not ps:
                    continue
                new = set.intersection(*(dom[p] for p in ps)) | {b}
                if new != dom[b]:
                    dom[b] = new
                    changed = True
        return dom

    def postdominators(self, exits):
        """dict block -> set of postdominators w.r.t. the given exit blocks (virtual sink)"""
        nodes = self.can_reach(exits)
        pdom = {b: set(nodes) for b in nodes}
        for e in exits:
            pdom[e] = {e}
        changed = True
        while changed:
            changed = False
            for b in nodes:
                if b in exits:
                    continue
                ss = [s for s in self.succ[b] if s in nodes]
                if not ss:
                    continue
                new = set.intersection(*(pdom[s] for s in ss)) | {b}
                if new != pdom[b]:
                    pdom[b] = new
                    changed = True
        return pdom

    def ipdom(self, b, exits):
        pd = self.postdominators(exits)
        if b not in pd:
            return None
        cands = pd[b] - {b}
        # the immediate postdominator is the candidate that is postdominated by all others
        for c in cands:
            if all(o in pd[c] for o in cands):
                return c
        return None

    def _rpo(self, entry):
        seen = set()
        out = []

        def dfs(x):
            st = [(x, iter(self.succ[x]))]
            seen.add(x)
            while st:
                node, it = st[-1]
                adv = False
                for s in it:
                    if s not in seen:
                        seen.add(s)
                        st.append((s, iter(self.succ[s])))
                        adv = True
                        break
                if not adv:
                    out.append(node)
                    st.pop()

        dfs(entry)
        out.reverse()
        return out

    def back_edges(self, entry=0):
        dom = self.dominators(entry)
        res = []
        for b in dom:
            for s in self.succ[b]:
                if s in dom.get(b, ()):
                    res.append((b, s))
        return res

    def natural_loop(self, back_edge):
        tail, head = back_edge
        body = {head}
        st = [tail]
        while st:
            x = st.pop()
            if x in body:
                continue
            body.add(x)
            st.extend(self.pred[x])
        return body


def question_mark_error_edges(body):
    """edges taken when a `?` sees an error: the Break arm of the switch on Try::branch's result"""
    edges = set()
    for i, b in enumerate(body.blocks):
        t = b["term"]
        if t["k"] == "switch" and "desugar:QuestionMark" in t["span"]["exp"]:
            for v, bb in t["arms"]:
                if v == "1":
                    edges.add((i, bb))
    return edges


def unreachable_blocks(body):
    return {i for i, b in enumerate(body.blocks) if b["term"]["k"] == "unreachable"}
