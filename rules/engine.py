"""Extraction management, rule recorder, evidence and violation output."""
import fcntl, hashlib, json, os, shutil, subprocess, sys, time, glob, re

VERIF = os.path.dirname(os.path.dirname(os.path.abspath(__file__)))
REPO = os.environ.get("HV_REPO", "/repo")
CACHE = os.environ.get("HV_CACHE", os.path.join(VERIF, ".cache"))
DRIVER = os.path.join(VERIF, "driver", "target", "debug", "hv-mir")
SYNBIN = os.path.join(VERIF, "syn", "target", "debug", "hv-syn")


def tree_hash(repo=None):
    repo = repo or REPO
    h = hashlib.sha256()
    files = []
    for root, dirs, fs in os.walk(os.path.join(repo, "src")):
        dirs.sort()
        for f in sorted(fs):
            files.append(os.path.join(root, f))
    for f in ("Cargo.toml", "Cargo.lock", "build.rs"):
        p = os.path.join(repo, f)
        if os.path.exists(p):
            files.append(p)
    for p in files:
        h.update(os.path.relpath(p, repo).encode())
        h.update(b"\0")
        with open(p, "rb") as fh:
            h.update(fh.read())
        h.update(b"\0")
    # the extractor itself is part of the key
    for p in (DRIVER, SYNBIN):
        if os.path.exists(p):
            st = os.stat(p)
            h.update(("%s:%d:%d" % (p, st.st_size, int(st.st_mtime))).encode())
    return h.hexdigest()[:24]


class ExtractionError(Exception):
    pass


def nightly_sysroot():
    return subprocess.check_output(["rustc", "+nightly", "--print", "sysroot"], text=True).strip()


def _run_cargo_check(cwd, target_dir, facts_dir, suffix, crates, extra_args, log):
    env = dict(os.environ)
    env["LD_LIBRARY_PATH"] = nightly_sysroot() + "/lib:" + env.get("LD_LIBRARY_PATH", "")
    env["RUSTFLAGS"] = "-Zmir-opt-level=0 -Awarnings"
    env["RUSTC_WORKSPACE_WRAPPER"] = DRIVER
    env["CARGO_TARGET_DIR"] = target_dir
    env["CARGO_NET_OFFLINE"] = "true"
    env["HV_FACTS_DIR"] = facts_dir
    env["HV_FACTS_SUFFIX"] = suffix
    env["HV_CRATES"] = crates
    env.pop("RUSTC_WRAPPER", None)
    # cargo's freshness cache would skip the wrapper: forget the members' fingerprints
    for d in glob.glob(os.path.join(target_dir, "debug", ".fingerprint", "*")):
        base = os.path.basename(d)
        if any(base.startswith(c.replace("_", "-") + "-") or base.startswith(c + "-") for c in crates.split(",")):
            shutil.rmtree(d, ignore_errors=True)
    cmd = ["cargo", "+nightly", "check", "--offline"] + extra_args
    p = subprocess.run(cmd, cwd=cwd, env=env, stdout=subprocess.PIPE, stderr=subprocess.STDOUT, text=True)
    with open(log, "w") as fh:
        fh.write("$ " + " ".join(cmd) + "  (cwd=%s)\n" % cwd)
        fh.write(p.stdout)
    return p.returncode, p.stdout


def extract(repo=None, want_witness=False):
    """returns the facts directory for the current tree of `repo`, extracting if needed"""
    repo = repo or REPO
    os.makedirs(CACHE, exist_ok=True)
    if not os.path.exists(DRIVER):
        raise ExtractionError("driver not built: run MANIFEST.setup_cmd (./hv setup)")
    lock = open(os.path.join(CACHE, "lock"), "w")
    fcntl.flock(lock, fcntl.LOCK_EX)
    try:
        th = tree_hash(repo)
        fdir = os.path.join(CACHE, "facts", th)
        done = os.path.join(fdir, "DONE")
        if not os.path.exists(done):
            if os.path.exists(fdir):
                shutil.rmtree(fdir)
            os.makedirs(fdir)
            t0 = time.time()
            tdir = os.path.join(CACHE, "target-mir")
            rc, out = _run_cargo_check(repo, tdir, fdir, "", "hyeong", [], os.path.join(fdir, "cargo.default.log"))
            if rc != 0 or not os.path.exists(os.path.join(fdir, "hyeong.lib.json")):
                _fail(fdir, "default-features build of %s failed or produced no facts" % repo, out)
            tdir2 = os.path.join(CACHE, "target-mir-number")
            rc, out = _run_cargo_check(repo, tdir2, fdir, ".number", "hyeong", ["--lib", "--no-default-features", "--features", "number"], os.path.join(fdir, "cargo.number.log"))
            if rc != 0 or not os.path.exists(os.path.join(fdir, "hyeong.lib.number.json")):
                _fail(fdir, "number-only build of %s failed or produced no facts" % repo, out)
            with open(done, "w") as fh:
                fh.write(json.dumps({"repo": repo, "wall_s": time.time() - t0}))
            _gc()
        err = os.path.join(fdir, "FAILED")
        if os.path.exists(err):
            raise ExtractionError(open(err).read())
        return fdir
    finally:
        fcntl.flock(lock, fcntl.LOCK_UN)
        lock.close()


def _fail(fdir, msg, out):
    tail = "\n".join(out.splitlines()[-40:])
    with open(os.path.join(fdir, "FAILED"), "w") as fh:
        fh.write(msg + "\n" + tail)
    with open(os.path.join(fdir, "DONE"), "w") as fh:
        fh.write("{}")


def _gc(keep=12):
    root = os.path.join(CACHE, "facts")
    ds = sorted((os.path.getmtime(os.path.join(root, d)), d) for d in os.listdir(root))
    for _, d in ds[:-keep]:
        shutil.rmtree(os.path.join(root, d), ignore_errors=True)


# --------------------------------------------------------------------------------------------------


class Violation:
    def __init__(self, prop, rule, key, msg, where=None, detail=None, kind="violation"):
        self.prop, self.rule, self.key, self.msg, self.where, self.detail, self.kind = prop, rule, key, msg, where, detail, kind

    def to_json(self):
        return {"property": self.prop, "rule": self.rule, "key": self.key, "kind": self.kind, "message": self.msg, "where": self.where, "detail": self.detail}


class Recorder:
    """collects what one rule analysed, its obligations and violations"""

    def __init__(self, prop, rule, doc=""):
        self.prop, self.rule, self.doc = prop, rule, doc
        self.analysed = []
        self.obligations = 0
        self.discharged = 0
        self.samples = []
        self.violations = []
        self.notes = []

    def analyse(self, what):
        if what not in self.analysed:
            self.analysed.append(what)

    def ok(self, key, desc, where=None):
        self.obligations += 1
        self.discharged += 1
        if len(self.samples) < 6:
            self.samples.append({"rule": self.rule, "obligation": key, "desc": desc, "where": where, "verdict": "holds"})

    def fail(self, key, desc, where=None, detail=None, kind="violation"):
        self.obligations += 1
        self.violations.append(Violation(self.prop, self.rule, "%s:%s" % (self.rule, key), desc, where, detail, kind))

    def check(self, cond, key, desc, where=None, detail=None):
        if cond:
            self.ok(key, desc, where)
        else:
            self.fail(key, desc, where, detail)
        return cond

    def anchor(self, cond, key, desc, where=None):
        """fail closed when an anchor of the rule cannot be found"""
        if not cond:
            self.fail("anchor:" + key, "anchor lost: " + desc, where, kind="anchor-lost")
        return cond

    def floor(self, key, actual, counted, desc, slack=0.6):
        """vacuity floor: `counted` is the number of sites counted by hand on the tree the rule was written
        for; the rule must still match a substantial part of them (a refactoring may merge a few sites, but a
        rule that matches next to nothing has lost its subject and must not pass vacuously)"""
        expected_min = max(1, int(counted * slack))
        if actual < expected_min:
            self.fail("floor:" + key, "vacuity floor: %s: matched %d, expected at least %d" % (desc, actual, expected_min), kind="anchor-lost")
        else:
            self.notes.append("floor %s: matched %d >= %d" % (key, actual, expected_min))

    def note(self, s):
        self.notes.append(s)


def load_known():
    known, fixed = {}, []
    p = os.path.join(VERIF, "known-findings.txt")
    if os.path.exists(p):
        for line in open(p, encoding="utf-8"):
            line = line.strip()
            if line.startswith("known:"):
                m = re.match(r"known:\s+property=(\S+)\s+key=(\S+)\s+(.*)", line)
                if m:
                    known[(m.group(1), m.group(2))] = m.group(3)
            elif line.startswith("fixed:"):
                fixed.append(line)
    return known, fixed


def finish(prop, tier, recorders, t0, level, explanation, assumptions, trusted_base, checker_cmd, extra_cov=None):
    """write evidence, print report lines, return exit code"""
    known, _fixed = load_known()
    seed = int(os.environ.get("VERIF_SEED", "0") or 0)
    ev_dir = os.environ.get("HV_EVIDENCE_DIR") or os.path.join(VERIF, "evidence")
    os.makedirs(os.path.join(ev_dir, "violations"), exist_ok=True)
    # remove stale violation files of this property
    for f in glob.glob(os.path.join(ev_dir, "violations", prop + ".*.json")):
        os.remove(f)
    obligations = sum(r.obligations for r in recorders)
    discharged = sum(r.discharged for r in recorders)
    samples, analysed, rules = [], [], []
    new_violations, known_hits = [], []
    for r in recorders:
        samples.extend(r.samples[:4])
        for a in r.analysed:
            if a not in analysed:
                analysed.append(a)
        rules.append({"rule": r.rule, "doc": r.doc, "obligations": r.obligations, "discharged": r.discharged, "analysed": r.analysed, "notes": r.notes, "violations": [v.to_json() for v in r.violations]})
        for v in r.violations:
            if (prop, v.key) in known:
                known_hits.append((v, known[(prop, v.key)]))
            else:
                new_violations.append(v)
    cov = {
        "explanation": explanation,
        "obligations": obligations,
        "discharged": discharged,
        "evaluations": max(obligations, 1),
        "distinct_nontrivial": max(discharged, 0),
        "rule": "one obligation per rule instance (call site, path class, table entry, event-language comparison); distinct by construct key; an obligation is non-trivial when it ranges over at least one real construct of /repo",
        "samples": samples[:24] if samples else [{"note": "no obligation discharged"}],
        "checker_cmd": checker_cmd,
        "trusted_base": trusted_base,
        "analysed": analysed,
        "rules": rules,
        "tree": tree_hash(),
        "repo": REPO,
        "exhaustive": False,
    }
    if extra_cov:
        cov.update(extra_cov)
    ev = {
        "property_id": prop,
        "tier": tier,
        "seed": seed,
        "level": level,
        "coverage": cov,
        "assumptions": list(assumptions) + [
            "`debug_assert!` is analysed as absent: the facts come from a development build, and what hangs below cfg!(debug_assertions) is removed from every body before the rules run (a build without debug assertions, cargo's release profile, does not contain it); arithmetic overflow checks are kept",
            "a `const NAME: <integer> = <literal>;` stands for its literal",
        ],
        "wall_s": round(time.time() - t0, 3),
        "violations": len(new_violations),
    }
    with open(os.path.join(ev_dir, prop + ".json"), "w", encoding="utf-8") as fh:
        json.dump(ev, fh, ensure_ascii=False, indent=1)
    print("== %s (%s): %d rules, %d obligations, %d discharged, %d bodies/objects analysed, %.1fs" % (prop, tier, len(recorders), obligations, discharged, len(analysed), time.time() - t0))
    for r in recorders:
        print("   rule %-22s obligations=%-3d discharged=%-3d violations=%d" % (r.rule, r.obligations, r.discharged, len(r.violations)))
    for v, what in known_hits:
        print("KNOWN-FINDING: property=%s %s [%s]" % (prop, what, v.key))
    rc = 0
    for v in new_violations:
        fn = os.path.join(ev_dir, "violations", "%s.%s.json" % (prop, re.sub(r"[^A-Za-z0-9_.-]+", "_", v.key)[:150]))
        with open(fn, "w", encoding="utf-8") as fh:
            json.dump(v.to_json(), fh, ensure_ascii=False, indent=1)
        print("  - [%s] %s%s" % (v.key, v.msg, (" @ " + v.where) if v.where else ""))
        if v.detail:
            d = v.detail if isinstance(v.detail, str) else json.dumps(v.detail, ensure_ascii=False)
            print("      " + d[:600])
        print("VIOLATION property=%s replay=%s" % (prop, fn))
        rc = 1
    return rc
