"""C13 — the command-line tool ends in a defined way on any file and any input."""
from collections import Counter
from .audit import sites, auto_justify
from .callgraph import CallGraph
from .cfg import CFG
from .facts import callee_name, callee_resolved
from .interp import Events, normal_cfg
from .lang import Roles
from .origin import Origins, show, walk
from .util import Vars, reaches_without

TECHNIQUE = 'static analysis: panic-site enumeration below the entry points with mechanical discharge classes and audited tables; constant exit statuses; error-propagation (Try::branch) rule; extension-before-open dominance'
LEVEL = "other"
EXPLANATION = (
    "Call-graph and all-paths analysis below the `run` and `check` entry points (plus main/sub_main and the option "
    "parsers they use): (EXIT) every process::exit in the crate has a constant status in {0,1}, and the only ones "
    "reachable from run/check are the program-requested exits of the pop routine (0/1) and the diagnostic exit (1); "
    "main routes sub_main's Result into the diagnostic printer; (PANIC) every panic-capable site in the reachable "
    "bodies — overflow/bounds/division asserts, unwrap/expect, indexing, explicit panics — is either discharged by a "
    "mechanical rule (constant in range, small counter increment, constant shift) or listed in an audited table with "
    "its justification, keyed by function and operand provenance (no line numbers); a new or changed site fails the "
    "check; the numeric core is audited per function with frozen per-kind counts; (EXT) opening the program file is "
    "dominated by the .hyeong extension test and decoding errors are propagated; (UNICODE) output conversion uses the "
    "checked char::from_u32 and maps failure to an Error value; (ERRFLOW) errors of I/O calls in run/check are "
    "propagated with `?`, never dropped. Absence of overflow for counts >= 2^31 and stack exhaustion on deep trees are "
    "outside the property."
)
ASSUMPTIONS = [
    "rustc MIR (nightly 1.97, mir-opt-level=0, debug assertions on so overflow checks are visible as Assert terminators)",
    "clap enforces required arguments, defaults and possible_values as configured in util/option.rs",
    "std and dependency code (clap, termcolor) does not panic on the calls made; a closed stdout/stderr while printing a diagnostic is outside the property's quantifier",
    "the justifications in the audited table (rules/p_c13.py) were confirmed by reading",
]
TRUSTED = ["rustc nightly MIR", "/verif/rules A-CG/A-AUD/A-DOM", "audited site table in rules/p_c13.py"]

ROOTS = ["hyeong::app::run::run", "hyeong::app::check::run", "hyeong::util::io::handle", "hyeong::util::option::parse_input", "hyeong::util::option::parse_optimize", "hyeong::util::option::parse_color", "hyeong::util::option::parse_verbose"]
EXTRA = ["hyeong::main", "hyeong::sub_main"]

CLAP = "clap validates the argument: it is required or has a default value, and possible_values restricts it (util/option.rs)"
INPUT = "HyeongOption.input is set by sub_main (.input(parse_input(..)?)) on every path to run/check"
DIAG = "diagnostic printer: a failing write to the terminal while reporting an error (closed stderr) is outside the property's quantifier"
FLUSHX = "flush before a program-requested exit: a closed stdout/stderr is outside the property's quantifier"
IDX_LOC = "command indices come from push_code's result, registered label positions or cur_loc+1 < length, all below the code length"
STACK = "vector-backed state has at least 5 stacks whenever it is used (optimisation level >= 1: size = max+1 >= 5); other indices are bounds-tested by the callers"
WIDTH = "column widths: the maximum over all rows is at least each row's width"
AUDITED = {
    ("<core::code::UnOptCode as hyeong::core::code::Code>::get_area_count", "Overflow(Mul):P1.dot_count,P1.hangul_count"): "counts are < 2^31 by the property's quantifier, the product fits in 64 bits",
    ("<core::state::OptState as hyeong::core::state::State>::get_code", "index:Vec<core::code::OptCode>[usize]:P1.code[P2]"): IDX_LOC,
    ("<core::state::UnOptState as hyeong::core::state::State>::get_code", "index:Vec<core::code::UnOptCode>[usize]:P1.code[P2]"): IDX_LOC,
    ("<core::state::OptState as hyeong::core::state::State>::get_stack", "index:Vec<Vec<number::num::Num>>[usize]:P1.stack[P2]"): STACK,
    ("<core::state::OptState as hyeong::core::state::State>::push_stack", "index:Vec<Vec<number::num::Num>>[usize]:P1.stack[P2]"): "guarded by idx < self.stack.len() (short-circuit &&)",
    ("<core::state::OptState as hyeong::core::state::State>::push_code", "Overflow(Sub):Vec::len(P1.code),K1"): "len() - 1 right after a push: len >= 1",
    ("<core::state::UnOptState as hyeong::core::state::State>::push_code", "Overflow(Sub):Vec::len(P1.code),K1"): "len() - 1 right after a push: len >= 1",
    ("<util::io::CustomReader as hyeong::util::io::ReadLine>::read_line_", "index:Vec<String>[usize]:P1.buf[P1.idx]"): "reached only when buf.len() != idx, and idx only grows by one while below len",
    ("hyeong::app::check::print_un_opt_codes", "unwrap(Option):Option::as_ref(P2.input)"): INPUT,
    ("hyeong::app::check::print_un_opt_codes", "unwrap(Option):Path::file_name(UNWRAP(Option::as_ref(P2.input)))"): "called after the file was read: the path passed the .hyeong extension test, so it has a final component",
    ("hyeong::app::check::print_un_opt_codes", "Overflow(Add):String::len(ToString::to_string(UnOptCode::get_location(ELEM<[T]::i...,String::len(ToString::to_string(UnOptCode::get_location(ELEM<[T]::i..."): "sum of two decimal widths (< 40)",
    ("hyeong::app::check::print_un_opt_codes", "Overflow(Sub):PHI(K0|cmp::max(PHI(K0|LOOPVAR),String::len(ToString::to_string(ELE...,String::len(ToString::to_string(ELEM<[T]::iter(P3)>.0))"): WIDTH,
    ("hyeong::app::check::print_un_opt_codes", "Overflow(Sub):PHI(K0|cmp::max(PHI(K0|LOOPVAR),(String::len(ToString::to_string(Un...,String::len(ToString::to_string(UnOptCode::get_location(ELEM<[T]::i..."): WIDTH,
    ("hyeong::app::check::print_un_opt_codes", "Overflow(Sub):(PHI(K0|cmp::max(PHI(K0|LOOPVAR),(String::len(ToString::to_string(U...,String::len(ToString::to_string(UnOptCode::get_location(ELEM<[T]::i..."): WIDTH,
    # the same padding written with iterator folds (max over the same collection the subtraction's right side ranges over)
    ("hyeong::app::check::print_un_opt_codes", "Overflow(Sub):Iterator::fold(Iterator::map([T]::iter(P3),CLOSURE),K0,FN:cmp::max),String::len(ToString::to_string(ELEM<[T]::iter(P3)>.0))"): WIDTH,
    ("hyeong::app::check::print_un_opt_codes", "Overflow(Sub):Iterator::fold(Iterator::map([T]::iter(P3),CLOSURE),K0,FN:cmp::max),(String::len(ToString::to_string(UnOptCode::get_location(ELEM<[T]::...#4e2f19"): WIDTH,
    ("hyeong::app::check::print_un_opt_codes", "BoundsCheck:PtrMetadata(CONST:COMMANDS),KIND"): "a parsed command's kind is 0..5: a start syllable is accepted only if its end syllable occurs later, so kinds 6..8 never reach a finished command (C04.GROUP/DEFS)",
    ("hyeong::app::check::run", "unwrap(Option):Option::as_ref(P2.input)"): INPUT,
    ("hyeong::app::run::run", "unwrap(Option):Option::as_ref(P3.input)"): INPUT,
    ("hyeong::core::area::area_to_string_display", "index:Vec<char>[usize]:Iterator::collect(CHARS(K'?!♥❤💕💖💗💘💙💚💛💜💝♡'))[P2@Val.type_]"): "area node types are 0..13 by construction in the parser (0, 1, heart position + 2 <= 13); the table has 14 characters (C04.TABLES)",
    ("hyeong::core::execute::execute_one", "Overflow(Add):(AREACOUNT Shl K4),AREATYPE"): "u128 arithmetic on a 64-bit count shifted by 4 plus a value <= 13",
    ("hyeong::core::optimize::opt_execute", "Overflow(Add):(LOOPVAR Shl K4),AREATYPE"): "u128 arithmetic on a 64-bit count shifted by 4 plus a value <= 13",
    ("hyeong::core::optimize::opt_execute", "Overflow(Add):(AREACOUNT Shl K4),AREATYPE"): "u128 arithmetic on a 64-bit count shifted by 4 plus a value <= 13",
    ("hyeong::core::execute::pop_stack_wrap", "unwrap(Result):Write::flush(P2)"): FLUSHX,
    ("hyeong::core::execute::pop_stack_wrap", "unwrap(Result):Write::flush(P3)"): FLUSHX,
    ("hyeong::core::execute::pop_stack_wrap", "terminate:exit(K0)"): "program-requested exit, status 0",
    ("hyeong::core::execute::pop_stack_wrap", "terminate:exit(K1)"): "program-requested exit, status 1",
    ("hyeong::core::execute::pop_stack_wrap", "terminate:exit(PHI(K0|K1))"): "program-requested exit, status 0 or 1 chosen by the stack index (C01.POP exit table decides which)",
    ("hyeong::core::optimize::optimize", "index:Vec<core::code::OptCode>[std::ops::RangeFrom<usize>]:VEC[RangeFrom::RangeFrom{PHI(ELEM<ENUMERATE([T]::iter(VEC))>.0|Vec::len...#59d851]"): "slice start is the vector length or an enumerate index, both <= len",
    ("hyeong::core::parse::parse", "Overflow(Sub):(SOME(str::find(K'형항핫흣흡흑혀하흐',ELEM<ENUMERATE(CHARS(P1))>.1)) Div K3),K6"): "t - 6 only after t >= 6 (C04.TOTAL verifies the guard)",
    ("hyeong::core::parse::parse", "BoundsCheck:K3,((SOME(str::find(K'형항핫흣흡흑혀하흐',ELEM<ENUMERATE(CHARS(P1))>.1)) Div K3...#ec855c"): "6 <= t <= 8 (C04.TOTAL/TABLES)",
    ("hyeong::core::parse::parse", "Overflow(Sub):ELEM<ENUMERATE(CHARS(P1))>.0,PHI((ELEM<ENUMERATE(CHARS(P1))>.0 Add K1)|K0)"): "line start <= current index (C04.DEFS)",
    ("hyeong::util::io::print_error", "terminate:exit(K1)"): "diagnostic exit, status 1",
    ("hyeong::util::io::print_error_no_exit", "unwrap(Result):io::print_note(P1,Error::get_note(P2))"): DIAG,
    ("hyeong::util::option::parse_color", "unwrap(Option):ArgMatches::value_of(P1,K'color')"): CLAP,
    ("hyeong::util::option::parse_color", "panic:panic"): CLAP + " — the unreachable!() arm",
    ("hyeong::util::option::parse_input", "unwrap(Option):ArgMatches::value_of(P1,K'input')"): CLAP,
    ("hyeong::util::option::parse_optimize", "unwrap(Option):ArgMatches::value_of(P1,K'optimize')"): CLAP,
    ("hyeong::util::option::parse_optimize", "panic:panic"): CLAP + " — the unreachable!() arm",
    ("<number::big_number::BigNum as core::fmt::Display>::fmt", "unwrap(Result):BigNum::to_string_base(P1,K10)"): "base 10 is inside the accepted range 1..=36",
}
# diagnostic printer: every write is unwrapped on purpose
AUDITED_FN_PREFIX = {
    "hyeong::util::io::print_error_str_no_exit": ("unwrap(Result)", DIAG),
}
# numeric core: audited per function; counts frozen per kind (a new site of any kind fails)
NUMERIC = {
    "number::big_number::BigNum::add_core": ({"assert:BoundsCheck": 3, "assert:Overflow(Add)": 6, "assert:Overflow(Shl)": 4, "assert:Overflow(Sub)": 2, "index": 6}, "result vector has max(len)+1 limbs; loop indices run below min(len) resp. the longer length; i+1 <= max(len); 64-bit sums of three 32-bit values"),
    "number::big_number::BigNum::sub_core": ({"assert:BoundsCheck": 3, "assert:Overflow(Add)": 5, "assert:Overflow(Shl)": 2, "assert:Overflow(Sub)": 3, "index": 6}, "a is the larger magnitude (at least as long as b); indices below a.len(); i+1 <= a.len(); signed 64-bit differences of 32-bit values"),
    "number::big_number::BigNum::mult_core": ({"assert:BoundsCheck": 3, "assert:DivisionByZero": 2, "assert:Overflow(Add)": 12, "assert:Overflow(Mul)": 1, "assert:Overflow(Shl)": 4, "assert:RemainderByZero": 2, "index": 5}, "accumulator has lhs.len()+rhs.len()+1 entries of u64; i+j+1 < that; partial sums stay below 2^64 because each entry is reduced below 2^32 before the next product is added"),
    "number::big_number::BigNum::div_core": ({"assert:Overflow(Add)": 1, "assert:Overflow(Shl)": 2, "assert:Overflow(Sub)": 1, "index": 2}, "i ranges over the quotient vector; bit j < 32; a bit is added only when clear and removed only after being added"),
    "number::big_number::BigNum::less_core": ({"assert:BoundsCheck": 6, "assert:Overflow(Add)": 1, "assert:Overflow(Sub)": 4, "index": 0}, "limb vectors are never empty (every constructor stores at least one limb); a, b only decrease while > 0"),
    "number::big_number::BigNum::to_string_base": ({"assert:Overflow(Add)": 2, "assert:Overflow(Sub)": 1, "index": 3}, "k = n % base has at least one limb; digit arithmetic on u8: k < 36 so '0'+k and 'A'+k-10 stay below 256"),
    "number::big_number::BigNum::to_int": ({"index": 1}, "every BigNum has at least one limb"),
    "number::big_number::BigNum::new": ({"assert:Overflow(Shr)": 1}, "shift of a u64 by the constant 32"),
    "number::big_number::BigNum::from_string_base": ({"assert:Overflow(Add)": 1, "assert:Overflow(Sub)": 2}, "character codes minus '0' / 'A' after the range test; + 10"),
}


def reach_set(ctx):
    fb = ctx.fb_all
    if ctx._extra.get("cg_all") is None:
        ctx._extra["cg_all"] = CallGraph(fb)
    cg = ctx._extra["cg_all"]
    reach = cg.reachable([r for r in ROOTS if r in fb.bodies]) | {e for e in EXTRA if e in fb.bodies}
    return fb, cg, reach


def rule_panic(ctx, R, roots=None, skip=()):
    fb, cg, reach = reach_set(ctx)
    if roots is None:
        R.floor("reachable_bodies", len(reach), 120, "bodies reachable from run/check/main")
    else:
        reach = cg.reachable([r for r in roots if r in fb.bodies])
    n = 0
    for name in sorted(reach):
        if name in skip:
            continue
        body = fb.bodies[name]
        if body.path in fb.helpers:
            continue  # a helper's sites are audited in the callers it is inlined into
        R.analyse(name)
        ss = sites(body, fb)
        if name in NUMERIC:
            for x in ss:
                x["numeric"] = True
            allowed, why = NUMERIC[name]
            # an element access is one kind of site whether it is written v[i] on a Vec (a call of Index/IndexMut) or on a
            # slice (a BoundsCheck assertion): a helper that takes `&mut [u32]` instead of `&mut Vec<u32>` moves sites
            # from one spelling to the other without adding any
            IDX = {"assert:BoundsCheck": "element access (BoundsCheck/index)", "index": "element access (BoundsCheck/index)"}
            cnt = Counter(IDX.get(s["kind"], s["kind"]) for s in ss if not auto_justify(s))
            allowed = dict(allowed)
            allowed["element access (BoundsCheck/index)"] = allowed.pop("assert:BoundsCheck", 0) + allowed.pop("index", 0)
            for k, c in sorted(cnt.items()):
                n += c
                R.check(c <= allowed.get(k, 0), "panic:numeric:%s:%s" % (name, k), "%s has %d not mechanically discharged %s site(s); audited: %d (%s)" % (name.rsplit("::", 1)[-1], c, k, allowed.get(k, 0), why), body.span)
            continue
        for s in ss:
            n += 1
            why = auto_justify(s) or AUDITED.get((name, s["key"]))
            if why is None and name in AUDITED_FN_PREFIX and s["kind"] == AUDITED_FN_PREFIX[name][0]:
                why = AUDITED_FN_PREFIX[name][1]
            R.check(why is not None, "panic:%s:%s" % (name, s["key"]), "panic-capable site in %s [%s]: %s" % (name, s["key"][:100], why or "NOT discharged and NOT in the audited table"), s["where"])
    if roots is None:
        R.floor("panic_sites", n, 100, "panic-capable / terminating sites enumerated below run/check/main")
    return n


def rule_exit(ctx, R):
    fb, cg, reach = reach_set(ctx)
    n = 0
    for name, body in sorted(fb.bodies.items()):
        if body.path in fb.helpers:
            continue  # accounted for in the callers it is inlined into
        for s in sites(body, fb):
            if s["kind"] != "terminate":
                continue
            n += 1
            R.analyse(name)
            arg = s["ops"][0]
            R.check(arg in ("K0", "K1", "PHI(K0|K1)") and "exit" in s["key"], "exit:const:%s:%s" % (name, s["key"]), "process termination in %s uses exit with a constant status 0 or 1 (%s)" % (name, s["key"]), s["where"])
            if name in reach:
                R.check(name in ("hyeong::core::execute::pop_stack_wrap", "hyeong::util::io::print_error", "hyeong::util::io::print_error_str"), "exit:reachable:%s" % name, "exits reachable from run/check are the program-requested exits and the diagnostic exit only", s["where"])
    R.floor("exit_sites", n, 8, "process::exit sites in the crate")
    # main: Result of sub_main goes into io::handle
    mb = fb.bodies.get("hyeong::main")
    if R.anchor(mb is not None, "main", "fn main"):
        org = Origins(mb, fb)
        ok = False
        for bi, t in mb.calls():
            if callee_name(t["f"], fb) == "hyeong::util::io::handle":
                o = org.of_operand(t["args"][1], bi, "t")
                if o[0] == "call" and o[1] == "hyeong::sub_main":
                    ok = True
        R.check(ok, "main:handle", "main passes sub_main's Result to io::handle (which prints the diagnostic and exits 1 on Err)", mb.span)
    hb = fb.bodies.get("hyeong::util::io::handle")
    if R.anchor(hb is not None, "handle", "io::handle"):
        names = [callee_name(t["f"], fb) for _, t in hb.calls()]
        for c in fb.closures_of(hb):
            names += [callee_name(t["f"], fb) for _, t in c.calls()]
        R.check("hyeong::util::io::print_error" in names, "handle:err", "io::handle reports Err through print_error (exit status 1)", hb.span)


def rule_ext(ctx, R):
    fb = ctx.fb
    b = fb.bodies.get("hyeong::util::io::read_file")
    if not R.anchor(b is not None, "read_file", "io::read_file"):
        return
    R.analyse(b.name)
    cfg = CFG(b)
    roles = Roles(b, fb, param_roles={1: "PATH"})
    ev = Events(b, fb, roles=roles)
    opens = [bi for bi, t in b.calls() if callee_name(t["f"], fb) in ("std::fs::File::open", "std::fs::read", "std::fs::read_to_string", "std::fs::OpenOptions::open")]
    if not R.anchor(len(opens) >= 1, "open", "the call that opens the program file"):
        return
    guards = []
    for gb, blk in enumerate(b.blocks):
        tt = blk["term"]
        if tt["k"] == "switch":
            for s in cfg.succ[gb]:
                lab = ev.generic_edge(gb, tt, s)
                if lab and "OsStr::new(K'hyeong')" in lab and "eq" in lab.lower() and lab.endswith("=1"):
                    guards.append((gb, s))
    for ob in opens:
        R.check(bool(guards) and not reaches_without(cfg, [0], ob, cut_edges=guards), "read_file:extension", "the file is opened only after its extension compared equal to \"hyeong\"", b.blocks[ob]["term"]["span"]["at"])
    # errors of open/read are propagated (?), decoding through read_to_string (UTF-8 checked)
    qm = 0
    for bi, t in b.calls():
        n = callee_name(t["f"], fb)
        if n in ("std::fs::File::open", "std::io::Read::read_to_string"):
            # the result must flow into Try::branch
            dest = t["dest"]["l"]
            used = False
            for b2, t2 in b.calls():
                if callee_name(t2["f"], fb) == "core::ops::try_trait::Try::branch":
                    o = Origins(b, fb).of_operand(t2["args"][0], b2, "t")
                    if o[0] == "call" and o[1] == n:
                        used = True
            qm += 1
            R.check(used, "read_file:propagate:%s" % n.rsplit("::", 1)[-1], "the Result of %s is propagated with ? (becomes a diagnostic, exit 1)" % n.rsplit("::", 1)[-1], t["span"]["at"])
    R.floor("read_file_io_calls", qm, 2, "open + read_to_string")
    names = [callee_name(t["f"], fb) for _, t in b.calls()]
    R.check("std::io::Read::read_to_string" in names, "read_file:utf8", "the file is decoded with read_to_string (invalid UTF-8 is an error, not a panic)")


def rule_unicode(ctx, R):
    fb = ctx.fb
    b = fb.bodies.get("hyeong::util::ext::num_to_unicode")
    if not R.anchor(b is not None, "num_to_unicode", "ext::num_to_unicode"):
        return
    R.analyse(b.name)
    org = Origins(b, fb)
    roles = Roles(b, fb, param_roles={1: "NUMARG"})
    names = [callee_name(t["f"], fb) for _, t in b.calls()]
    conv = [n for n in names if "from_u32" in n or "from_digit" in n or "transmute" in n]
    R.check(conv == ["core::char::from_u32"] or conv == ["std::char::from_u32"] or (len(conv) == 1 and conv[0].endswith("char::from_u32") and "unchecked" not in conv[0]), "unicode:checked", "the scalar-value check is std's checked char::from_u32: %s" % conv, b.span)
    R.check(not any(n.endswith("::unwrap") or n.endswith("::expect") or "unchecked" in n for n in names), "unicode:no_unwrap", "no unwrap/expect/unchecked conversion in num_to_unicode", b.span, names)
    # the returned value: ok_or_else(from_u32(to_int(floor(num))), closure), or the same decision written as a match
    from . import p_c06
    _, d = p_c06.fn_lang(fb, b.name, epsilon=set())
    CONV = "char::from_u32(BigNum::to_int(Num::floor(P1)))"
    try:
        words = d.enumerate_all(limit=50)
    except RuntimeError:
        words = []
    rets = sorted((tuple(x for x in w if x.startswith("SW[")), w[-1]) for w in words)
    comb = len(rets) == 1 and rets[0][0] == () and (rets[0][1].startswith("RET(Option::ok_or_else(%s," % CONV) or rets[0][1].startswith("RET(Option::ok_or(%s," % CONV))
    mat = (len(rets) == 2 and rets[0][0] == ("SW[DISCR(%s)]=0" % CONV,) and rets[0][1].startswith("RET(Result::Err{")
           and rets[1] == (("SW[DISCR(%s)]=1" % CONV,), "RET(Result::Ok{SOME(%s)})" % CONV))
    # the diagnosis names the rejected code point (the integer that failed the check), not the rational it came from
    from .templates import templates_of
    notes_ = []
    for bb in [b] + fb.closures_of(b):
        try:
            for t in templates_of(bb, fb):
                if "not valid unicode" in t.skeleton():
                    notes_.append(t.types)
        except Exception:
            pass
    R.check(notes_ == [["u32"]], "unicode:note_value", "the note of the encoding error prints the rejected code point (a u32): %s" % notes_, b.span)
    R.check(comb or mat, "unicode:shape", "output conversion is floor -> low limb -> checked scalar value -> the character, Error on failure: %s" % [r[1][:90] for r in rets], b.span)
    # the emitted push and every caller propagate the error
    for name in ("hyeong::core::execute::push_stack_wrap", "hyeong::app::run::run"):
        body = fb.bodies.get(name)
        if body is None:
            continue
        o2 = Origins(body, fb)
        for bi, t in body.calls():
            if callee_name(t["f"], fb) == "hyeong::util::ext::num_to_unicode":
                used = any(callee_name(t2["f"], fb) == "core::ops::try_trait::Try::branch" and o2.of_operand(t2["args"][0], b2, "t")[:2] == ("call", "hyeong::util::ext::num_to_unicode") for b2, t2 in body.calls())
                R.check(used, "unicode:propagate:%s" % name, "%s propagates the encoding error with ?" % name.rsplit("::", 1)[-1], t["span"]["at"])


def rule_errflow(ctx, R):
    """Results of fallible calls in run()/check()/parse_file() are propagated, not dropped or unwrapped"""
    fb = ctx.fb
    n = 0
    for name in ("hyeong::app::run::run", "hyeong::app::check::run", "hyeong::util::ext::parse_file", "hyeong::core::execute::execute", "hyeong::core::execute::execute_one", "hyeong::core::execute::push_stack_wrap",
                 "hyeong::core::execute::pop_stack_wrap", "hyeong::util::io::read_file", "hyeong::util::io::read_line_from", "<std::io::Stdin as hyeong::util::io::ReadLine>::read_line_"):
        b = fb.bodies.get(name)
        if not R.anchor(b is not None, name, name):
            continue
        R.analyse(name)
        org = Origins(b, fb)
        tried = set()
        for b2, t2 in b.calls():
            if callee_name(t2["f"], fb) == "core::ops::try_trait::Try::branch":
                o = org.of_operand(t2["args"][0], b2, "t")
                tried.add(repr(o))
        for bi, t in b.calls():
            ret = b.lty(t["dest"]["l"]) if not t["dest"]["proj"] else ""
            if not ret.startswith("std::result::Result<"):
                continue
            cn = callee_name(t["f"], fb)
            if cn in ("core::ops::try_trait::FromResidual::from_residual",):
                continue
            n += 1
            o = ("call", cn, tuple(org.of_operand(a, bi, "t") for a in t["args"]))
            returned = t["dest"]["l"] == 0
            ok = repr(o) in tried or returned or _flows_to_try(b, fb, org, t["dest"]["l"])
            if not ok and _flows_to_unwrap(b, fb, t["dest"]["l"]):
                continue  # unwrapped on purpose: a panic-capable site, judged by C13.PANIC's audit
            R.check(ok, "errflow:%s:%s" % (name, cn), "the Result of %s in %s is propagated (?) or returned" % (cn.rsplit("::", 2)[-2] + "::" + cn.rsplit("::", 1)[-1], name.rsplit("::", 1)[-1]), t["span"]["at"])
    R.floor("fallible_calls", n, 20, "fallible calls in run/check/parse_file/execute*")


def _flows_to_unwrap(b, fb, local):
    for b2, t2 in b.calls():
        if callee_name(t2["f"], fb).rsplit("::", 1)[-1] in ("unwrap", "expect") and t2["args"]:
            a = t2["args"][0]
            if a["k"] in ("copy", "move") and a["p"]["l"] == local:
                return True
    return False


def _flows_to_try(b, fb, org, local):
    for b2, t2 in b.calls():
        if callee_name(t2["f"], fb) in ("core::ops::try_trait::Try::branch", "core::result::Result::map_err", "std::result::Result::map_err"):
            a = t2["args"][0]
            if a["k"] in ("copy", "move") and a["p"]["l"] == local:
                return True
    # returned through a match / assigned to _0
    for blk in b.blocks:
        for s in blk["stmts"]:
            if s["k"] == "assign" and s["p"]["l"] == 0 and s["r"]["k"] == "use" and s["r"]["x"].get("p", {}).get("l") == local:
                return True
    return False


RULES = [
    ("C13.EXIT", "exit statuses are constants 0/1; only program-requested and diagnostic exits reachable; main routes errors to the diagnostic printer", rule_exit),
    ("C13.PANIC", "every panic-capable site below run/check/main is mechanically discharged or audited", rule_panic),
    ("C13.EXT", "file opened only after the extension test; I/O and decoding errors propagated", rule_ext),
    ("C13.UNICODE", "checked scalar-value conversion mapped to an Error", rule_unicode),
    ("C13.ERRFLOW", "fallible calls on the run/check path propagate their errors", rule_errflow),
]


def rule_diag(ctx, R):
    """a failure ends with a diagnostic: the error printer writes the message of every error, unconditionally,
    before the process exits with status 1"""
    from .interp import normal_cfg
    from .templates import templates_of
    fb = ctx.fb_all
    IO = "hyeong::util::io::"
    pe = fb.bodies.get(IO + "print_error")
    if R.anchor(pe is not None, "print_error", "io::print_error"):
        R.analyse(pe.name)
        cfg = normal_cfg(pe)
        prints = [bi for bi, t in pe.calls() if callee_name(t["f"], fb) in (IO + "print_error_no_exit", IO + "print_error_str_no_exit")]
        exits = [bi for bi, t in pe.calls() if callee_name(t["f"], fb) == "std::process::exit"]
        R.check(bool(prints) and bool(exits) and not any(reaches_without(cfg, [0], x, cut_blocks=prints) for x in exits), "diag:print_before_exit", "print_error prints the diagnostic on every path before it exits", pe.span)
    pn = fb.bodies.get(IO + "print_error_no_exit")
    if R.anchor(pn is not None, "print_error_no_exit", "io::print_error_no_exit"):
        R.analyse(pn.name)
        cfg = normal_cfg(pn)
        roles = Roles(pn, fb, param_roles={1: "W", 2: "ERR"})
        msgs = [bi for bi, t in pn.calls() if callee_name(t["f"], fb) == IO + "print_error_str_no_exit" and "Error::get_msg(ERR)" in roles.of_operand(t["args"][1], bi)]
        R.check(bool(msgs) and not reaches_without(cfg, [0], cfg.returns, cut_blocks=msgs), "diag:message_unconditional", "print_error_no_exit prints the error's message on every path (whether or not the error carries a note)", pn.span)
    if pn is not None:
        # the note: printed exactly when there is one
        ev_ = Events(pn, fb, roles=roles)
        notes = [bi for bi, t in pn.calls() if callee_name(t["f"], fb).startswith(IO + "print_note")]
        guard_t, guard_f = [], []
        for gb, blk in enumerate(pn.blocks):
            tt = blk["term"]
            if tt["k"] == "switch" and not blk["cleanup"]:
                for s_ in cfg.succ[gb]:
                    lab = ev_.generic_edge(gb, tt, s_) or ""
                    if "is_empty(" in lab and "get_note" in lab:
                        (guard_t if lab.endswith("=0") else guard_f).append((gb, s_))
        ok = bool(notes) and len(guard_t) == 1 and len(guard_f) == 1 and all(not reaches_without(cfg, [0], nb, cut_edges=guard_t) for nb in notes) and not reaches_without(cfg, [guard_t[0][1]], cfg.returns, cut_blocks=notes)
        R.check(ok, "diag:note_iff", "the note of an error is printed exactly when it is not empty", pn.span)
    mb = fb.bodies.get("hyeong::main")
    if R.anchor(mb is not None, "main", "fn main"):
        mroles = Roles(mb, fb)
        hs = [(bi, t) for bi, t in mb.calls() if callee_name(t["f"], fb) == IO + "handle"]
        if R.anchor(len(hs) >= 1, "handle_call", "main's calls of io::handle"):
            for k_, (hb_, ht_) in enumerate(hs):
                w = mroles.of_operand(ht_["args"][0], hb_)
                R.check(w.startswith("StandardStream::stderr("), "diag:on_stderr:%d" % k_, "diagnostics go to the standard error stream: %s" % w[:60], ht_["span"]["at"])
    ps = fb.by_path.get(IO + "print_error_str_no_exit") if hasattr(fb, "by_path") else None
    cands = [b for n, b in fb.bodies.items() if n.startswith(IO + "print_error_str_no_exit")]
    if R.anchor(bool(cands), "print_error_str_no_exit", "io::print_error_str_no_exit"):
        b = cands[0]
        R.analyse(b.name)
        cfg = normal_cfg(b)
        roles = Roles(b, fb, param_roles={1: "W", 2: "MSG"})
        shows = []
        try:
            for t in templates_of(b, fb, roles.org):
                if any(roles.of_origin(a) == "MSG" for a in t.args):
                    shows.append(t.block)
        except Exception as e:
            R.fail("diag:templates", "templates of print_error_str_no_exit cannot be recovered: %s" % e, b.span)
        writes = [bi for bi, t in b.calls() if callee_name(t["f"], fb).endswith("write_fmt")]
        show_writes = [w for w in writes if any(reaches_without(cfg, [sb], w, cut_blocks=[x for x in writes if x != w]) for sb in shows)]
        R.check(bool(show_writes) and not reaches_without(cfg, [0], cfg.returns, cut_blocks=show_writes), "diag:message_written", "print_error_str_no_exit writes the message text itself on every path", b.span)


RULES.append(("C13.DIAG", "a failing run ends with a diagnostic: the message of every error is printed unconditionally before exit(1)", rule_diag))


def rule_exittable(ctx, R):
    from . import p_c01
    return p_c01.rule_pop(ctx, R)


RULES.append(("C13.EXITTABLE", "the status a program asks for: popping stack 1 ends with status 0, stack 2 with status 1, after flushing both streams (shared with C01.POP)", rule_exittable))


# rules of other properties re-run under this property's name; resolved by rules/main.py (see rules/share.py)
DEFERRED_BUNDLES = [
    {'prop': 'C13', 'tag': 'INT', 'module': 'p_c05', 'only': ('CTOR', 'DIVLESS', 'LIMBS', 'NORMALISE', 'CONSTS'), 'skip': (), 'why': 'the audited panic sites of the numeric core (NUMERIC table: limb vectors are never empty, result vectors are long enough) rest on the lengths these rules decide'},
    {'prop': 'C13', 'tag': 'STATE', 'module': 'p_c02', 'only': ('OPTSTATE', 'SLOTS'), 'skip': (), 'why': 'the audited index sites of the vector-backed state (AUDITED: STACK, push_stack) are safe because push_stack tests its bound and optimize() hands out only slots below the size it allocates'},
]
