"""Event languages of the two iterative tree emitters of compile.rs (the dispatch tree of build_source and the
comparison tree of area()): explicit-stack walkers whose output is a sequence of templates.  The events are the
operations on the explicit stack (LAST / PUSH(x) / POP), the templates appended to the output (EMIT(skeleton|args),
indentation arguments abstracted to INDENT because white space does not change what the emitted Rust means),
and the branch outcomes.  The rule that uses this compares the language with the reference walker; that the
reference walker emits a correct tree is argued in DESIGN.md (section 12, `emitters`)."""
from .facts import callee_name
from .interp import Events
from .templates import templates_of

EPS = (
    "alloc::fmt::format", "std::fmt::format", "hyeong::core::compile::make_indent", "core::option::Option::unwrap",
    "std::vec::Vec::len", "core::ops::deref::Deref::deref", "core::ops::deref::DerefMut::deref_mut",
    "core::slice::<impl [T]>::len", "core::fmt::rt::Argument::new_display", "core::fmt::rt::Argument::new_debug",
)


class EmitEvents(Events):
    def __init__(self, body, fb, roles, stack_role, **kw):
        super().__init__(body, fb, roles=roles, **kw)
        self.stack_role = stack_role
        self.tpl = {t.block: t for t in templates_of(body, fb, roles.org)}
        self.ret_events = False

    def _arg(self, o):
        # (the indentation counter is given the role INDENT by the caller: make_indent(INDENT), make_indent((INDENT Sub K1)))
        r = self.roles.of_origin(o)
        return r[len("compile::"):] if r.startswith("compile::make_indent(") else r

    def stmt(self, bi, si, s):
        # the indentation counter: how far it moves matters only for balance (an unbalanced counter underflows)
        if self.indent_local is not None and s["k"] == "assign" and not s["p"]["proj"] and s["p"]["l"] == self.indent_local:
            o = self.roles.org.of_rvalue(s["r"], bi, si)
            if o[0] == "bin" and o[1] in ("Add", "Sub") and o[3][0] == "const" and o[2] == ("role", "INDENT"):
                return "INDENT%s=%d" % ("+" if o[1] == "Add" else "-", o[3][2])
            if o[0] == "const":
                return "INDENT:=%d" % o[2]
            return "INDENT:=?"
        return super().stmt(bi, si, s)

    indent_local = None
    canon = None  # fn(label) -> label | None (drop): rule-specific equivalences between branch conditions

    def edge(self, bi, t, s):
        lab = self.generic_edge(bi, t, s)
        if lab and self.canon:
            return self.canon(lab)
        return lab

    def term(self, bi, t):
        if t["k"] != "call":
            return None
        n = callee_name(t["f"], self.fb)
        if n in ("std::fmt::Arguments::new", "std::fmt::Arguments::from_str") and bi in self.tpl:
            tp = self.tpl[bi]
            return "EMIT(%s|%s)" % (tp.skeleton().replace("\n", "\\n"), ",".join(self._arg(a) for a in tp.args))
        if n.endswith("fmt::format") or n in EPS or n.endswith("::make_indent") or "Argument::new_" in n or n.endswith("Box::new_uninit") or n.endswith("box_assume_init_into_vec_unsafe") or n.endswith("String::new"):
            return None
        args = [self.roles.of_operand(a, bi) for a in t["args"]]
        if n.endswith("String::push_str"):
            src = args[1]
            return "APPEND(%s)" % ("text" if "fmt::format(" in src else "command" if "compile::command(" in src else src[:40])
        if n.endswith("compile::command") and len(args) == 2:
            return "CMD(%s)" % args[1]
        if args and args[0] == self.stack_role:
            if n.endswith("::last"):
                return "LAST"
            if n.endswith("Vec::pop"):
                return "POP"
            if n.endswith("Vec::push"):
                return "PUSH(%s)" % args[1]
        return super().term(bi, t)
