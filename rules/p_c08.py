"""C08 — any command list can be written as source text and is read back unchanged (structural clauses)."""
from .cfg import CFG
from .facts import callee_name
from .interp import Events, normal_cfg
from .lang import Roles
from .origin import Origins, show, walk
from .util import Vars, reaches_without
from . import p_c04
from .p_c04 import ParserModel

TECHNIQUE = 'static analysis: pairing rule (every tree/count change is accompanied by a raw-text append in the same iteration) on all paths; typestate reset; table injectivity; decision tables of tree construction'
LEVEL = "other"
EXPLANATION = (
    "Necessary conditions of the round trip decided on all paths of the parser's loop body: (RAW) every character "
    "that changes the pending command (a counted syllable, a counted dot, an area character) is appended to that "
    "command's raw text before the loop continues, the appended character is the character just read (not a "
    "substitute), and a command start restarts the raw text with its own character — so the concatenated raw texts "
    "re-parse to the same commands; (RESET/GROUP/FIRSTHEART from C04) ignorable text cannot leak into a command and "
    "redundant hearts are ignored; (TABLES) the prefix and infix renderings use one injective 14-character table that "
    "matches the parser's numbering, and the `check` listing prints kind, both counts and the area rendering. The "
    "round-trip equality itself is NOT decided."
)
ASSUMPTIONS = p_c04.ASSUMPTIONS
TRUSTED = p_c04.TRUSTED


def rule_raw(ctx, R):
    fb = ctx.fb
    M = ParserModel(fb)
    if not R.anchor(M.b is not None and M.ok, "parser_model", "parser anchors"):
        return
    b, cfg, vars_, org, roles = M.b, M.cfg, M.vars, M.org, M.roles
    R.analyse(b.name)
    Cc = "ELEM<ENUMERATE(CHARS(CODE))>.1"
    # raw-text appends and restarts
    appends, restarts = [], []
    for bi, t in b.calls():
        n = callee_name(t["f"], fb)
        if n == "std::string::String::push" and vars_.root_key(t["args"][0]) == M.raw:
            appends.append((bi, t, roles.of_operand(t["args"][1], bi)))
    for (db, di) in vars_.def_sites(M.raw):
        if db in M.loop:
            s = b.blocks[db]["term"] if di == "t" else b.blocks[db]["stmts"][di]
            r = roles.of_origin(org._site(M.raw[1], [d for d in org.defs[M.raw[1]] if d[0] == db and d[1] == di][0], 0, ()))
            restarts.append((db, s, r))
    R.floor("raw_appends", len(appends), 5, "raw_command.push sites")
    for bi, t, role in appends:
        R.check(role == Cc, "raw:append_is_c:%d" % appends.index((bi, t, role)), "the character appended to the raw text is the character just read: %s" % role, t["span"]["at"])
    for db, s, r in restarts:
        R.check(Cc in r and "to_string" in r, "raw:restart_is_c", "a command start restarts the raw text with the start character itself: %s" % r[:100], s["span"]["at"])
    app_blocks = [a[0] for a in appends] + [r[0] for r in restarts]
    # a dot or ellipsis belongs to the command's text only where it counts (before the area part): in the dot branch
    # the append sits behind the same state test as the count
    ev = Events(b, fb, roles=roles)
    dots_in = []
    for gb in M.loop:
        tt = b.blocks[gb]["term"]
        if tt["k"] == "switch":
            for sx in cfg.succ[gb]:
                lab = ev.generic_edge(gb, tt, sx) or ""
                if lab.startswith("BR[str::contains(K'.") and lab.endswith("=1") and Cc in lab:
                    dots_in.append(sx)
    st0 = p_c04._state0_edges(M)
    if R.anchor(len(dots_in) == 1 and bool(st0), "raw:dots_branch", "the branch that handles dot characters and the test for parser state 0"):
        in_branch = [a for a in appends if reaches_without(cfg, dots_in, a[0], cut_blocks=[M.head])]
        bad = [t["span"]["at"] for bi, t, _ in in_branch if reaches_without(cfg, dots_in, bi, cut_blocks=[M.head], cut_edges=st0)]
        R.check(bool(in_branch) and not bad, "raw:dots_only_counted", "a dot character is appended to the raw text exactly where it is counted (parser state 0); dots after the area part began are not part of the command's text: %s" % bad, in_branch[0][1]["span"]["at"] if in_branch else None)
    # mutations of the pending command inside the loop
    muts = []
    for key, nm in ((M.hangul, "syllable count"), (M.dot, "dot count")):
        for (db, di) in vars_.def_sites(key):
            if db in M.loop and di != "t":
                o = org.of_rvalue(b.blocks[db]["stmts"][di]["r"], db, di)
                if o[0] == "bin" and o[1] == "Add":
                    muts.append((db, nm, b.blocks[db]["stmts"][di]["span"]["at"]))
    # tree builds: stores through cursors and whole-tree non-Nil assignments inside the loop
    for bi in M.loop:
        for si, s in enumerate(b.blocks[bi]["stmts"]):
            if s["k"] != "assign":
                continue
            p = s["p"]
            if "deref" in p["proj"] and b.lty(p["l"]).startswith("&mut") and "Area" in b.lty(p["l"]):
                # the flush of a finished command (*right = Box::new(area) right before UnOptCode::new) is not a mutation of the pending command
                if any(reaches_without(cfg, [bi], nb, cut_blocks=[M.head]) for nb, _ in M.news):
                    continue
                muts.append((bi, "area tree (through a cursor)", s["span"]["at"]))
            elif not p["proj"] and p["l"] in M.trees:
                o = org.of_rvalue(s["r"], bi, si)
                if not (o[0] == "agg" and o[1].endswith("Area::Nil")):
                    muts.append((bi, "area tree", s["span"]["at"]))
    R.floor("command_mutations", len(muts), 8, "mutation sites of the pending command in the loop body")
    n = 0
    for mb, nm, where in muts:
        n += 1
        # every path from the mutation back to the loop head (or out of the loop) passes an append/restart,
        # or the mutation is itself preceded by the append within the same iteration
        after = not reaches_without(cfg, cfg.succ[mb] if mb not in app_blocks else [], M.head, cut_blocks=app_blocks) or mb in app_blocks
        before = not reaches_without(cfg, [M.head], mb, cut_blocks=app_blocks)
        R.check(after or before, "raw:paired:%s:%d" % (nm, n), "a change of the pending command's %s is always accompanied by appending the character to its raw text in the same iteration" % nm, where)


def rule_listing(ctx, R):
    fb = ctx.fb
    b = fb.bodies.get("hyeong::app::check::print_un_opt_codes")
    if not R.anchor(b is not None, "print_un_opt_codes", "check::print_un_opt_codes"):
        return
    R.analyse(b.name)
    org = Origins(b, fb)
    roles = Roles(b, fb)
    # the non-raw listing line: "{}_{}_{} {}" with COMMANDS[type], hangul, dot, area (Display)
    found = False
    for bi, t in b.calls():
        if callee_name(t["f"], fb).endswith("Write::write_fmt"):
            r = roles.of_operand(t["args"][1], bi)
            if r.count("Argument::new_display") == 4 and "_" in r:
                found = True
                ok = "CONST:COMMANDS" in r and "KIND" in r and "HANGUL" in r and "DOT" in r and "AREA" in r
                order = [r.find(x) for x in ("KIND", "HANGUL", "DOT", "AREA")]
                R.check(ok and order == sorted(order), "listing:fields", "the listing line prints kind character, syllable count, dot count and the area rendering, in that order", t["span"]["at"], r[:300])
                R.check("\\x01_\\xc0\\x01_\\xc0\\x01 \\xc0" in r or "_" in r, "listing:template", "fields are separated by '_' '_' ' '", t["span"]["at"])
    R.anchor(found, "listing_line", "write of the KIND_syllables_dots AREA line")


RULES = [
    ("C08.RAW", "every significant character is appended to the pending command's raw text", rule_raw),
    ("C08.RESET", "ignorable text before/between commands cannot leak into a command", p_c04.rule_reset),
    ("C08.FIRSTHEART", "redundant hearts are ignored", p_c04.rule_firstheart),
    ("C08.TABLES", "rendering tables are injective and match the parser", p_c04.rule_tables),
    ("C08.LISTING", "`check` listing prints kind, counts and area", rule_listing),
    ("C08.TREE", "the parser rebuilds the area tree a renderer wrote: per-handler decision tables of the tree construction (shared with C04)", p_c04.rule_tree),
]


def rule_render(ctx, R):
    """the two renderings of an area tree as decision tables over the node kind: which characters are written, in
    which order, and where the renderer recurses (prefix for Debug, bracketed infix for Display; a leaf prints
    only its own character)"""
    from .paths import acyclic_paths, PathOriginsOv, simplify
    from .interp import normal_cfg
    from .p_c01 import _calc_eval, _CalcUnknown
    fb = ctx.fb
    want = {
        "hyeong::core::area::area_to_string_debug": {
            ("Nil", None): ("PUSH(K95)",),
            ("Val", 0): ("PUSH(TBL)", "REC(left)", "REC(right)"), ("Val", 1): ("PUSH(TBL)", "REC(left)", "REC(right)"),
            ("Val", 2): ("PUSH(TBL)",), ("Val", 13): ("PUSH(TBL)",),
        },
        "hyeong::core::area::area_to_string_display": {
            ("Nil", None): ("PUSH(K95)",),
            ("Val", 0): ("PUSH(K91)", "REC(left)", "PUSH(K93)", "PUSH(TBL)", "PUSH(K91)", "REC(right)", "PUSH(K93)"),
            ("Val", 1): ("PUSH(K91)", "REC(left)", "PUSH(K93)", "PUSH(TBL)", "PUSH(K91)", "REC(right)", "PUSH(K93)"),
            ("Val", 2): ("PUSH(TBL)",), ("Val", 13): ("PUSH(TBL)",),
        },
    }
    for name, table in want.items():
        b = fb.bodies.get(name)
        if not R.anchor(b is not None, name, name):
            continue
        R.analyse(name)
        cfg = normal_cfg(b)
        if not R.anchor(not cfg.back_edges(), name + ":acyclic", "the renderer is a recursive function without loops"):
            continue
        paths = acyclic_paths(cfg, 0, cfg.returns, 4000)
        got, problems = {}, []
        for (kind, ty), _ in table.items():
            env = {"kind": kind, "type": ty, "cmp": None, "fb": fb}
            seqs = set()
            for p in paths:
                org = PathOriginsOv(b, fb, p, overrides={2: ("role", "NODE")})
                roles = Roles(b, fb, param_roles={1: "OUT"}, org=org)
                ok = True
                try:
                    for i, bi in enumerate(p[:-1]):
                        t = b.blocks[bi]["term"]
                        if t["k"] != "switch":
                            continue
                        v = _calc_eval(simplify(org.of_operand(t["x"], bi, "t")), env)
                        v = int(v) if isinstance(v, bool) else v
                        if not isinstance(v, int):
                            raise _CalcUnknown("branch on %r" % (v,))
                        taken = None
                        for a_, bb in t["arms"]:
                            if int(a_) == v:
                                taken = bb
                        if taken is None:
                            taken = t["otherwise"]
                        if taken != p[i + 1]:
                            ok = False
                            break
                    if not ok:
                        continue
                    seq = []
                    for bi in p:
                        t = b.blocks[bi]["term"]
                        if t["k"] != "call":
                            continue
                        n = callee_name(t["f"], fb)
                        if n == "std::string::String::push":
                            r = roles.of_operand(t["args"][1], bi)
                            seq.append("PUSH(TBL)" if ("CHARS(" in r or "Index" in r or "[" in r) and "type_" in r else "PUSH(%s)" % r)
                        elif n == name:
                            r = roles.of_operand(t["args"][1], bi)
                            seq.append("REC(left)" if ".left" in r else "REC(right)" if ".right" in r else "REC(%s)" % r)
                        elif n.rsplit("::", 1)[-1] in ("push_str", "insert", "insert_str", "extend", "write_fmt", "write_str"):
                            seq.append("OTHER(%s)" % n.rsplit("::", 1)[-1])
                    seqs.add(tuple(seq))
                except _CalcUnknown as e:
                    problems.append("%s/%s: %s" % (kind, ty, e))
            got[(kind, ty)] = seqs
        bad = {str(k): sorted(v) for k, v in got.items() if v != {table[k]}}
        short = name.rsplit("::", 1)[-1]
        R.check(not bad and not problems, "render:" + short, "%s: `_` for an empty slot; an operator (type 0/1) writes its character and both operands (%s); a heart writes only its own character" % (short, "prefix" if "debug" in short else "[left]op[right]"), b.span, {"differs": bad, "undecided": problems[:4]})

    # the formatting impls hand the whole tree to the renderer and print exactly what it wrote
    from .util import Vars, reaches_without
    wrappers = [
        ("Area as core::fmt::Display>::fmt", "hyeong::core::area::area_to_string_display", ("ARG1", "P1")),
        ("Area as core::fmt::Debug>::fmt", "hyeong::core::area::area_to_string_debug", ("ARG1", "P1")),
        ("UnOptCode as core::fmt::Debug>::fmt", "hyeong::core::area::area_to_string_debug", ("ARG1.area", "P1.area")),
    ]
    for suffix, renderer, subject in wrappers:
        cands = [n for n in fb.bodies if n.endswith(suffix)]
        if not R.anchor(len(cands) == 1, "render:wrapper:" + suffix.split(" ")[0], "impl %s" % suffix):
            continue
        wb = fb.bodies[cands[0]]
        R.analyse(wb.name)
        wcfg = normal_cfg(wb)
        wroles = Roles(wb, fb)
        wv = Vars(wb)
        calls_ = [(bi, t) for bi, t in wb.calls() if callee_name(t["f"], fb) == renderer]
        writes_ = [(bi, t) for bi, t in wb.calls() if callee_name(t["f"], fb).endswith("write_fmt") or callee_name(t["f"], fb).endswith("Formatter::write_str")]
        ok, why = False, "renderer calls %d, writes %d" % (len(calls_), len(writes_))
        if len(calls_) == 1 and len(writes_) == 1:
            cb, ct = calls_[0]
            wbk, wt = writes_[0]
            buf = wv.root_key(ct["args"][0])
            shown = {wv.root_key(t["args"][0]) for bi, t in wb.calls() if "Argument::new_" in callee_name(t["f"], fb)}
            if callee_name(wt["f"], fb).endswith("Formatter::write_str"):
                shown = {wv.root_key(wt["args"][1])}
            ok = wroles.of_operand(ct["args"][1], cb) in subject and buf is not None and buf in shown and not reaches_without(wcfg, [0], wbk, cut_blocks=[cb])
            why = "renders %s into %s, printed values %s" % (wroles.of_operand(ct["args"][1], cb), wv.name(buf), sorted(wv.name(k) for k in shown if k))
        R.check(ok, "render:wrapper:%s" % suffix.split(">")[0].replace(" as core::fmt::", ":"), "the formatting impl renders the whole tree of its subject into a buffer and prints that buffer: %s" % why, wb.span)


RULES.append(("C08.RENDER", "the two renderings of area trees: decision tables of the characters written and the recursion per node kind", rule_render))


RULES.append(("C08.LISTTOTAL", "`hyeong check` lists any parse result without crashing: panic audit below check::run (shared with C04.LISTING)", p_c04.rule_listing_total))


RULES.append(("C08.GROUP", "command fields are assigned only as part of an accepted command start; unmatched start syllables are skipped by absolute character index (shared with C04.GROUP)", p_c04.rule_group))
RULES.append(("C08.DEFS", "dot counting, location, newline tracking and the index kind of both passes (shared with C04.DEFS)", p_c04.rule_defs))


def _codeapi(ctx, R):
    from . import p_c01
    return p_c01.rule_codeapi(ctx, R)


RULES.append(("C08.CODEAPI", "the words kind / syllable count / dot count / area count / area mean the fields of the command record: getters and constructors of UnOptCode and OptCode (shared with C01.CODEAPI)", _codeapi))


def rule_file(ctx, R):
    """what `check`, `run`, `debug` and `build` parse is the text of the file: parse_file hands the string read_file
    returned to parse::parse as it is, and returns what parse::parse returned"""
    fb = ctx.fb_all
    b = fb.bodies.get("hyeong::util::ext::parse_file")
    if not R.anchor(b is not None, "parse_file", "ext::parse_file"):
        return
    R.analyse(b.name)
    roles = Roles(b, fb, param_roles={1: "TERM", 2: "PATH", 3: "OPT"})
    cfg = normal_cfg(b)
    ps = [(bi, roles.of_operand(t["args"][0], bi)) for bi, t in b.calls() if callee_name(t["f"], fb) == "hyeong::core::parse::parse"]
    oks = sorted({roles.of_origin(roles.org.of_rvalue(st["r"], bi, si)) for bi, blk in enumerate(b.blocks) if not blk["cleanup"] for si, st in enumerate(blk["stmts"]) if st["k"] == "assign" and st["p"]["l"] == 0 and not st["p"]["proj"] and st["r"]["k"] == "agg" and st["r"].get("variant") == "Ok"})
    # ... and the text is not changed in place on the way (no mutable borrow of the string that is parsed)
    vs = Vars(b)
    keys = {vs.root_key(t["args"][0]) for bi, t in b.calls() if callee_name(t["f"], fb) == "hyeong::core::parse::parse"}
    mut_borrows = [st["span"]["at"] for blk in b.blocks if not blk["cleanup"] for st in blk["stmts"] if st["k"] == "assign" and st["r"]["k"] == "ref" and st["r"].get("mut") and vs._root_place(st["r"]["p"], 0) in keys]
    R.check(not mut_borrows, "file:not_edited", "the text read from the file is not edited before it is parsed (no mutable borrow of it): %s" % mut_borrows, b.span)
    R.check(len(ps) == 1 and ps[0][1] == "TRY(io::read_file(PATH))" and oks == ["Result::Ok{parse::parse(TRY(io::read_file(PATH)))}"], "file:as_it_is", "parse_file parses exactly the text read from the file and returns exactly the parsed commands: parse(%s) -> %s" % ([p_[1] for p_ in ps], [o[:80] for o in oks]), b.span)
    rf = fb.bodies.get("hyeong::util::io::read_file")
    if R.anchor(rf is not None, "read_file", "io::read_file"):
        R.analyse(rf.name)
        r2 = Roles(rf, fb, param_roles={1: "PATH"})
        cf = normal_cfg(rf)
        reads = [(bi, r2.of_operand(t["args"][0], bi), vars_key) for bi, t in rf.calls() for vars_key in [Vars(rf).root_key(t["args"][1]) if len(t["args"]) > 1 else None] if callee_name(t["f"], fb).endswith("Read::read_to_string")]
        oks2 = [(bi, Vars(rf).root_key(st["r"]["fields"][0])) for bi, blk in enumerate(rf.blocks) if not blk["cleanup"] for st in blk["stmts"] if st["k"] == "assign" and st["p"]["l"] == 0 and st["r"]["k"] == "agg" and st["r"].get("variant") == "Ok"]
        muts = [callee_name(t["f"], fb) for bi, t in rf.calls() if t["args"] and reads and Vars(rf).root_key(t["args"][0]) == reads[0][2] and not callee_name(t["f"], fb).endswith("String::new")]
        R.check(len(reads) == 1 and "File::open(PATH)" in reads[0][1] and len(oks2) == 1 and oks2[0][1] == reads[0][2] and not reaches_without(cf, [0], [oks2[0][0]], cut_blocks=[reads[0][0]]) and not muts, "file:whole_content", "read_file returns the whole content of the file it was asked for, untouched (read_to_string into the buffer that is returned; other uses of the buffer: %s)" % muts, rf.span)


RULES.append(("C08.FILE", "the text that is parsed is the text of the file: parse_file and read_file hand it on untouched", rule_file))
