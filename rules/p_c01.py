"""C01 — the interpreter executes every program according to the language definition.

Structural necessary conditions decided on all CFG paths of the interpreter's bodies, by comparing
their guarded event languages (A-GEA) with the declarative language table (DESIGN.md 3.3)."""
from .cfg import CFG
from .facts import callee_name
from .gea import Seq, Star, Alt, Opt, spec_nfa, DFA, compare
from .interp import Events, normal_cfg, kind_switch, language, diverging_exits
from .lang import Roles, S, C, NUM, POP_WRAP, PUSH_WRAP
from .origin import Origins, show
from .util import Vars, reaches_without

TECHNIQUE = 'static analysis (no execution): event-language equality (NFA->DFA over all CFG paths of rustc MIR) against a declarative language table; must-pass-through cut queries; finite-domain decision table of the terminating paths'
LEVEL = "other"
EXPLANATION = (
    "Path-complete comparison of the interpreter's event structure with a declarative table of the language "
    'definition: for each of the six command arms of execute_one, the area/jump segment, area::calc, the push and pop '
    'wrappers (I/O stacks 0/1/2, flush-before-exit, exit codes), the NaN rules of the stack cell and the driver loop, '
    'the regular language of events (pops, pushes, accumulator operations, reversals, stack selection, label table '
    'operations, branch outcomes, returns) over ALL control-flow paths of the body equals the language the definition '
    'prescribes; the terminating paths of the pop wrapper are decided as a table stack index -> (flushes, exit '
    'status); the comparison the area branches on (Num::partial_cmp) has its defining language (shared with C07). '
    'Decides the structural clause (order, operands, targets, branch selection) for every program and input; does NOT '
    'decide arithmetic values, the induction over a whole run, or Debug rendering.'
)
ASSUMPTIONS = [
    "rustc MIR (nightly 1.97, mir-opt-level=0) faithfully represents the source; unwind edges ignored",
    "roles of operands are computed by backward slicing (A-ORG); a value whose role cannot be classified makes the comparison fail closed",
    "the language table in rules/p_c01.py was written from the language definition and reviewed against the source only for naming",
    "callees classified as pure (getters, constructors, iterator plumbing) have no effect on interpreter state",
]
TRUSTED = ["rustc nightly MIR", "/verif/rules A-CFG/A-ORG/A-GEA", "language table (rules/p_c01.py)"]

EXEC_ONE = "hyeong::core::execute::execute_one"
CALC = "hyeong::core::area::calc"

RNG = "ITER(Range::Range{K0,HANGUL})"
ARM_SPECS = {
    0: Seq("PUSH(CUR,MUL(NUM(DOT),NUM(HANGUL)))"),
    1: Seq(RNG, Star("POP(CUR)", "ACCOP(add,ZERO,POPPED)"), "PUSH(DOT,ZERO)"),
    2: Seq(RNG, Star("POP(CUR)", "ACCOP(mul,ONE,POPPED)"), "PUSH(DOT,ONE)"),
    3: Seq(RNG, Star("POP(CUR)", "COLLECT(VEC,POPPED)"), "REVERSE(VEC)", "ITER(VEC)", Star("ELEMOP(minus,ELEM)", "ACCOP(add,ZERO,ELEM)", "PUSH(CUR,ELEM)"), "PUSH(DOT,ZERO)"),
    4: Seq(RNG, Star("POP(CUR)", "COLLECT(VEC,POPPED)"), "REVERSE(VEC)", "ITER(VEC)", Star("ELEMOP(flip,ELEM)", "ACCOP(mul,ONE,ELEM)", "PUSH(CUR,ELEM)"), "PUSH(DOT,ONE)"),
    5: Seq("POP(CUR)", RNG, Star("PUSH(DOT,COPY(POPPED))"), "PUSH(CUR,POPPED)", "SELECT(DOT)"),
}
# accepted variants (same behaviour): the collected operands are reversed in place and then iterated, or
# iterated in reverse
ARM_VARIANTS = {k: [v] for k, v in ARM_SPECS.items()}
ARM_VARIANTS[3].append(Seq(RNG, Star("POP(CUR)", "COLLECT(VEC,POPPED)"), "ITER(VEC)", "ITER(REV(VEC))", Star("ELEMOP(minus,ELEM)", "ACCOP(add,ZERO,ELEM)", "PUSH(CUR,ELEM)"), "PUSH(DOT,ZERO)"))
ARM_VARIANTS[4].append(Seq(RNG, Star("POP(CUR)", "COLLECT(VEC,POPPED)"), "ITER(VEC)", "ITER(REV(VEC))", Star("ELEMOP(flip,ELEM)", "ACCOP(mul,ONE,ELEM)", "PUSH(CUR,ELEM)"), "PUSH(DOT,ONE)"))
ARM_VARIANTS[3].append(Seq(RNG, Star("POP(CUR)", "COLLECT(VEC,POPPED)"), "ITER(REV(VEC))", Star("ELEMOP(minus,ELEM)", "ACCOP(add,ZERO,ELEM)", "PUSH(CUR,ELEM)"), "PUSH(DOT,ZERO)"))
ARM_VARIANTS[4].append(Seq(RNG, Star("POP(CUR)", "COLLECT(VEC,POPPED)"), "ITER(REV(VEC))", Star("ELEMOP(flip,ELEM)", "ACCOP(mul,ONE,ELEM)", "PUSH(CUR,ELEM)"), "PUSH(DOT,ONE)"))
ID = "((AREACOUNT Shl K4) Add AREATYPE)"


def jump_spec(goto):
    """the label / ♡ rules; goto(x) renders 'continue at x' for the body at hand"""
    nxt = goto("(LOC Add K1)")
    return Seq(
        "CALC(AREA,AREACOUNT,CLOSURE)",
        Alt(
            Seq("EQ[AREATYPE,K0]=1", nxt),
            Seq(
                "EQ[AREATYPE,K0]=0",
                Alt(
                    Seq("EQ[AREATYPE,K13]=1", "GETL", Alt(Seq("SW[DISCR(LATEST)]=1", goto("LATESTLOC")), Seq("SW[DISCR(LATEST)]=0", nxt))),
                    Seq(
                        "EQ[AREATYPE,K13]=0",
                        "GETP(%s)" % ID,
                        Alt(
                            Seq("SW[DISCR(POINT(%s))]=0" % ID, "SETP(%s,LOC)" % ID, nxt),
                            Seq("SW[DISCR(POINT(%s))]=1" % ID, Alt(Seq("EQ[LABEL,LOC]=1", nxt), Seq("EQ[LABEL,LOC]=0", "SETL(LOC)", goto("LABEL")))),
                        ),
                    ),
                ),
            ),
        ),
    )


def check_lang(R, key, what, dfa, spec, where=None):
    from .gea import normalised_dfa
    sd = normalised_dfa(spec_nfa(spec))
    dfa = normalised_dfa(dfa)
    diff = compare(dfa, sd)
    if diff is None:
        R.ok(key, "%s: event language equals the definition (%d DFA states; e.g. %s)" % (what, dfa.n_states(), " ".join((dfa.enumerate_strings(3) or [[]])[-1][:12])), where)
        return True
    side = "implementation" if diff["only_in"] == 1 else "definition"
    R.fail(
        key,
        "%s: event language differs from the definition: after [%s] only the %s continues with %s" % (what, " ".join(diff["prefix"][-8:]), side, diff["next"]),
        diff.get("where") or where,
        {"prefix": diff["prefix"], "next": diff["next"], "only_in": side},
    )
    return False


def check_lang_any(R, key, what, dfa, specs, where=None):
    """the implementation's language must equal one of the acceptable variants of the definition
    (operand order of commutative steps, order of independent statements)"""
    best = None
    from .gea import normalised_dfa
    pl = getattr(dfa, "path_lang", None)
    dfa = normalised_dfa(dfa)
    if pl is not None:
        # acyclic body: compare the set of path-precise strings with the (finite) set of strings of a variant
        for sp in specs:
            sd = normalised_dfa(spec_nfa(sp))
            want = {tuple(x) for x in sd.enumerate_all(5000)}
            if want == pl:
                R.ok(key, "%s: path-precise event language equals the definition (%d paths, %d accepted variants)" % (what, len(pl), len(specs)), where)
                return True
    for sp in specs:
        sd = normalised_dfa(spec_nfa(sp))
        diff = compare(dfa, sd)
        if diff is None:
            R.ok(key, "%s: event language equals the definition (%d DFA states, %d accepted variants; e.g. %s)" % (what, dfa.n_states(), len(specs), " ".join((dfa.enumerate_strings(3) or [[]])[-1][:10])), where)
            return True
        if best is None or len(diff["prefix"]) > len(best["prefix"]):
            best = diff
    side = "implementation" if best["only_in"] == 1 else "definition"
    R.fail(key, "%s: event language differs from every accepted variant of the definition: after [%s] only the %s continues with %s" % (what, " ".join(best["prefix"][-8:]), side, best["next"]), best.get("where") or where, {"prefix": best["prefix"], "next": best["next"], "only_in": side})
    return False


def exec_regions(body, fb):
    cfg = normal_cfg(body)
    sb, st = kind_switch(body, fb)
    if sb is None:
        return None
    join = cfg.ipdom(sb, cfg.returns)
    return cfg, sb, st, join


def rule_arms(ctx, R):
    fb = ctx.fb
    body = fb.bodies.get(EXEC_ONE)
    if not R.anchor(body is not None, "execute_one", "execute::execute_one"):
        return
    R.analyse(body.name)
    reg = exec_regions(body, fb)
    if not R.anchor(reg is not None and reg[3] is not None, "kind_switch", "switch on Code::get_type() with a common join"):
        return
    cfg, sb, st, join = reg
    arms = {int(v): bb for v, bb in st["arms"]}
    R.check(sorted(arms) == [0, 1, 2, 3, 4] and st["otherwise"] not in arms.values(), "execute_one:exhaustive", "command kinds 0..4 have explicit arms and kind 5 is the remaining arm (six kinds)", body.blocks[sb]["term"]["span"]["at"])
    arms[5] = st["otherwise"]
    ev = Events(body, fb)
    for k in range(6):
        if k not in arms:
            continue
        d = language(body, fb, cfg, arms[k], [join], ev)
        check_lang_any(R, "execute_one:arm%d" % k, "command kind %d in execute_one" % k, d, ARM_VARIANTS[k], body.blocks[arms[k]]["term"]["span"]["at"])


def closure_roles(fb, parent, proles, cbody):
    """roles of a closure's captures from the aggregate that builds it in the parent"""
    org = Origins(parent, fb)
    for bi, b in enumerate(parent.blocks):
        if b["cleanup"]:
            continue
        for si, s in enumerate(b["stmts"]):
            if s["k"] == "assign" and s["r"]["k"] == "agg" and s["r"].get("closure") == cbody.path:
                names = s["r"]["fields_n"]
                m = {}
                for n, f in zip(names, s["r"]["fields"]):
                    m[n] = proles.of_operand(f, bi, si)
                return m, (bi, si, s)
    return None, None


def rule_area_jump(ctx, R):
    fb = ctx.fb
    body = fb.bodies.get(EXEC_ONE)
    if not R.anchor(body is not None, "execute_one", "execute::execute_one"):
        return
    R.analyse(body.name)
    reg = exec_regions(body, fb)
    if not R.anchor(reg is not None and reg[3] is not None, "kind_switch", "switch on Code::get_type() with a common join"):
        return
    cfg, sb, st, join = reg
    ev = Events(body, fb)
    d = language(body, fb, cfg, join, cfg.returns, ev, stop_at_exit=False)
    check_lang(R, "execute_one:jump", "area evaluation and label/♡ jump rules of execute_one", d, jump_spec(lambda x: "RET(Result::Ok{tuple{STATE,%s}})" % x), body.blocks[join]["term"]["span"]["at"])
    # the closure handed to calc pops from the stack that is current AFTER the command
    cl = [c for c in fb.closures_of(body)]
    if not R.anchor(len(cl) == 1, "closure", "the pop closure given to area::calc"):
        return
    cb = cl[0]
    R.analyse(cb.name)
    proles = Roles(body, fb)
    up, site = closure_roles(fb, body, proles, cb)
    if not R.anchor(up is not None, "closure_site", "construction site of the pop closure"):
        return
    croles = Roles(cb, fb, param_roles={}, upvar_roles=up)
    cev = Events(cb, fb, roles=croles)
    ccfg = normal_cfg(cb)
    cd = language(cb, fb, ccfg, 0, ccfg.returns, cev, stop_at_exit=False)
    check_lang(R, "execute_one:closure", "pop closure of the area evaluation", cd, Seq("POP(CUR)", "RET(POP(CUR))"), cb.span)
    # reaching definitions of the captured stack index at the construction site: all after the match
    bi, si, s = site
    org = Origins(body, fb)
    vars_ = Vars(body)
    for n, f in zip(s["r"]["fields_n"], s["r"]["fields"]):
        if up.get(n) != "CUR":
            continue
        key = vars_.key_of_operand(f)
        if not R.anchor(key is not None and key[0] == "L", "curvar", "captured stack-index variable"):
            continue
        sites, entry = org.reaching(key[1], bi, si)
        dom = cfg.dominators()
        ok = (not entry) and sites and all(join in dom.get(d[0], ()) for d in sites)
        R.check(ok, "execute_one:cur_after_match", "the stack index the area pops from is re-read after the command (all %d reaching definitions lie after the match)" % len(sites), s["span"]["at"])


def calc_events(body, fb):
    # the loop variable: the local of type &Area that is assigned inside the loop
    vars_ = Vars(body)
    loopvar = None
    for l, ds in vars_.defs.items():
        if body.lty(l) == "&core::area::Area" and len(ds) >= 2 and l in body.local_names():
            loopvar = l
    if loopvar is None:
        return None
    roles = Roles(body, fb, param_roles={1: "ROOT", 2: "COUNT", 3: "POPFN"}, overrides={loopvar: "NODE"})
    plain = Origins(body, fb)

    def stmt_events(bi, si, s):
        if s["k"] == "assign" and not s["p"]["proj"] and body.lty(s["p"]["l"]) == "&core::area::Area" and s["p"]["l"] != loopvar:
            o = roles.org.of_rvalue(s["r"], bi, si)
            # strip Box internals
            while o[0] == "field" and o[1] in ("0", "pointer"):
                o = o[2]
            if o[0] == "field" and o[1] in ("left", "right"):
                return "DESCEND(%s,%s)" % (o[1], roles.of_origin(o[2]))
            return None
        return NotImplemented

    ev = Events(body, fb, roles=roles, stmt_events=stmt_events, extra_epsilon={"core::cmp::PartialOrd::partial_cmp", "core::cmp::PartialEq::eq", "core::cmp::PartialEq::ne"})
    return ev, loopvar


class _CalcUnknown(Exception):
    pass


def _calc_eval(o, env):
    """finite-domain evaluation of a branch condition of area::calc.  env: node kind ('Val'/'Nil'), type_ (int),
    cmp (None / 'Less' / 'Equal' / 'Greater': the outcome of comparing the popped value with the count)"""
    ORD = {"Less": -1, "Equal": 0, "Greater": 1}
    k = o[0]
    if k == "role" and o[1] == "NODE":
        return ("node",)
    if k == "const":
        return o[2]
    if k == "promoted":
        pb = getattr(env.get("fb"), "promoted", {}).get((o[1], o[2]))
        if pb is None:
            raise _CalcUnknown("promoted constant")
        po = Origins(pb, env["fb"])
        last = max(i for i, blk in enumerate(pb.blocks) if blk["term"]["k"] == "return")
        return _calc_eval(po.of_local(0, last, "t"), env)
    if k in ("clone", "ref", "deref"):
        return _calc_eval(o[-1], env)
    if k == "cast":
        return _calc_eval(o[3], env)
    if k == "variant":
        v = _calc_eval(o[2], env)
        if v == ("node",) and o[1] == "Val":
            return ("val",)
        if isinstance(v, tuple) and v[0] == "opt" and o[1] == "Some":
            return ("some", v[1])
        raise _CalcUnknown("variant %s" % (o[1],))
    if k == "some":
        v = _calc_eval(o[1], env)
        if isinstance(v, tuple) and v[0] == "opt" and v[1] is not None:
            return ("ord", v[1])
        raise _CalcUnknown("payload of %r" % (v,))
    if k == "field":
        v = _calc_eval(o[2], env)
        if v == ("val",) and o[1] == "type_":
            return env["type"]
        if isinstance(v, tuple) and v[0] == "some" and str(o[1]) == "0":
            return ("ord", v[1])
        raise _CalcUnknown("field %s" % (o[1],))
    if k == "discr":
        v = _calc_eval(o[1], env)
        if v == ("node",):
            return 0 if env["kind"] == "Val" else 1
        if isinstance(v, tuple) and v[0] == "opt":
            return 0 if v[1] is None else 1
        if isinstance(v, tuple) and v[0] == "ord":
            return ORD[v[1]] % 256
        raise _CalcUnknown("discriminant of %r" % (v,))
    if k == "agg":
        nm = o[1].rsplit("::", 1)[-1]
        if nm == "Some":
            v = _calc_eval(o[2][0], env)
            return ("opt", v[1]) if isinstance(v, tuple) and v[0] == "ord" else ("optv", v)
        if nm == "None":
            return ("opt", None)
        if nm in ORD:
            return ("ord", nm)
        raise _CalcUnknown("aggregate %s" % o[1])
    if k == "bin":
        x, y = _calc_eval(o[2], env), _calc_eval(o[3], env)
        if isinstance(x, tuple) and x[0] == "ord":
            x = ORD[x[1]]
        if isinstance(y, tuple) and y[0] == "ord":
            y = ORD[y[1]]
        if isinstance(x, int) and isinstance(y, int):
            if o[1] in ("Eq", "Ne") and (x > 127 or y > 127):
                x, y = x % 256, y % 256
            return {"Eq": x == y, "Ne": x != y, "Lt": x < y, "Le": x <= y, "Gt": x > y, "Ge": x >= y}[o[1]]
        raise _CalcUnknown("operator %s" % o[1])
    if k == "un" and o[1] == "Not":
        return not _calc_eval(o[2], env)
    if k == "call":
        nm = o[1]
        sn = nm.rsplit("::", 1)[-1]
        is_pop = lambda x: isinstance(x, tuple) and ((x[0] in ("try", "unwrap", "ok") and is_pop(x[1])) or (x[0] == "call" and x[1].endswith("call_mut")))
        def is_cnt(x):
            # Num::from_num(<the count parameter, possibly cast>)
            if not (isinstance(x, tuple) and x[0] == "call" and x[1].endswith("Num::from_num") and len(x[2]) == 1):
                return False
            a = x[2][0]
            while isinstance(a, tuple) and a[0] in ("cast", "ref", "deref", "clone"):
                a = a[-1]
            return a == ("arg", 2)
        if sn in ("partial_cmp", "lt", "le", "gt", "ge", "eq", "ne") and len(o[2]) == 2:
            l, r = o[2]
            while isinstance(l, tuple) and l[0] in ("ref", "deref", "clone"):
                l = l[-1]
            while isinstance(r, tuple) and r[0] in ("ref", "deref", "clone"):
                r = r[-1]
            flip = False
            if is_cnt(l) and is_pop(r):
                l, r, flip = r, l, True
            if is_pop(l) and is_cnt(r):
                c = env["cmp"]
                if flip and c in ("Less", "Greater"):
                    c = "Greater" if c == "Less" else "Less"
                if sn == "partial_cmp":
                    return ("opt", c)
                return {"lt": c == "Less", "le": c in ("Less", "Equal"), "gt": c == "Greater", "ge": c in ("Greater", "Equal"), "eq": c == "Equal", "ne": c != "Equal"}[sn]
            if sn in ("eq", "ne"):
                x, y = _calc_eval(o[2][0], env), _calc_eval(o[2][1], env)
                return (x == y) if sn == "eq" else (x != y)
        if sn in ("is_lt", "is_le", "is_gt", "is_ge", "is_eq", "is_ne") and len(o[2]) == 1:
            v = _calc_eval(o[2][0], env)
            if isinstance(v, tuple) and v[0] == "ord":
                c = ORD[v[1]]
                return {"is_lt": c < 0, "is_le": c <= 0, "is_gt": c > 0, "is_ge": c >= 0, "is_eq": c == 0, "is_ne": c != 0}[sn]
        if sn in ("is_some", "is_none") and len(o[2]) == 1:
            v = _calc_eval(o[2][0], env)
            if isinstance(v, tuple) and v[0] == "opt":
                return (v[1] is not None) == (sn == "is_some")
        raise _CalcUnknown("call of %s" % nm)
    raise _CalcUnknown("origin %s" % k)


def rule_calc(ctx, R):
    """area::calc as a decision table: one step of the descent, for every kind of node and every outcome of the
    comparison (finite-domain evaluation of the branch conditions along path-precise origins)"""
    from .paths import acyclic_paths, PathOriginsOv, simplify
    fb = ctx.fb
    body = fb.bodies.get(CALC)
    if not R.anchor(body is not None, "calc", "area::calc"):
        return
    R.analyse(body.name)
    r = calc_events(body, fb)
    if not R.anchor(r is not None, "calc:loopvar", "the tree cursor of area::calc"):
        return
    ev, loopvar = r
    cfg = normal_cfg(body)
    heads = sorted({h for (_, h) in cfg.back_edges()})
    if not R.anchor(len(heads) == 1, "calc:loop", "the descent loop of area::calc"):
        return
    head = heads[0]
    ov = {loopvar: ("role", "NODE")}
    paths = []
    for s_ in cfg.succ[head] if body.blocks[head]["term"]["k"] != "switch" else [head]:
        pass
    # one step: from the loop head back to the loop head, or to a return
    steps = []
    loops_back = set()
    for p in acyclic_paths(cfg, head, cfg.returns, 4000):
        steps.append(p)
    for (src, h) in cfg.back_edges():
        # paths head -> src; the back edge follows (the head is not appended: the path-precise origins key
        # positions by block)
        for p in acyclic_paths(cfg, head, [src], 4000):
            if head not in p[1:]:
                steps.append(p)
                loops_back.add(tuple(p))
    R.floor("calc_step_paths", len(steps), 6, "paths of one descent step")
    table, problems = {}, []
    domain = [("Nil", None, None)] + [("Val", t, c) for t in (0, 1, 2, 13) for c in (None, "Less", "Equal", "Greater")]
    for kind, ty, c in domain:
        env = {"kind": kind, "type": ty, "cmp": c, "fb": fb}
        rows = set()
        for p in steps:
            org = PathOriginsOv(body, fb, p, overrides=ov)
            roles = Roles(body, fb, param_roles={1: "ROOT", 2: "COUNT", 3: "POPFN"}, org=org)
            feasible = True
            try:
                for i, bi in enumerate(p[:-1]):
                    t = body.blocks[bi]["term"]
                    if t["k"] != "switch" or "desugar:QuestionMark" in t["span"]["exp"]:
                        if t["k"] == "switch":
                            # `?` on the popped value: the error edge is not part of the table
                            nxt_ok = [bb for v_, bb in t["arms"] if v_ == "0"]
                            if nxt_ok and p[i + 1] != nxt_ok[0]:
                                feasible = False
                                break
                        continue
                    v = _calc_eval(simplify(org.of_operand(t["x"], bi, "t")), env)
                    v = int(v) if isinstance(v, bool) else v
                    if not isinstance(v, int):
                        raise _CalcUnknown("branch on %r" % (v,))
                    taken = None
                    for a_, bb in t["arms"]:
                        if int(a_) == v:
                            taken = bb
                    if taken is None:
                        taken = t["otherwise"]
                    if taken != p[i + 1]:
                        feasible = False
                        break
                if not feasible:
                    continue
                pops = sum(1 for bi in p if body.blocks[bi]["term"]["k"] == "call" and callee_name(body.blocks[bi]["term"]["f"], fb).endswith("call_mut"))
                if tuple(p) in loops_back:
                    # where the cursor goes: its last assignment on the path
                    nxt = None
                    for bi in p:
                        for si, st in enumerate(body.blocks[bi]["stmts"]):
                            if st["k"] == "assign" and not st["p"]["proj"] and st["p"]["l"] == loopvar:
                                o = org.of_rvalue(st["r"], bi, si)
                                while o[0] == "field" and o[1] in ("0", "pointer"):
                                    o = o[2]
                                nxt = roles.of_origin(o)
                    rows.add((pops, "GOTO(%s)" % nxt))
                else:
                    rows.add((pops, "RET(%s)" % roles.of_origin(org.of_place({"l": 0, "proj": []}, p[-1], "t"))))
            except _CalcUnknown as e:
                problems.append("%s/%s/%s: %s" % (kind, ty, c, e))
        table[(kind, ty, c)] = rows
    want = {("Nil", None, None): {(0, "RET(Result::Ok{K0})")}}
    for c in (None, "Less", "Equal", "Greater"):
        want[("Val", 0, c)] = {(1, "GOTO(NODE@Val.left)" if c == "Less" else "GOTO(NODE@Val.right)")}
        want[("Val", 1, c)] = {(1, "GOTO(NODE@Val.left)" if c == "Equal" else "GOTO(NODE@Val.right)")}
        for t in (2, 13):
            want[("Val", t, c)] = {(0, "RET(Result::Ok{NODE@Val.type_})")}
    bad = {str(k): sorted(v) for k, v in table.items() if v != want[k]}
    R.check(not problems and not bad, "calc:table", "area::calc, one step: Nil -> 0; a leaf -> its type; `?` pops once and goes left exactly when the popped value compares Less than the count; `!` pops once and goes left exactly when it compares Equal; an unordered (NaN) comparison goes right", body.span, {"differs": bad, "undecided": problems[:4]})


def rule_push(ctx, R):
    fb = ctx.fb
    body = fb.bodies.get(PUSH_WRAP)
    if not R.anchor(body is not None, "push_stack_wrap", "execute::push_stack_wrap"):
        return
    R.analyse(body.name)
    cfg = normal_cfg(body)
    ev = Events(body, fb)
    d = language(body, fb, cfg, 0, cfg.returns, ev, stop_at_exit=False)

    def stream(w):
        fmt = "Arguments::new(Kb'\\xc0\\x00',array{Argument::new_display(%s)})"
        return Alt(
            Seq("BR[Num::is_pos(VALUE)]=1", "ext::num_to_unicode(VALUE)", "Write::write_fmt(%s,%s)" % (w, fmt % "TRY(ext::num_to_unicode(VALUE))")),
            Seq("BR[Num::is_pos(VALUE)]=0", "Write::write_fmt(%s,%s)" % (w, fmt % "NEG(VALUE)")),
        )

    spec = Seq(Alt(Seq("SW[LOC]=1", stream("OUT")), Seq("SW[LOC]=2", stream("ERR")), Seq("SW[LOC]!=1|2", "PUSHSTATE(LOC,VALUE)")), "RET(Result::Ok{tuple{}})")
    check_lang(R, "push_stack_wrap:language", "push to stack i (1 -> stdout, 2 -> stderr: non-negative as code point, otherwise the negated number; other -> the stack)", d, spec, body.span)


def rule_pop(ctx, R):
    fb = ctx.fb
    body = fb.bodies.get(POP_WRAP)
    if not R.anchor(body is not None, "pop_stack_wrap", "execute::pop_stack_wrap"):
        return
    R.analyse(body.name)
    cfg = normal_cfg(body)
    ev = Events(body, fb)
    # (1) the returning paths: stack 0 (refill then pop) and the ordinary stacks
    d = language(body, fb, cfg, 0, cfg.returns, ev, stop_at_exit=False)
    line = "TRY(io::read_line_from(IN))"
    def pop_spec(idx0):
        # inside the arm for stack 0 the index may be written as the constant or as the (equal) parameter
        return Alt(
            Seq(
                "SW[LOC]=0",
                "State::get_stack(STATE,%s)" % idx0,
                Alt(
                    Seq("BR[Vec::is_empty(State::get_stack(STATE,%s))]=0" % idx0),
                    Seq("BR[Vec::is_empty(State::get_stack(STATE,%s))]=1" % idx0, "io::read_line_from(IN)", "ITER(REV(CHARS(%s)))" % line, Star("PUSHSTATE(%s,NUM(ELEM))" % idx0)),
                ),
                "POPSTATE(%s)" % idx0,
                "RET(Result::Ok{POPPED})",
            ),
            Seq("SW[LOC]!=0|1|2", "POPSTATE(LOC)", "RET(Result::Ok{POPPED})"),
        )

    def pop_spec_tail():
        # refill written as a guarded prefix, one shared pop at the end
        g, p0 = "State::get_stack(STATE,K0)", "POPSTATE(LOC)"
        return Alt(
            Seq("SW[LOC]=0", g, Alt(Seq("BR[Vec::is_empty(%s)]=0" % g), Seq("BR[Vec::is_empty(%s)]=1" % g, "io::read_line_from(IN)", "ITER(REV(CHARS(%s)))" % line, Star("PUSHSTATE(K0,NUM(ELEM))"))), p0, "RET(Result::Ok{POPPED})"),
            Seq("SW[LOC]!=0|1|2", p0, "RET(Result::Ok{POPPED})"),
        )

    check_lang_any(R, "pop_stack_wrap:language", "pop from stack i (0 -> line-wise stdin refill in reverse then pop; 1/2 -> never returns; other -> the stack)", d, [pop_spec("K0"), pop_spec_tail()], body.span)
    # (2) the terminating paths as a decision table over the stack index: which indices reach process::exit, after
    # which flushes, with which status (finite-domain evaluation of the branch conditions per index value along
    # path-precise origins; merged arms such as `1 | 2 => exit(idx - 1)` give the same table)
    from .paths import acyclic_paths, PathOriginsOv, simplify
    from . import evalo
    xs = diverging_exits(body, fb)
    table = {}
    bad = []
    for v in (0, 1, 2, 3, 7):
        env = [(lambda o: o == ("arg", 5), v)]
        rows = set()
        for p in acyclic_paths(cfg, 0, xs, 2000):
            org = PathOriginsOv(body, fb, p)
            roles = Roles(body, fb, org=org)
            feasible = True
            try:
                for i, bi in enumerate(p[:-1]):
                    t = body.blocks[bi]["term"]
                    if t["k"] != "switch":
                        continue
                    c = simplify(org.of_operand(t["x"], bi, "t"))
                    try:
                        val = evalo.ev(c, env, fb, body)
                    except evalo.Unknown:
                        continue  # a condition that does not depend on the index (e.g. emptiness of the stack)
                    taken = None
                    for a_, bb in t["arms"]:
                        if int(a_) == int(val):
                            taken = bb
                    if taken is None:
                        taken = t["otherwise"]
                    if taken != p[i + 1]:
                        feasible = False
                        break
                if not feasible:
                    continue
                seq = []
                for bi in p:
                    t = body.blocks[bi]["term"]
                    if t["k"] == "call":
                        n = callee_name(t["f"], fb)
                        if n == "std::io::Write::flush":
                            seq.append("FLUSH(%s)" % roles.of_operand(t["args"][0], bi))
                        elif n == "std::process::exit":
                            seq.append("EXIT(%s)" % evalo.ev(org.of_operand(t["args"][0], bi, "t"), env, fb, body))
                        elif n.rsplit("::", 1)[-1] not in ("unwrap", "expect", "deref", "deref_mut", "borrow_mut") and not n.startswith("core::fmt") and not n.startswith("core::ops::"):
                            seq.append("CALL(%s)" % n.rsplit("::", 1)[-1])
                rows.add(tuple(seq))
            except evalo.Unknown as e:
                bad.append("%d: %s" % (v, e))
        table[v] = rows
    want = {0: set(), 1: {("FLUSH(OUT)", "FLUSH(ERR)", "EXIT(0)"), ("FLUSH(ERR)", "FLUSH(OUT)", "EXIT(0)")}, 2: {("FLUSH(OUT)", "FLUSH(ERR)", "EXIT(1)"), ("FLUSH(ERR)", "FLUSH(OUT)", "EXIT(1)")}, 3: set(), 7: set()}
    ok = not bad and all((table[v] <= want[v]) and (bool(table[v]) == bool(want[v])) for v in want)
    R.check(ok, "pop_stack_wrap:exit_table", "popping from stack 1 flushes both streams and exits with status 0, from stack 2 with status 1; no other index terminates the process: %s %s" % ({k: sorted(v_) for k, v_ in table.items()}, bad), body.span)
    if not R.anchor(len(xs) >= 1, "pop_stack_wrap:exits", "process::exit call(s) in pop_stack_wrap"):
        return
    # must-pass-through restated as cut queries (reported separately because C11/C12 rely on it)
    for bi, t in body.calls():
        if callee_name(t["f"], fb) == "std::process::exit":
            fl = [(b2, t2) for b2, t2 in body.calls() if callee_name(t2["f"], fb) == "std::io::Write::flush"]
            roles = Roles(body, fb)
            for w in ("OUT", "ERR"):
                blocks = [b2 for b2, t2 in fl if roles.of_operand(t2["args"][0], b2) == w]
                ok = bool(blocks) and not reaches_without(cfg, [0], bi, cut_blocks=blocks)
                R.check(ok, "pop_stack_wrap:flush_%s_before_exit@%s" % (w, roles.of_operand(t["args"][0], bi)), "every path to process::exit(%s) flushes the %s writer first" % (roles.of_operand(t["args"][0], bi), w), t["span"]["at"])


def rule_nan(ctx, R):
    fb = ctx.fb
    G = "State::get_stack(ARG1,LOC)"
    push_spec = Seq(
        G,
        Alt(Seq("BR[Vec::is_empty(%s)]=0" % G, "COLLECT(%s,VALUE)" % G), Seq("BR[Vec::is_empty(%s)]=1" % G, Alt(Seq("BR[Num::is_nan(VALUE)]=0", "COLLECT(%s,VALUE)" % G), Seq("BR[Num::is_nan(VALUE)]=1")))),
        "RET(K'()')",
    )
    P = "Vec::pop(%s)" % G
    pop_spec = Seq(G, P, Alt(Seq("SW[DISCR(%s)]=1" % P, "RET(SOME(%s))" % P), Seq("SW[DISCR(%s)]=0" % P, "RET(NAN)")))
    pop_specs = [pop_spec, Seq(G, P, "Option::unwrap_or_else(%s,FN:Num::nan)" % P, "RET(Option::unwrap_or_else(%s,FN:Num::nan))" % P), Seq(G, P, "Option::unwrap_or(%s,NAN)" % P, "RET(Option::unwrap_or(%s,NAN))" % P)]
    for name, spec, what in (
        (S + "push_stack", [push_spec], "default State::push_stack (NaN is never stored on an empty stack)"),
        (S + "pop_stack", pop_specs, "default State::pop_stack (empty pop yields NaN)"),
    ):
        b = fb.bodies.get(name)
        if not R.anchor(b is not None, name, what):
            continue
        R.analyse(name)
        cfg = normal_cfg(b)
        d = language(b, fb, cfg, 0, cfg.returns, Events(b, fb), stop_at_exit=False)
        check_lang_any(R, name + ":language", what, d, spec, b.span)
    # vector-backed state: same rule behind a bounds test
    L = "LT[LOC,Vec::len(ARG1.stack)]"
    I = "Index::index(ARG1.stack,LOC)"
    opush = Alt(
        Seq(L + "=0", "RET(K'()')"),
        Seq(
            L + "=1",
            I,
            Alt(Seq("BR[Vec::is_empty(%s)]=0" % I, G, "COLLECT(%s,VALUE)" % G), Seq("BR[Vec::is_empty(%s)]=1" % I, Alt(Seq("BR[Num::is_nan(VALUE)]=0", G, "COLLECT(%s,VALUE)" % G), Seq("BR[Num::is_nan(VALUE)]=1")))),
            "RET(K'()')",
        ),
    )
    opop = Alt(Seq(L + "=0", "RET(NAN)"), Seq(L + "=1", G, P, Alt(Seq("SW[DISCR(%s)]=1" % P, "RET(SOME(%s))" % P), Seq("SW[DISCR(%s)]=0" % P, "RET(NAN)"))))
    # the same with the library's spelling of "the popped value, or NaN when there was none"
    opops = [opop] + [Alt(Seq(L + "=0", "RET(NAN)"), Seq(L + "=1", G, P, u % P, "RET(%s)" % (u % P))) for u in ("Option::unwrap_or_else(%s,FN:Num::nan)", "Option::unwrap_or(%s,NAN)")]
    for name, spec, what in (
        ("<core::state::OptState as hyeong::core::state::State>::push_stack", opush, "OptState::push_stack (bounds test, then the NaN rule)"),
        ("<core::state::OptState as hyeong::core::state::State>::pop_stack", opops, "OptState::pop_stack (out of range or empty yields NaN)"),
    ):
        b = fb.bodies.get(name)
        if not R.anchor(b is not None, name, what):
            continue
        R.analyse(name)
        cfg = normal_cfg(b)
        d = language(b, fb, cfg, 0, cfg.returns, Events(b, fb), stop_at_exit=False)
        check_lang_any(R, name + ":language", what, d, spec if isinstance(spec, list) else [spec], b.span)
    # UnOptState must not override the defaults with something else
    for m in ("push_stack", "pop_stack"):
        n = "<core::state::UnOptState as hyeong::core::state::State>::" + m
        R.check(n not in fb.bodies, n, "UnOptState uses the default %s" % m)


def rule_loop(ctx, R):
    """execute(): runs from the newly appended command until control passes it"""
    fb = ctx.fb
    b = fb.bodies.get("hyeong::core::execute::execute")
    if not R.anchor(b is not None, "execute", "execute::execute"):
        return
    R.analyse(b.name)
    cfg = normal_cfg(b)
    vars_ = Vars(b)
    # the position variable: the usize local fed to execute_one as position
    steps = [(bi, t) for bi, t in b.calls() if callee_name(t["f"], fb) == EXEC_ONE]
    if not R.anchor(len(steps) == 1, "execute:step", "the single execute_one step of execute()"):
        return
    sb, st = steps[0]
    pos = vars_.root_key(st["args"][4])
    if not R.anchor(pos is not None and pos[0] == "L", "execute:pos", "position variable of execute()"):
        return
    roles = Roles(b, fb)
    ev = Events(b, fb, roles=roles)
    # the step is inside a loop, and the loop is left exactly when POS passed the appended command
    loops = {}
    for be in cfg.back_edges():
        loops.setdefault(be[1], set()).update(cfg.natural_loop(be))
    loop = [bl for h, bl in loops.items() if sb in bl]
    if not R.anchor(len(loop) == 1, "execute:loop", "the stepping loop of execute()"):
        return
    loop = loop[0]
    exit_labels = set()
    stay_labels = set()
    for x in loop:
        t = b.blocks[x]["term"]
        if t["k"] != "switch":
            continue
        for s2 in cfg.succ[x]:
            lab = ev.generic_edge(x, t, s2)
            if lab and "PUSHCODE" in lab and lab.startswith("LT["):
                from .gea import _split_top
                a, b_ = _split_top(lab[3:lab.rindex("]")])
                norm = lambda x: "POS" if ("PHI(" in x and "PUSHCODE" in x) else x
                lab = "LT[%s,%s]%s" % (norm(a), norm(b_), lab[lab.rindex("]") + 1:])
                (exit_labels if s2 not in loop else stay_labels).add(lab)
    ok_forms = (
        ({"LT[POS,(PUSHCODE Add K1)]=0"}, {"LT[POS,(PUSHCODE Add K1)]=1"}),
        ({"LT[PUSHCODE,POS]=1"}, {"LT[PUSHCODE,POS]=0"}),
    )
    R.check((exit_labels, stay_labels) in ok_forms, "execute:bound", "the loop is left exactly when the position is past the appended command (exit on %s, continue on %s)" % (sorted(exit_labels), sorted(stay_labels)), b.blocks[sb]["term"]["span"]["at"])
    # ... and by nothing else: no other edge leaves the loop (an error of the step aside), and inside the loop nothing
    # but the bound decides (a further test - "jumped to itself", "too many steps" - would stop a program that the
    # language lets run on)
    other_exits = []
    other_tests = []
    for x in sorted(loop):
        t = b.blocks[x]["term"]
        for s2 in cfg.succ[x]:
            if s2 not in loop:
                lab = ev.generic_edge(x, t, s2) if t["k"] == "switch" else None
                if not (lab and "PUSHCODE" in lab and lab.startswith("LT[")):
                    other_exits.append(t["span"]["at"])
        if t["k"] == "switch":
            labs = [ev.generic_edge(x, t, s2) for s2 in cfg.succ[x]]
            if any(l and not ("PUSHCODE" in l and l.startswith("LT[")) for l in labs):
                other_tests.append(([l[:50] for l in labs if l], t["span"]["at"]))
    R.check(not other_exits and not other_tests, "execute:only_bound", "nothing but the position bound ends or steers the stepping loop (other exits %s, other tests %s)" % (other_exits, other_tests), b.blocks[sb]["term"]["span"]["at"])
    # starts at the appended command; position and state are written back from the step's result
    org = Origins(b, fb)
    inits = []
    for d in vars_.defs.get(pos[1], []):
        o = org._site(pos[1], (d[1], d[2], d[0], d[3]), 0, ())
        inits.append(Roles(b, fb).of_origin(o))
    R.check("PUSHCODE" in inits and any("execute::execute_one" in x and x.endswith(".1") for x in inits), "execute:start_and_step", "execution starts at the appended command and continues at the position each step returns: %s" % [x[:50] for x in inits], b.blocks[sb]["term"]["span"]["at"])
    rs = [Roles(b, fb).of_operand(a, sb) for a in st["args"]]
    R.check(rs[:3] == ["IN", "OUT", "ERR"], "execute:streams", "execute() passes its input/output/error handles through unchanged: %s" % rs[:3], st["span"]["at"])


RULES = [
    ("C01.ARM", "six command arms of execute_one equal the language table", rule_arms),
    ("C01.JUMP", "area evaluation, label and ♡ rules of execute_one; pop closure reads the stack selected after the command", rule_area_jump),
    ("C01.CALC", "area::calc branch selection", rule_calc),
    ("C01.PUSH", "push_stack_wrap: I/O stacks 1/2", rule_push),
    ("C01.POP", "pop_stack_wrap: stdin refill, flush before exit, exit codes", rule_pop),
    ("C01.NAN", "NaN rules of the stack cell (default and vector-backed state)", rule_nan),
    ("C01.LOOP", "execute(): run from the appended command until control passes it", rule_loop),
]


def rule_cmp(ctx, R):
    from . import p_c07
    return p_c07.rule_cross(ctx, R)


RULES.append(("C01.CMP", "the comparison a ? / ! area branches on: NaN unordered, equality, cross-multiplication orientation (shared with C07)", rule_cmp))


def rule_num(ctx, R):
    from . import p_c06
    return p_c06.rule_arith(ctx, R)


RULES.append(("C01.NUM", "the rational operations the commands are defined by (add, mul, flip, minus, floor for character output, is_pos, is_nan) have their defining shape (shared with C06.ARITH)", rule_num))


def rule_init(ctx, R):
    """the initial state of a program: no stacks, no commands, no labels, stack 3 selected, no jump source"""
    fb = ctx.fb
    want = {
        "core::state::UnOptState::new": "UnOptState::UnOptState{HashMap::new(),VEC,HashMap::new(),K3,Option::None{}}",
        "core::state::OptState::new": "OptState::OptState{vec::from_elem(VEC,SIZE),VEC,HashMap::new(),K3,Option::None{}}",
    }
    for n, w in want.items():
        b = fb.bodies.get(n)
        if not R.anchor(b is not None, n, n):
            continue
        R.analyse(n)
        roles = Roles(b, fb, param_roles={1: "SIZE"})
        cfg = normal_cfg(b)
        got = sorted({roles.of_origin(roles.org.of_place({"l": 0, "proj": []}, r_, "t")) for r_ in cfg.returns})
        R.check(got == [w], "init:%s" % n.rsplit("::", 2)[-2], "a new state has empty stacks (as many as asked for, for the vector-backed state), an empty command log, an empty label table, stack 3 selected and no jump source: %s" % got, b.span)


RULES.append(("C01.INIT", "the initial state: empty stacks, command log and label table; stack 3 selected; no pending jump source", rule_init))


def collects_all(b, fb, src, elems):
    """None when the body returns a vector holding one element (one of `elems`, as roles) per item of the iterated
    `src` (a role): a single loop over src with exactly one push that no iteration can bypass, or a collect()
    of a map over src.  Otherwise the reason."""
    cfg = normal_cfg(b)
    roles = Roles(b, fb, param_roles={i: "P%d" % i for i in range(1, b.argc + 1)})
    rets = sorted({roles.of_origin(roles.org.of_place({"l": 0, "proj": []}, r_, "t")) for r_ in cfg.returns})
    bes = cfg.back_edges()
    if not bes:
        ok = len(rets) == 1 and rets[0].startswith("Iterator::collect(") and src in rets[0]
        return None if ok else "no loop and not a collect over %s: %s" % (src, rets)
    if len({h for _, h in bes}) != 1:
        return "more than one loop"
    head = bes[0][1]
    loop = set().union(*[cfg.natural_loop(be) for be in bes])
    its = [roles.of_operand(t["args"][0], bi) for bi, t in b.calls() if callee_name(t["f"], fb) == "core::iter::traits::collect::IntoIterator::into_iter"]
    if its != [src]:
        return "the loop iterates %s, not %s" % (its, src)
    pushes = [(bi, roles.of_operand(t["args"][0], bi), roles.of_operand(t["args"][1], bi)) for bi, t in b.calls() if callee_name(t["f"], fb) == "std::vec::Vec::push"]
    if len(pushes) != 1 or pushes[0][0] not in loop or pushes[0][2] not in elems:
        return "expected one push of %s inside the loop, found %s" % (elems, [p[2] for p in pushes])
    # the element edge of the loop: successor of the discriminant switch that stays in the loop
    sw = [bi for bi in loop if b.blocks[bi]["term"]["k"] == "switch"]
    stay = [sx for bi in sw for sx in cfg.succ[bi] if sx in loop]
    outside = [x for x in range(len(b.blocks)) if x not in loop]
    if reaches_without(cfg, stay, [head], cut_blocks=[pushes[0][0]] + outside):
        return "an iteration can reach the next one without the push"
    if len(rets) != 1 or not (rets[0].startswith("Vec::with_capacity(") or rets[0] == "Vec::new()" or rets[0] == "VEC"):
        return "returns %s" % rets
    return None


def rule_stateapi(ctx, R):
    """the small accessors both state representations implement: each reads or writes exactly the field it is named
    after (a label is stored at the location it was given, the jump source is overwritten by every jump, the
    selected stack is what was selected, a command is logged at the end and its index returned, ...)"""
    from . import p_c06
    fb = ctx.fb
    A = {
        "current_stack": [["RET(P1.cur)"]],
        "set_current_stack": [["SET(P1.cur,P2)", "RET(K'()')"]],
        "get_latest_loc": [["RET(P1.latest)"]],
        "set_latest_loc": [["SET(P1.latest,Option::Some{P2})", "RET(K'()')"]],
        "get_point": [["HashMap::get(P1.point,P2)", "Option::copied(HashMap::get(P1.point,P2))", "RET(Option::copied(HashMap::get(P1.point,P2)))"], ["HashMap::get(P1.point,P2)", "Option::cloned(HashMap::get(P1.point,P2))", "RET(Option::cloned(HashMap::get(P1.point,P2)))"]],
        "set_point": [["HashMap::insert(P1.point,P2,P3)", "RET(K'()')"]],
        # the index of the appended command: length after the push minus one, or the length read before the push
        "push_code": [["COLLECT(P1.code,P2)", "Vec::len(P1.code)", "RET((Vec::len(P1.code) Sub K1))"], ["Vec::len(P1.code)", "COLLECT(P1.code,P2)", "RET(Vec::len(P1.code))"]],
        "get_code": [["Index::index(P1.code,P2)", "RET(Index::index(P1.code,P2))"]],
        "stack_size": [["Vec::len(P1.stack)", "RET(Vec::len(P1.stack))"], ["HashMap::len(P1.stack)", "RET(HashMap::len(P1.stack))"]],
        "get_all_code": [["Clone::clone(P1.code)", "RET(Clone::clone(P1.code))"]],
    }
    # all stacks of the vector-backed state: indices 0 .. len
    nm_ = "<core::state::OptState as hyeong::core::state::State>::get_all_stack_index"
    if nm_ in fb.bodies:
        b_, d_ = p_c06.fn_lang(fb, nm_, epsilon=set(), set_events=True)
        try:
            ws_ = d_.enumerate_all(limit=20)
        except RuntimeError:
            ws_ = []
        R.check(len(ws_) == 1 and ws_[0][-1] == "RET(Iterator::collect(Range::Range{K0,Vec::len(P1.stack)}))", "stateapi:OptState:get_all_stack_index", "the stack indices of the vector-backed state are 0 .. number of stacks (all of them): %s" % [w[-1] for w in ws_], b_.span)
    # the accessors that hand out everything there is: one unconditional push per element of the map (or a collect)
    ALL = {
        ("UnOptState", "get_all_stack_index"): ("HashMap::keys(P1.stack)", ("ELEM<HashMap::keys(P1.stack)>",)),
        ("UnOptState", "get_all_point"): ("P1.point", ("tuple{ELEM<P1.point>.0,ELEM<P1.point>.1}",)),
        ("OptState", "get_all_point"): ("P1.point", ("tuple{ELEM<P1.point>.0,ELEM<P1.point>.1}",)),
    }
    for (impl, meth), (src, elems) in ALL.items():
        name = "<core::state::%s as hyeong::core::state::State>::%s" % (impl, meth)
        b = fb.bodies.get(name)
        if not R.anchor(b is not None, "%s:%s" % (impl, meth), name):
            continue
        R.analyse(name)
        why = collects_all(b, fb, src, elems)
        R.check(why is None, "stateapi:%s:%s" % (impl, meth), "%s::%s returns every entry of the map, once each%s" % (impl, meth, "" if why is None else ": " + why), b.span)
    n = 0
    for impl in ("UnOptState", "OptState"):
        for meth, accepted in A.items():
            name = "<core::state::%s as hyeong::core::state::State>::%s" % (impl, meth)
            if name not in fb.bodies:
                continue
            b, d = p_c06.fn_lang(fb, name, epsilon=set(), set_events=True)
            R.analyse(name)
            try:
                words = sorted(d.enumerate_all(limit=20))
            except RuntimeError:
                words = None
            n += 1
            R.check(words is not None and len(words) == 1 and words[0] in accepted, "stateapi:%s:%s" % (impl, meth), "%s::%s does exactly what its name says: %s" % (impl, meth, words), b.span)
    R.floor("state_accessors", n, 16, "accessors of the two state representations")


RULES.append(("C01.STATEAPI", "the accessors of both state representations (selected stack, jump source, label table, command log) read and write exactly their field", rule_stateapi))


def _shared(mod, fn):
    def run(ctx, R):
        import importlib
        return getattr(importlib.import_module("rules." + mod), fn)(ctx, R)
    return run


RULES.append(("C01.MEMREADER", "the in-memory reader programs are fed through in library use (shared with C14.MEMREADER)", _shared("p_c14", "rule_memreader")))
RULES.append(("C01.DIAG", "an abnormal stop is reported: message unconditionally, note when present, on standard error (shared with C13.DIAG)", _shared("p_c13", "rule_diag")))
RULES.append(("C01.REEMIT", "`run` re-emits output computed before the program starts to the stream it was written to (shared with C02.REEMIT)", _shared("p_c02", "rule_reemit")))
RULES.append(("C01.UNICODE", "the output conversion and its diagnosis (shared with C13.UNICODE)", _shared("p_c13", "rule_unicode")))


def rule_run(ctx, R):
    """`hyeong run` hands every command of the program, in order, to execute(): the level-0 branch feeds the parsed
    list, the optimised branch feeds the list optimize() returned; the state is threaded; streams are the real ones"""
    from .util import dominating_edge_labels
    fb = ctx.fb
    b = fb.bodies.get("hyeong::app::run::run")
    if not R.anchor(b is not None, "run", "app::run::run"):
        return
    R.analyse(b.name)
    cfg = normal_cfg(b)
    roles = Roles(b, fb, param_roles={1: "STDOUT", 2: "STDERR", 3: "OPT"})
    ev = Events(b, fb, roles=roles)
    PARSED = "TRY(ext::parse_file(STDOUT,UNWRAP(Option::as_ref(OPT.input)),OPT))"
    OPTD = "TRY(optimize::optimize(%s,OPT.optimize))" % PARSED
    want = {
        "level0": (("LT[OPT.optimize,K1]=1", "EQ[K0,OPT.optimize]=1", "LT[K0,OPT.optimize]=0"), "ELEM<%s>" % PARSED, "UnOptState::new()"),
        "optimised": (("LT[OPT.optimize,K1]=0", "EQ[K0,OPT.optimize]=0", "LT[K0,OPT.optimize]=1"), "ELEM<%s.1>" % OPTD, "%s.0" % OPTD),
    }
    execs = [(bi, t) for bi, t in b.calls() if callee_name(t["f"], fb) == "hyeong::core::execute::execute"]
    R.floor("execute_calls", len(execs), 2, "calls of execute() in run() (one per branch)")
    seen = set()
    for bi, t in execs:
        labs = dominating_edge_labels(cfg, b, ev, bi)
        a = [roles.of_operand(x, bi) for x in t["args"]]
        for nm, (lab, code, init) in want.items():
            if not any(l in labs for l in lab):
                continue
            seen.add(nm)
            loops_ = [(be, cfg.natural_loop(be)) for be in cfg.back_edges() if bi in cfg.natural_loop(be)]
            every = bool(loops_) and all(not reaches_without(cfg, [sx for sx in cfg.succ[be[1]] if sx in lp], [be[0]], cut_blocks=[bi] + [x for x in range(len(b.blocks)) if x not in lp]) or be[0] == bi for be, lp in loops_)
            threaded = a[3].startswith("PHI(TRY(execute::execute(stdio::stdin(),STDOUT,STDERR,LOOPVAR,") and a[3].endswith("|%s)" % init)
            R.check(a[0] == "stdio::stdin()" and a[1] == "STDOUT" and a[2] == "STDERR" and a[4] == code and threaded and every, "run:executes:%s" % nm, "the %s branch of run() executes every command of its list, in order, on the real streams, each on the state the previous one left (streams %s, command %s, threaded %s, every iteration %s)" % (nm, a[:3], a[4][:60], threaded, every), t["span"]["at"])
    for nm in want:
        if nm not in seen:
            R.check(False, "run:executes:%s" % nm, "the %s branch of run() executes the program (no call of execute() found behind the branch)" % nm, b.span)


RULES.append(("C01.RUN", "`hyeong run` executes every command of the program in order, threading the state (both branches)", rule_run))


def rule_codeapi(ctx, R):
    """the command record: every getter returns the field it is named after (the area count of an unoptimised command
    is syllables x dots), and the constructors store each argument in the field of the same name.  All the rules that
    speak of KIND / HANGUL / DOT / AREACOUNT / AREA take these getters as the meaning of the words."""
    from . import p_c06
    fb = ctx.fb
    G = {
        "get_type": {"RET(P1.type_)"}, "get_hangul_count": {"RET(P1.hangul_count)"}, "get_dot_count": {"RET(P1.dot_count)"},
        "get_area": {"RET(P1.area)"},
    }
    AC = {"UnOptCode": {"RET((P1.dot_count Mul P1.hangul_count))", "RET((P1.hangul_count Mul P1.dot_count))"}, "OptCode": {"RET(P1.area_count)"}}
    n = 0
    fields = {}
    for impl in ("UnOptCode", "OptCode"):
        for meth, want in list(G.items()) + [("get_area_count", AC[impl])]:
            name = "<core::code::%s as hyeong::core::code::Code>::%s" % (impl, meth)
            if not R.anchor(name in fb.bodies, "codeapi:%s:%s" % (impl, meth), name):
                continue
            b, d = p_c06.fn_lang(fb, name, epsilon=set(), set_events=True)
            R.analyse(name)
            try:
                words = d.enumerate_all(limit=20)
            except RuntimeError:
                words = None
            n += 1
            R.check(words is not None and len(words) == 1 and len(words[0]) == 1 and words[0][0] in want, "codeapi:%s:%s" % (impl, meth), "%s::%s returns %s: %s" % (impl, meth, sorted(want)[0][4:-1], words), b.span)
            # field index of the name, for the constructor check
            for blk in b.blocks:
                for st in blk["stmts"]:
                    for pl in ([st["r"].get("p")] if st.get("k") == "assign" and isinstance(st.get("r"), dict) else []) + ([st["r"]["x"].get("p")] if st.get("k") == "assign" and isinstance(st.get("r"), dict) and isinstance(st["r"].get("x"), dict) else []):
                        if isinstance(pl, dict):
                            for e in pl.get("proj", []):
                                if isinstance(e, dict) and "f" in e and "n" in e:
                                    fields.setdefault(impl, {})[e["n"]] = int(e["f"])
    for nm, want in (("get_location", {"RET(P1.loc)"}), ("get_raw", {"RET(Clone::clone(P1.code))"})):
        name = "core::code::UnOptCode::" + nm
        if R.anchor(name in fb.bodies, "codeapi:UnOptCode:" + nm, name):
            b, d = p_c06.fn_lang(fb, name, epsilon=set(), set_events=True)
            R.analyse(name)
            try:
                words = d.enumerate_all(limit=20)
            except RuntimeError:
                words = None
            n += 1
            R.check(words is not None and len(words) == 1 and words[0][-1] in want, "codeapi:UnOptCode:" + nm, "UnOptCode::%s returns the command's %s: %s" % (nm, "location" if nm == "get_location" else "own source text", words), b.span)
    # constructors: argument k is stored in the field with the k-th name
    CT = {"UnOptCode": ["type_", "hangul_count", "dot_count", "loc", "area", "code"], "OptCode": ["type_", "hangul_count", "dot_count", "area_count", "area"]}
    for impl, names in CT.items():
        name = "core::code::%s::new" % impl
        b = fb.bodies.get(name)
        if not R.anchor(b is not None, "codeapi:%s:new" % impl, name):
            continue
        R.analyse(name)
        roles = Roles(b, fb, param_roles={i: "P%d" % i for i in range(1, b.argc + 1)})
        aggs = [(st, bi, si) for bi, blk in enumerate(b.blocks) if not blk["cleanup"] for si, st in enumerate(blk["stmts"]) if st["k"] == "assign" and st["r"]["k"] == "agg" and str(st["r"].get("adt", "")).endswith(impl)]
        ok, why = False, "aggregates %d" % len(aggs)
        if len(aggs) == 1:
            st, bi, si = aggs[0]
            got = [roles.of_operand(x, bi) for x in st["r"]["fields"]]
            idx = fields.get(impl, {})
            # every getter-visible field sits where its getter reads it, and receives the parameter of the same name
            want_at = {idx[nm]: "P%d" % (k + 1) for k, nm in enumerate(names) if nm in idx}
            ok = len(got) == len(names) and all(got[i] in (p_, "COPY(%s)" % p_) for i, p_ in want_at.items()) and sorted(got) == sorted("P%d" % (k + 1) for k in range(len(names))) and len(want_at) >= 4
            why = "fields %s, getters read %s" % (got, {nm: idx.get(nm) for nm in names})
        n += 1
        R.check(ok, "codeapi:%s:new" % impl, "%s::new stores every argument in the field its getter reads: %s" % (impl, why), b.span)
    R.floor("code_accessors", n, 14, "getters and constructors of the two command records", slack=0.9)


RULES.append(("C01.CODEAPI", "the command record: getters return their own field, area count = syllables x dots, constructors store arguments in the fields of the same name", rule_codeapi))


def rule_streams(ctx, R):
    """which operating-system stream is which: main builds one writer on standard output and one on standard error and
    hands them, in that order, to sub_main; sub_main hands the first to every sub-command as its terminal/standard
    output and the second to `run` as the program's standard error"""
    fb = ctx.fb_all
    mb, sb = fb.bodies.get("hyeong::main"), fb.bodies.get("hyeong::sub_main")
    if not R.anchor(mb is not None and sb is not None, "main_fns", "main and sub_main of the binary"):
        return
    R.analyse(mb.name)
    R.analyse(sb.name)
    mr = Roles(mb, fb)
    calls = [(bi, t) for bi, t in mb.calls() if callee_name(t["f"], fb) == "hyeong::sub_main"]
    if R.anchor(len(calls) == 1, "sub_main_call", "main's call of sub_main"):
        bi, t = calls[0]
        a = [mr.of_operand(x, bi) for x in t["args"][:2]]
        R.check(a[0].startswith("StandardStream::stdout(") and a[1].startswith("StandardStream::stderr("), "streams:main", "main hands sub_main a writer on standard output first and a writer on standard error second: %s" % [x[:24] for x in a], t["span"]["at"])
    sr = Roles(sb, fb, param_roles={1: "STDOUT", 2: "STDERR", 3: "MATCHES", 4: "OPT"})
    want = {"hyeong::app::run::run": ["STDOUT", "STDERR"], "hyeong::app::check::run": ["STDOUT"], "hyeong::app::debug::run": ["STDOUT"], "hyeong::app::interpreter::run": ["STDOUT"], "hyeong::app::build::run": ["STDOUT"]}
    seen = 0
    for bi, t in sb.calls():
        n = callee_name(t["f"], fb)
        if n in want:
            seen += 1
            a = [sr.of_operand(x, bi) for x in t["args"][: len(want[n])]]
            R.check(a == want[n], "streams:sub_main:%s" % n.rsplit("::", 2)[-2], "%s receives the standard-output writer%s: %s" % (n.rsplit("::", 2)[-2], " and then the standard-error writer" if len(want[n]) == 2 else "", a), t["span"]["at"])
    R.floor("subcommands", seen, 5, "sub-commands started from sub_main", slack=1.0)


RULES.append(("C01.STREAMS", "the program's standard output / standard error are the process's: main and sub_main hand the two writers on in the right order", rule_streams))


def _keepnl(ctx, R):
    from . import p_c14
    return dict((r[0], r[2]) for r in p_c14.RULES)["C14.KEEPNL"](ctx, R)


RULES.append(("C01.READLINE", "what a program reads is what standard input holds: the line reader hands every line on unchanged, terminator included (shared with C14.KEEPNL)", _keepnl))





def rule_clones(ctx, R):
    """a copy of a value is the value: `Clone` of the state, the commands, the areas and the numbers is the derived
    field-by-field copy (or a hand-written one that copies every field from the same field of the original).  The
    debugger steps on clones, pre-execution rolls back to a clone, commands and numbers are cloned all over."""
    fb = ctx.fb
    TYPES = ["core::state::UnOptState", "core::state::OptState", "core::code::UnOptCode", "core::code::OptCode", "core::area::Area", "number::num::Num", "number::big_number::BigNum"]
    n = 0
    for ty in TYPES:
        name = "<%s as core::clone::Clone>::clone" % ty
        b = fb.bodies.get(name)
        if not R.anchor(b is not None, "clone:" + ty.rsplit("::", 1)[-1], "impl Clone for %s" % ty):
            continue
        R.analyse(name)
        n += 1
        derived = "macro:Clone" in (b.raw.get("span", {}).get("exp") or [])
        why = "derived"
        ok = derived
        if not derived:
            roles = Roles(b, fb, param_roles={1: "P1"})
            cfg = normal_cfg(b)
            rets = sorted({roles.of_origin(roles.org.of_place({"l": 0, "proj": []}, r_, "t")) for r_ in cfg.returns})
            aggs = [st for blk in b.blocks if not blk["cleanup"] for st in blk["stmts"] if st["k"] == "assign" and st["r"]["k"] == "agg" and st["r"].get("agg") == "adt" and str(st["r"].get("adt", "")).endswith(ty.rsplit("::", 1)[-1])]
            ok = False
            why = "hand-written: %s" % rets
            if len(aggs) == 1 and len(rets) == 1 and not cfg.back_edges():
                names = aggs[0]["r"].get("fields_n", [])
                # every field is the clone / copy of the same field of the original
                parts = rets[0][rets[0].index("{") + 1: rets[0].rindex("}")] if "{" in rets[0] else ""
                want = ["P1.%s" % f for f in names]
                got = []
                depth, cur = 0, ""
                for ch in parts:
                    if ch == "," and depth == 0:
                        got.append(cur)
                        cur = ""
                    else:
                        depth += ch in "({" 
                        depth -= ch in ")}"
                        cur += ch
                if cur:
                    got.append(cur)
                strip = lambda x: x[len("COPY("):-1] if x.startswith("COPY(") and x.endswith(")") else (x[len("Clone::clone("):-1] if x.startswith("Clone::clone(") and x.endswith(")") else x)
                ok = [strip(x) for x in got] == want
                why = "hand-written, fields %s from %s" % (names, [strip(x)[:30] for x in got])
        R.check(ok, "clone:%s:fieldwise" % ty.rsplit("::", 1)[-1], "a clone of %s carries every field of the original (%s)" % (ty.rsplit("::", 1)[-1], why), b.span)
    R.floor("clone_impls", n, 7, "Clone impls of the value types", slack=1.0)


RULES.append(("C01.CLONE", "cloning a state, a command, an area or a number copies every field (derived Clone or an equivalent hand-written one)", rule_clones))


# rules of other properties re-run under this property's name; resolved by rules/main.py once every module can be
# imported (the owners import this module themselves)
DEFERRED_BUNDLES = [
    {'prop': 'C01', 'tag': 'INT', 'module': 'p_c05', 'only': None, 'skip': (), 'why': 'the numbers every command computes with'},
]
