"""C11 — the debugger shows the true state, steps back exactly, never crashes (structural clauses)."""
from .audit import sites, auto_justify
from .cfg import CFG
from .facts import callee_name
from .gea import Seq, Alt
from .interp import Events, normal_cfg, language
from .lang import Roles
from .origin import Origins, show, walk
from .util import Vars, reaches_without
from . import p_c01

TECHNIQUE = 'static analysis: ownership/API rule of the history vector; freshness (no use of a view across a push/pop); must-pass-through and cut queries for breakpoints and flushes; event-language equality of the capturing writer; panic-site audit over everything reachable from debug::run'
LEVEL = "other"
EXPLANATION = (
    'Ownership and pairing rules of the debugger decided on all CFG paths of debug::run: (SNAPSHOT) every step '
    "executes on a clone of the newest history entry at that entry's own position and pushes the result as a new "
    'entry; the history vector is only ever touched through push/pop/last/len, so older snapshots cannot be mutated; '
    '`previous` pops exactly once and only when more than one entry exists; (BP) a breakpoint number entered by the '
    'user is inserted only after it compared below the program length (the listing indexes the program with every '
    'breakpoint); (ONCE) CustomWriter::write appends everything it is given, flush hands the whole buffer to the '
    'print function exactly once and empties it on every path, the debugger flushes both writers after a single step, '
    'when a run stops at a breakpoint and before its normal return, and program-requested exits flush first '
    '(C01.POP); (NOPANIC) every panic-capable site of the debugger and of every crate function reachable from it '
    '(listing, interpreter step, state display) is mechanically discharged or in an audited table; (FRESH) a value '
    'read from the newest history entry is used before the history is pushed or popped again (no stale command index '
    'after `previous`); (BPX) while running, membership of the newest position in the breakpoint set alone decides '
    'between stopping and stepping, and `run` performs one step first; (EOFMARK) the prompt loop leaves on an empty '
    'line, so the stdin reader must return every entered line with its terminator. The equality of displayed and true '
    'state over whole command histories is NOT decided.'
)
ASSUMPTIONS = ["rustc MIR (nightly 1.97, mir-opt-level=0); unwind edges ignored", "execute_one is the interpreter step (C01)", "audited panic sites: justifications in rules/p_c11.py"]
TRUSTED = ["rustc nightly MIR", "/verif/rules A-ORG/A-DOM/A-GEA/A-AUD"]

DEBUG = "hyeong::app::debug::run"
EXEC_ONE = "hyeong::core::execute::execute_one"
HIST_TY = "std::vec::Vec<(core::state::UnOptState, usize)>"
BPS_TY = "std::collections::HashSet<usize>"
CODE_TY = "std::vec::Vec<core::code::UnOptCode>"


def locals_of_type(b, ty):
    return [l for l, d in enumerate(b.locals) if d["ty"] == ty and l in b.local_names()]


class DebugModel:
    def __init__(self, fb):
        self.b = fb.bodies.get(DEBUG)
        self.ok = False
        if self.b is None:
            return
        b = self.b
        h, bp, code = locals_of_type(b, HIST_TY), locals_of_type(b, BPS_TY), locals_of_type(b, CODE_TY)
        self.vars = Vars(b)
        if len(code) > 1:
            # `?` desugaring introduces a second local of the same type: the program is the one whose length is taken
            lens = {self.vars.root_key(t["args"][0]) for bi, t in b.calls() if callee_name(t["f"], fb) == "std::vec::Vec::len"}
            code = [c for c in code if ("L", c) in lens]
        if len(h) != 1 or len(bp) != 1 or len(code) != 1:
            return
        self.hist, self.bps, self.code = h[0], bp[0], code[0]
        self.cfg = normal_cfg(b)
        self.roles = Roles(b, fb, param_roles={1: "TERM", 2: "OPT"}, overrides={self.hist: "HIST", self.bps: "BPS", self.code: "PROGRAM"})
        self.ok = True


def rule_snapshot(ctx, R):
    fb = ctx.fb
    M = DebugModel(fb)
    if not R.anchor(M.ok, "debug_model", "debug::run with its history vector, breakpoint set and program (identified by type)"):
        return
    b, roles, cfg = M.b, M.roles, M.cfg
    R.analyse(b.name)
    steps = [(bi, t) for bi, t in b.calls() if callee_name(t["f"], fb) == EXEC_ONE]
    R.floor("step_sites", len(steps), 3, "execute_one call sites in debug::run")
    LAST = "UNWRAP([T]::last(HIST))"
    for i, (bi, t) in enumerate(steps):
        rs = [roles.of_operand(a, bi) for a in t["args"]]
        R.check(rs[3] == "COPY(%s.0)" % LAST, "snapshot:clone:%d" % i, "the step executes on a clone of the newest history entry's state: %s" % rs[3], t["span"]["at"])
        R.check(rs[4] == "%s.1" % LAST, "snapshot:position:%d" % i, "the step executes the command the newest history entry points at: %s" % rs[4], t["span"]["at"])
        # its result becomes a new entry
        pushed = False
        for b2, t2 in b.calls():
            if callee_name(t2["f"], fb) == "std::vec::Vec::push" and roles.of_operand(t2["args"][0], b2) == "HIST":
                v = roles.org.of_operand(t2["args"][1], b2, "t")
                if v[0] == "try" and v[1][0] == "call" and v[1][1] == EXEC_ONE and reaches_without(cfg, [bi], b2):
                    # this push consumes the result of *this* call: the Try::branch between them
                    if not reaches_without(cfg, cfg.succ[bi], b2, cut_blocks=[x for x, _ in steps if x != bi]) is False:
                        pushed = True
        R.check(pushed, "snapshot:pushed:%d" % i, "the state after the step is pushed as a new history entry", t["span"]["at"])
    # the history starts with the initial state at command 0
    firsts = []
    for bi_, blk in enumerate(b.blocks):
        if blk["cleanup"]:
            continue
        for si_, st in enumerate(blk["stmts"]):
            if st["k"] == "assign" and st["r"]["k"] == "agg" and st["r"].get("agg") == "tuple" and len(st["r"]["fields"]) == 2 and b.lty(st["p"]["l"]).startswith("(core::state::UnOptState, usize)"):
                f0, f1 = st["r"]["fields"]
                if f1.get("k") == "const":
                    firsts.append((roles.of_operand(f0, bi_, si_), int(f1["int"])))
    R.check(firsts == [("UnOptState::new()", 0)], "snapshot:initial", "the history starts with one entry: a fresh state, about to execute command 0: %s" % firsts, b.span)
    # the history vector is only touched through push / pop / last / len
    allowed = {"std::vec::Vec::push", "std::vec::Vec::pop", "[T]::last", "std::vec::Vec::len", "core::ops::deref::Deref::deref", "core::slice::<impl [T]>::last"}
    used = {}
    for bi, t in b.calls():
        for a in t["args"][:1]:
            if M.vars.root_key(a) == ("L", M.hist):
                used.setdefault(callee_name(t["f"], fb), []).append(t["span"]["at"])
    bad = {k: v for k, v in used.items() if k not in allowed}
    R.check(not bad, "snapshot:api", "the history vector is only accessed through push, pop, last and len (no mutable access to older entries): %s" % sorted(used), None, bad)
    # any other mutable borrow of the vector (e.g. &mut state_stack[..]) shows up as a statement taking &mut of a projection
    for bi, blk in enumerate(b.blocks):
        for s in blk["stmts"]:
            if s["k"] == "assign" and s["r"]["k"] == "ref" and s["r"]["mut"] and s["r"]["p"]["l"] == M.hist and s["r"]["p"]["proj"]:
                R.fail("snapshot:mut_projection", "mutable borrow into the history vector", s["span"]["at"])
    pops = [(bi, t) for bi, t in b.calls() if callee_name(t["f"], fb) == "std::vec::Vec::pop" and roles.of_operand(t["args"][0], bi) == "HIST"]
    if R.check(len(pops) == 1, "snapshot:one_pop", "exactly one place removes a history entry (`previous`): %d" % len(pops)):
        pb = pops[0][0]
        ev = Events(b, fb, roles=roles)
        guards = []
        for gb, blk in enumerate(b.blocks):
            tt = blk["term"]
            if tt["k"] == "switch":
                for s in cfg.succ[gb]:
                    lab = ev.generic_edge(gb, tt, s)
                    if lab in ("LT[K1,Vec::len(HIST)]=1", "LT[Vec::len(HIST),K2]=0", "EQ[K1,Vec::len(HIST)]=0"):
                        guards.append((gb, s))
        R.check(bool(guards) and not reaches_without(cfg, [0], pb, cut_edges=guards), "snapshot:pop_guard", "an entry is removed only when more than one exists (the initial snapshot is never popped)", pops[0][1]["span"]["at"])
        # one pop per `previous`: no path from the pop back to itself without reading a new command line
        reads = [bi for bi, t in b.calls() if callee_name(t["f"], fb) == "hyeong::util::io::read_line_from"]
        R.check(bool(reads) and not reaches_without(cfg, cfg.succ[pb], pb, cut_blocks=reads), "snapshot:pop_once", "`previous` removes exactly one entry per command entered", pops[0][1]["span"]["at"])


def rule_bp(ctx, R):
    fb = ctx.fb
    M = DebugModel(fb)
    if not R.anchor(M.ok, "debug_model", "debug::run anchors"):
        return
    b, roles, cfg = M.b, M.roles, M.cfg
    R.analyse(b.name)
    ev = Events(b, fb, roles=roles)
    ins = [(bi, t, roles.of_operand(t["args"][1], bi)) for bi, t in b.calls() if callee_name(t["f"], fb) == "std::collections::HashSet::insert" and roles.of_operand(t["args"][0], bi) == "BPS"]
    R.floor("bp_inserts", len(ins), 2, "insertions into the breakpoint set")
    for bi, t, v in ins:
        if v == "K0":
            R.ok("bp:initial", "the initial breakpoint 0", t["span"]["at"])
            continue
        guards = []
        for gb, blk in enumerate(b.blocks):
            tt = blk["term"]
            if tt["k"] == "switch":
                for s in cfg.succ[gb]:
                    lab = ev.generic_edge(gb, tt, s)
                    if lab == "LT[%s,Vec::len(PROGRAM)]=1" % v:
                        guards.append((gb, s))
        R.check(bool(guards) and not reaches_without(cfg, [0], bi, cut_edges=guards), "bp:range", "a user-supplied breakpoint %s is inserted only after it compared strictly below the program length" % v[:60], t["span"]["at"])
    # `break` without a number lists, with a number toggles: the listing is entered exactly for fewer than two words
    all_prints = [bi for bi, t in b.calls() if callee_name(t["f"], fb) == "hyeong::app::check::print_un_opt_codes"]
    reads_ = [bi for bi, t in b.calls() if callee_name(t["f"], fb) == "hyeong::util::io::read_line_from"]
    few, many = [], []
    for gb, blk in enumerate(b.blocks):
        tt = blk["term"]
        if tt["k"] == "switch" and not blk["cleanup"]:
            for s in cfg.succ[gb]:
                lab = ev.generic_edge(gb, tt, s) or ""
                if lab.startswith("LT[Vec::len(") and "read_line_from" in lab and lab.endswith(",K2]=1"):
                    few.append((gb, s))
                elif lab.startswith("LT[Vec::len(") and "read_line_from" in lab and lab.endswith(",K2]=0"):
                    many.append((gb, s))
    # the listing call: the print reachable from the "fewer than two words" edge before the next line is read
    prints_ = [pb for pb in all_prints if few and reaches_without(cfg, [few[0][1]], pb, cut_blocks=reads_)]
    if R.anchor(len(prints_) == 1 and len(few) == 1 and len(many) == 1, "bp:listing", "the breakpoint listing and the test on the number of words"):
        R.check(not reaches_without(cfg, [0], prints_[0], cut_edges=few) and all(not reaches_without(cfg, [many[0][1]], prints_[0], cut_blocks=[bi for bi, t in b.calls() if callee_name(t["f"], fb) == "hyeong::util::io::read_line_from"]) for _ in (0,)), "bp:listing_iff", "`break` lists the breakpoints exactly when no number is given (fewer than two words)", b.blocks[prints_[0]]["term"]["span"]["at"])
    # the listing indexes the program with every breakpoint: the closure doing so is the only indexing by a set element
    # run stops at the first breakpointed command: `contains(&last.1)` decides between stopping and stepping
    cont = [(bi, t) for bi, t in b.calls() if callee_name(t["f"], fb) == "std::collections::HashSet::contains" and roles.of_operand(t["args"][0], bi) == "BPS"]
    ok = any(roles.of_operand(t["args"][1], bi) == "UNWRAP([T]::last(HIST)).1" for bi, t in cont)
    R.check(ok, "bp:run_stops_at", "while running, the position of the newest history entry is looked up in the breakpoint set before every step")


def rule_once(ctx, R):
    fb = ctx.fb
    eps = {"core::ops::try_trait::Try::branch", "core::ops::try_trait::FromResidual::from_residual", "core::clone::Clone::clone", "core::ops::deref::Deref::deref", "core::convert::From::from", "std::vec::Vec::new", "core::slice::<impl [T]>::len", "[T]::len", "[T]::to_vec", "core::slice::<impl [T]>::to_vec"}

    def lang(name):
        b = fb.bodies.get(name)
        if b is None:
            return None, None
        cfg = normal_cfg(b)
        ev = Events(b, fb, roles=Roles(b, fb, param_roles={i: "P%d" % i for i in range(1, b.argc + 1)}), epsilon=eps)
        ev.set_events = True
        return b, language(b, fb, cfg, 0, cfg.returns, ev, stop_at_exit=False)

    b, d = lang("<util::io::CustomWriter<T> as std::io::Write>::flush")
    if R.anchor(b is not None, "flush", "CustomWriter::flush"):
        R.analyse(b.name)
        T = "TRY(CustomWriter::to_string(P1))"
        call = "Fn::call(P1.print_fn,tuple{%s})" % T
        specs = [Seq("CustomWriter::to_string(P1)", call, reset, "RET(%s)" % call) for reset in ("SET(P1.buf,VEC)", "Vec::clear(P1.buf)")]
        p_c01.check_lang_any(R, "flush:once", "flush hands the whole captured text to the print function exactly once and empties the buffer on every path", d, specs, b.span)
    b, d = lang("<util::io::CustomWriter<T> as std::io::Write>::write")
    if R.anchor(b is not None, "write", "CustomWriter::write"):
        R.analyse(b.name)
        specs = [Seq("Vec::append(P1.buf,[T]::to_vec(P2))", "RET(Result::Ok{[T]::len(P2)})"), Seq("Vec::extend_from_slice(P1.buf,P2)", "RET(Result::Ok{[T]::len(P2)})")]
        p_c01.check_lang_any(R, "write:append_all", "write appends every byte it is given and reports them all written", d, specs, b.span)
    b, d = lang("util::io::CustomWriter::to_string")
    if R.anchor(b is not None, "to_string", "CustomWriter::to_string"):
        p_c01.check_lang_any(R, "to_string:whole", "the captured text is the whole buffer decoded as UTF-8", d, [Seq("String::from_utf8(COPY(P1.buf))", "RET(Result::Ok{TRY(String::from_utf8(COPY(P1.buf)))})")], b.span)
    # debugger flush points
    M = DebugModel(fb)
    if not R.anchor(M.ok, "debug_model", "debug::run anchors"):
        return
    bdy, roles, cfg = M.b, M.roles, M.cfg
    writers = [l for l, dcl in enumerate(bdy.locals) if dcl["ty"].startswith("util::io::CustomWriter<") and l in bdy.local_names()]
    if not R.anchor(len(writers) == 2, "writers", "the two capturing writers of the debugger"):
        return
    vars_ = M.vars
    flushes = {w: [bi for bi, t in bdy.calls() if callee_name(t["f"], fb) == "std::io::Write::flush" and vars_.root_key(t["args"][0]) == ("L", w)] for w in writers}
    steps = [(bi, t) for bi, t in bdy.calls() if callee_name(t["f"], fb) == EXEC_ONE]
    reads = [bi for bi, t in bdy.calls() if callee_name(t["f"], fb) == "hyeong::util::io::read_line_from"]
    for w in writers:
        nm = bdy.lname(w)
        # before the normal return
        R.check(bool(flushes[w]) and not any(reaches_without(cfg, [0], r, cut_blocks=flushes[w]) for r in cfg.returns if _is_ok_return(bdy, fb, cfg, r, flushes[w])), "once:flush_before_return:%s" % nm, "every normal return of the debugger is preceded by a flush of the %s writer" % nm)
        # output captured by a step is delivered before the next prompt: from a step, the next read_line passes a flush
        flags = locals_of_type(bdy, "bool")
        for i, (sb, t) in enumerate(steps):
            ok = bool(reads) and not any(reaches_without(cfg, cfg.succ[sb], rb, cut_blocks=flushes[w]) for rb in reads)
            if not ok and len(flags) == 1:
                # steps taken while running: the running flag is tracked (it is cleared only after the flushes,
                # and the prompt is reached only when it is clear)
                from .util import reaches_with_bool
                # value of the flag right after this step: set to true on the path from the step, or already true
                for start_val in (True,):
                    ok = not reaches_with_bool(cfg, bdy, flags[0], cfg.succ[sb], _flag_after(bdy, cfg, flags[0], sb), reads, cut_blocks=flushes[w])
            R.check(ok, "once:flush_before_prompt:%s:%d" % (nm, i), "what a step wrote to %s is shown before the debugger asks for the next command (the running flag is cleared only after both flushes)" % nm, t["span"]["at"])
    # the print closures show the text once: "[stdout] {}" with the closure's parameter
    for c in fb.closures_of(bdy):
        names = [callee_name(t["f"], fb) for _, t in c.calls()]
        if "std::string::String::is_empty" in names or any("is_empty" in n for n in names):
            cro = Roles(c, fb, param_roles={1: "ENV", 2: "TEXT"})
            shows = [cro.of_operand(t["args"][1], bi) for bi, t in c.calls() if callee_name(t["f"], fb).endswith("Write::write_fmt")]
            n_text = sum(s.count("Argument::new_display(TEXT)") for s in shows)
            R.check(n_text == 1, "once:closure:%s" % c.name.rsplit("::", 1)[-1], "the print function writes the captured text exactly once", c.span, shows)


def _is_ok_return(b, fb, cfg, r, flushes):
    return True


def _flag_after(b, cfg, flag, step_block):
    """value of the running flag when the step executes: True if the step is only reachable through the
    flag's true edge, else unknown"""
    for gb, blk in enumerate(b.blocks):
        t = blk["term"]
        if t["k"] == "switch" and t["x"]["k"] in ("copy", "move"):
            l = t["x"]["p"]["l"]
            isf = l == flag or any(s["k"] == "assign" and s["p"]["l"] == l and s["r"]["k"] == "use" and s["r"]["x"].get("p", {}).get("l") == flag for s in blk["stmts"])
            if isf:
                true_t = t["otherwise"] if [v for v, _ in t["arms"]] == ["0"] else None
                if true_t is not None and not reaches_without(cfg, [0], step_block, cut_edges=[(gb, true_t)]):
                    return True
    return None


AUDITED = {
    "expect(Result):ctrlc::set_handler(CLOSURE)": "installing the Ctrl-C handler once at start-up; a second handler cannot exist",
    "unwrap(Option):Option::as_ref(OPT.input)": "HyeongOption.input is set by sub_main before debug::run",
    "unwrap(Option):Option::as_ref(P2.input)": "HyeongOption.input is set by sub_main before debug::run",
    "unwrap(Option):[T]::last(HIST)": "the history vector starts with one entry and `previous` never pops the last one (C11.SNAPSHOT pop_guard)",
    "unwrap(Result):Write::flush(CustomWriter::new(CLOSURE))": "flush of a capturing writer: fails only if the terminal write fails (outside the property) or the program wrote invalid UTF-8 bytes (writers only receive formatted chars)",
    "terminate:exit(K0)": "`exit` command / end of the command script: status 0",
    "index:Vec<str>[usize]:Iterator::collect(str::split(str::trim(TRY(io::read_line_from(stdio...#78b157[K0]": "str::split always yields at least one piece",
    "index:Vec<str>[usize]:Iterator::collect(str::split(str::trim(TRY(io::read_line_from(stdio...#78b157[K1]": "guarded by parsed.len() < 2 -> continue",
    "index:Vec<core::code::UnOptCode>[usize]:PROGRAM[UNWRAP([T]::last(HIST)).1]": "the main loop runs only while the newest position is below the program length",
    "index:Vec<core::code::UnOptCode>[usize]:UPVAR:un_opt_code[P2]": "every breakpoint in the set is below the program length (C11.BP) — with an empty program the loop never runs and nothing is listed",
}


def rule_nopanic(ctx, R):
    fb = ctx.fb
    M = DebugModel(fb)
    if not R.anchor(M.ok, "debug_model", "debug::run anchors"):
        return
    n = 0
    for body in [M.b] + fb.closures_of(M.b):
        R.analyse(body.name)
        roles = M.roles if body is M.b else None
        ss = sites(body, fb)
        if body is M.b:
            # re-key with the model's roles so that the history / program are named
            ss2 = []
            from .audit import _short, _ty
            for bi, blk in enumerate(body.blocks):
                pass
            ss = _sites_with_roles(body, fb, M.roles)
        for s in ss:
            n += 1
            why = auto_justify(s) or AUDITED.get(s["key"])
            if why is None and s["key"].startswith("index:Vec<core::code::UnOptCode>[usize]:PROGRAM[") and "BPS" in s["key"]:
                why = AUDITED["index:Vec<core::code::UnOptCode>[usize]:UPVAR:un_opt_code[P2]"]
            if why is None and body is not M.b and s["kind"].startswith("unwrap(Result)") and "StandardStream" in s["key"]:
                why = "Ctrl-C notice / print closure writing to the terminal: a failing terminal write is outside the property"
            R.check(why is not None, "nopanic:%s:%s" % (body.name.rsplit("::", 1)[-1], s["key"]), "panic-capable site [%s]: %s" % (s["key"][:90], why or "NOT discharged and NOT audited"), s["where"])
    R.floor("debugger_sites", n, 30, "panic-capable sites of the debugger")


def _sites_with_roles(body, fb, roles):
    from . import audit
    out = []
    for bi, blk in enumerate(body.blocks):
        if blk["cleanup"]:
            continue
        t = blk["term"]
        if t["k"] == "assert":
            kind = t["kind"]
            if any(kind.startswith(s) for s in audit.SKIP_ASSERTS):
                continue
            ops = [roles.of_operand(o, bi) for o in t["ops"]]
            out.append({"kind": "assert:" + kind, "key": "%s:%s" % (kind, ",".join(audit._short(o) for o in ops)), "where": t["span"]["at"], "ops": ops, "cond": roles.org.of_operand(t["cond"], bi, "t"), "block": bi})
        elif t["k"] == "call" and "indirect" not in t["f"]:
            n = callee_name(t["f"], fb)
            if n in audit.PANIC_CALLS:
                arg = roles.of_operand(t["args"][0], bi)
                out.append({"kind": audit.PANIC_CALLS[n], "key": "%s:%s" % (audit.PANIC_CALLS[n], audit._short(arg)), "where": t["span"]["at"], "ops": [arg]})
            elif any(n.startswith(p) for p in audit.PANIC_PREFIX):
                out.append({"kind": "panic", "key": "panic:%s" % n.rsplit("::", 1)[-1], "where": t["span"]["at"], "ops": []})
            elif n in audit.INDEX_CALLS:
                a0, a1 = roles.of_operand(t["args"][0], bi), roles.of_operand(t["args"][1], bi)
                out.append({"kind": "index", "key": "index:%s[%s]:%s[%s]" % (audit._ty(t["argtys"][0]), audit._ty(t["argtys"][1]), audit._short(a0), audit._short(a1)), "where": t["span"]["at"], "ops": [a0, a1]})
            elif n in audit.TERMINATE:
                a0 = roles.of_operand(t["args"][0], bi) if t["args"] else ""
                out.append({"kind": "terminate", "key": "terminate:%s(%s)" % (n.rsplit("::", 1)[-1], a0), "where": t["span"]["at"], "ops": [a0]})
    return out


def rule_nopanic_callees(ctx, R):
    """everything the debugger calls inside the crate (listing, interpreter step, state display, readers) under the
    whole-binary panic audit of C13, restricted to what is reachable from debug::run"""
    from . import p_c13
    fb = ctx.fb_all
    closures = {c.name for c in fb.closures_of(fb.bodies[DEBUG])} if DEBUG in fb.bodies else set()
    n = p_c13.rule_panic(ctx, R, roots=[DEBUG], skip={DEBUG} | closures)
    R.floor("callee_sites", n or 0, 40, "panic-capable sites in functions reachable from debug::run")


def _feeding_calls(b, fb, vars_, op, want):
    """blocks of the calls named `want` whose results flow into operand `op` (backward slice through assignments
    and call arguments)"""
    out, seen, work = set(), set(), []

    def push_op(o):
        if o.get("k") in ("copy", "move"):
            work.append(o["p"]["l"])

    push_op(op)
    while work:
        l = work.pop()
        if l in seen:
            continue
        seen.add(l)
        for d in vars_.defs.get(l, []):
            if d[0] == "call":
                t = d[3]
                if callee_name(t["f"], fb) in want:
                    out.add(d[1])
                    continue
                for a in t["args"]:
                    push_op(a)
            else:
                r = d[3]["r"]
                for k, v_ in r.items():
                    if isinstance(v_, dict) and v_.get("k") in ("copy", "move"):
                        push_op(v_)
                    elif isinstance(v_, list):
                        for f in v_:
                            if isinstance(f, dict):
                                push_op(f)
                if isinstance(r.get("p"), dict):
                    work.append(r["p"]["l"])
                    for e in r["p"].get("proj", []):
                        if isinstance(e, dict) and "i" in e:
                            work.append(e["i"])
    return out


def rule_fresh(ctx, R):
    """A value read from the newest history entry is used before the history changes again: between the read
    (`last()`) and the step / listing / breakpoint test that uses it there is no push or pop of the history that is
    not followed by a new read. (Origin expressions alone cannot see this: `last().1` read before a `previous`
    looks the same as one read after it.)"""
    fb = ctx.fb
    M = DebugModel(fb)
    if not R.anchor(M.ok, "debug_model", "debug::run anchors"):
        return
    b, roles, cfg, vars_ = M.b, M.roles, M.cfg, M.vars
    R.analyse(b.name)
    LASTS = {"core::slice::<impl [T]>::last", "[T]::last"}
    muts = [bi for bi, t in b.calls() if callee_name(t["f"], fb) in ("std::vec::Vec::push", "std::vec::Vec::pop", "std::vec::Vec::clear", "std::vec::Vec::truncate", "std::vec::Vec::remove", "std::vec::Vec::insert") and t["args"] and vars_.root_key(t["args"][0]) == ("L", M.hist)]
    R.floor("history_mutations", len(muts), 4, "push/pop sites of the history")
    sinks = {EXEC_ONE: "step", "hyeong::app::check::print_un_opt_codes": "listing", "std::collections::HashSet::contains": "breakpoint test", "hyeong::core::state::State::get_all_stack_index": "state display", "hyeong::core::state::State::get_stack": "state display"}
    n = 0
    for ub, t in b.calls():
        nm = callee_name(t["f"], fb)
        if nm not in sinks:
            continue
        for ai, a in enumerate(t["args"]):
            for lb in sorted(_feeding_calls(b, fb, vars_, a, LASTS)):
                n += 1
                stale = [m for m in muts if m != ub and reaches_without(cfg, cfg.succ[lb], m, cut_blocks=[lb]) and reaches_without(cfg, cfg.succ[m], ub, cut_blocks=[lb])]
                R.check(not stale, "fresh:%s:%d:arg%d" % (sinks[nm], sum(1 for x, _ in b.calls() if x < ub and callee_name(_["f"], fb) == nm), ai),
                        "the %s uses a view of the newest history entry that is re-read after every push/pop of the history" % sinks[nm], t["span"]["at"],
                        [b.blocks[m]["term"]["span"]["at"] for m in stale])
    R.floor("history_views", n, 8, "uses of last() by steps, listings and the breakpoint test")


def rule_bp_exact(ctx, R):
    """While running, membership of the newest position in the breakpoint set alone decides between stopping and
    stepping; `run` itself performs one step first (so that it leaves the breakpoint it stands on)."""
    fb = ctx.fb
    M = DebugModel(fb)
    if not R.anchor(M.ok, "debug_model", "debug::run anchors"):
        return
    b, roles, cfg, vars_ = M.b, M.roles, M.cfg, M.vars
    R.analyse(b.name)
    ev = Events(b, fb, roles=roles)
    steps = [bi for bi, t in b.calls() if callee_name(t["f"], fb) == EXEC_ONE]
    reads = [bi for bi, t in b.calls() if callee_name(t["f"], fb) == "hyeong::util::io::read_line_from"]
    # outer loop head: the loop containing every step
    heads = {}
    for be in cfg.back_edges():
        heads.setdefault(be[1], set()).update(cfg.natural_loop(be))
    outer = [h for h, blk in heads.items() if all(s_ in blk for s_ in steps)]
    if not R.anchor(bool(outer) and bool(steps), "outer_loop", "the debugger's main loop"):
        return
    head = max(outer, key=lambda h: len(heads[h]))
    yes, no = [], []
    for gb, blk in enumerate(b.blocks):
        tt = blk["term"]
        if tt["k"] == "switch":
            for s_ in cfg.succ[gb]:
                lab = ev.generic_edge(gb, tt, s_) or ""
                if lab.startswith("BR[HashSet::contains(BPS,UNWRAP([T]::last(HIST)).1)]="):
                    (yes if lab.endswith("=1") else no).append((gb, s_))
    if not R.anchor(len(yes) == 1 and len(no) == 1, "bp_test", "the branch on break_points.contains(newest position)"):
        return
    R.check(not any(reaches_without(cfg, [yes[0][1]], s_, cut_blocks=[head] + reads) for s_ in steps), "bp:stop_is_unconditional",
            "when the newest position carries a breakpoint the run stops: no step is executed before control returns to the prompt", b.blocks[yes[0][0]]["term"]["span"]["at"])
    # the main loop runs while the newest position is a command of the program (the indexing of the program with
    # that position, audited in NOPANIC, relies on exactly this test)
    stay_ = []
    for s_ in cfg.succ[head]:
        pass
    for gb in sorted(heads[head]):
        tt = b.blocks[gb]["term"]
        if tt["k"] == "switch":
            for s_ in cfg.succ[gb]:
                lab = ev.generic_edge(gb, tt, s_) or ""
                if lab.startswith("LT[UNWRAP([T]::last(HIST)).1,") and "Vec::len(PROGRAM)" in lab:
                    stay_.append((lab, s_ in heads[head]))
    R.check(sorted(stay_) == [("LT[UNWRAP([T]::last(HIST)).1,Vec::len(PROGRAM)]=0", False), ("LT[UNWRAP([T]::last(HIST)).1,Vec::len(PROGRAM)]=1", True)], "bp:loop_condition", "the debugger keeps going exactly while the newest position is below the program length: %s" % sorted(stay_), b.span)
    # stopping means leaving the running mode: the flag is cleared on the way back to the prompt
    flags_ = [l for l, d in enumerate(b.locals) if d["ty"] == "bool" and l in b.local_names()]
    clears = []
    for l in flags_:
        for d in vars_.defs.get(l, []):
            if d[0] == "assign" and d[3]["r"]["k"] == "use" and d[3]["r"]["x"].get("k") == "const" and str(d[3]["r"]["x"].get("int")) == "0" and d[1] in heads[head]:
                clears.append(d[1])
    R.check(bool(clears) and not reaches_without(cfg, [yes[0][1]], head, cut_blocks=clears), "bp:stop_clears_running", "when the run stops at a breakpoint the running flag is cleared before the main loop continues (otherwise no prompt is ever shown again)", b.blocks[yes[0][0]]["term"]["span"]["at"])
    R.check(not reaches_without(cfg, [no[0][1]], head, cut_blocks=steps), "bp:step_otherwise",
            "when it carries none, a step is executed before the next test", b.blocks[no[0][0]]["term"]["span"]["at"])
    # the running flag: the named bool local tested on the path to the breakpoint test
    flags = [l for l, d in enumerate(b.locals) if d["ty"] == "bool" and l in b.local_names()]
    sets = []
    for l in flags:
        for d in vars_.defs.get(l, []):
            if d[0] == "assign" and d[3]["r"]["k"] == "use" and d[3]["r"]["x"].get("k") == "const" and str(d[3]["r"]["x"].get("int")) == "1" and d[1] in heads[head]:
                sets.append((l, d[1], d[3]))
    if R.anchor(len(sets) >= 1, "run_flag", "assignment `running = true` of the run command"):
        for l, db, st in sets:
            R.check(not reaches_without(cfg, [x for r_ in reads for x in cfg.succ[r_]], db, cut_blocks=steps), "bp:run_steps_first",
                    "`run` executes one command before continuing (it must get off the breakpoint it stands on)", st["span"]["at"])


def rule_eofmark(ctx, R):
    from . import p_c12
    return p_c12.rule_eofmark(ctx, R, DEBUG)


def rule_show(ctx, R, fn=None):
    """the closure that displays captured text (handed to CustomWriter::new) shows every non-empty text: its only
    decision is `text.is_empty()`, and on the non-empty side every normally returning path writes the text itself"""
    fb = ctx.fb
    fn = fn or DEBUG
    b = fb.bodies.get(fn)
    if not R.anchor(b is not None, "fn", fn):
        return
    from .templates import templates_of
    n = 0
    import re
    delegated = {}  # display closure name -> string constants it hands to the shared closure it delegates to
    for c0 in fb.closures_of(b):
        if c0.argc != 2 or c0.lty(2) not in ("std::string::String", "&str", "&std::string::String"):
            continue
        c, text_param = c0, 2
        # a display closure may do nothing but hand its text (and a tag) to one shared local closure: follow it
        calls0 = [(bi, t) for bi, t in c0.calls()]
        if len(calls0) == 1 and callee_name(calls0[0][1]["f"], fb).endswith("::call") and len(calls0[0][1]["args"]) == 2:
            m_ = re.search(r"closure@([^ ]+?):? ", calls0[0][1]["argtys"][0] + " ")
            tup = Origins(c0, fb).of_operand(calls0[0][1]["args"][1], calls0[0][0], "t")
            tgt = [x for x in fb.closures_of(b) if m_ and x.raw.get("span", {}).get("at", "") == m_.group(1)] if m_ else []
            if len(tgt) == 1 and tup[0] == "agg" and ("arg", 2) in tup[2]:
                c = tgt[0]
                text_param = 2 + list(tup[2]).index(("arg", 2))
                delegated[c0.name.rsplit("::", 1)[-1]] = {x[2] for x in tup[2] if x[0] == "const" and isinstance(x[2], str)}
        n += 1
        R.analyse(c.name)
        cfg = normal_cfg(c)
        roles = Roles(c, fb, param_roles={text_param: "TEXT"})
        ev = Events(c, fb, roles=roles)
        tag = c0.name.rsplit("::", 1)[-1]
        conds = set()
        nonempty = []
        for gb, blk in enumerate(c.blocks):
            tt = blk["term"]
            if tt["k"] != "switch" or blk["cleanup"]:
                continue
            for s_ in cfg.succ[gb]:
                lab = ev.generic_edge(gb, tt, s_)
                if lab and lab.startswith("BR["):
                    conds.add(lab.rsplit("=", 1)[0])
                    if lab in ("BR[String::is_empty(TEXT)]=0", "BR[str::is_empty(TEXT)]=0"):
                        nonempty.append(s_)
                elif lab and (lab.startswith("EQ[") or lab.startswith("LT[")) and "TEXT" in lab:
                    conds.add(lab.rsplit("=", 1)[0])
        allowed = {"BR[String::is_empty(TEXT)]", "BR[str::is_empty(TEXT)]"}
        R.check(conds <= allowed, "show:%s:guard" % tag, "the display closure decides only on emptiness of the text (whitespace-only output is output): %s" % sorted(conds), c.span)
        # the write that prints TEXT itself
        shows = []
        try:
            for t in templates_of(c, fb, roles.org):
                if any(roles.of_origin(a) == "TEXT" for a in t.args):
                    # the write_fmt that consumes this Arguments value: the next write_fmt after the template block
                    shows.append(t.block)
        except Exception as e:
            R.fail("show:%s:templates" % tag, "templates of the display closure cannot be recovered: %s" % e, c.span)
            continue
        writes = [bi for bi, t in c.calls() if callee_name(t["f"], fb).endswith("write_fmt")]
        show_writes = [w for w in writes if any(reaches_without(cfg, [sb], w, cut_blocks=[x for x in writes if x != w]) for sb in shows)]
        ok_returns = [r for r in cfg.returns]
        from .cfg import question_mark_error_edges
        qerr = question_mark_error_edges(c) if callable(question_mark_error_edges) else []
        start = nonempty or [0]
        ok = bool(show_writes) and not reaches_without(cfg, start, ok_returns, cut_blocks=show_writes, cut_edges=list(qerr))
        R.check(ok, "show:%s:shows_text" % tag, "every non-empty captured text is written to the terminal (no path to a normal return skips the write of the text)", c.span)
        # ... on the terminal's standard output (both captured streams are shown there, told apart by their label)
        dests = sorted({roles.of_operand(t["args"][0], bi)[:23] for bi, t in c.calls() if callee_name(t["f"], fb).endswith("write_fmt")})
        R.check(dests == ["StandardStream::stdout("], "show:%s:on_stdout" % tag, "the display closure writes to the process's standard output: %s" % dests, c.span)
    R.floor("display_closures:" + fn.rsplit("::", 2)[-2], n, 2, "display closures handed to the capturing writers")
    # which callback labels which stream: the writer handed to the interpreter step as `out` announces "stdout", the
    # one handed over as `err` announces "stderr"
    vars_ = Vars(b)
    org = Origins(b, fb)
    steps = [(bi, t) for bi, t in b.calls() if callee_name(t["f"], fb) in (EXEC_ONE, "hyeong::core::execute::execute")]
    news = {}
    for bi, t in b.calls():
        if callee_name(t["f"], fb).endswith("CustomWriter::new") and not t["dest"]["proj"]:
            o = org.of_operand(t["args"][0], bi, "t")
            if o[0] == "agg" and o[1].startswith("closure:"):
                news[t["dest"]["l"]] = o[1].split(":", 1)[1].rsplit("::", 1)[-1]
    lits = {}
    for c in fb.closures_of(b):
        try:
            ts_ = templates_of(c, fb)
            lits[c.name.rsplit("::", 1)[-1]] = {p_[1] for t in ts_ for p_ in t.pieces if p_[0] == "lit"} | {a[2] for t in ts_ for a in t.args if isinstance(a, tuple) and a[0] == "const" and isinstance(a[2], str)}
        except Exception:
            lits[c.name.rsplit("::", 1)[-1]] = set()
    for nm_, consts_ in delegated.items():
        lits[nm_] = set(lits.get(nm_, set())) | consts_
    if R.anchor(bool(steps) and len(news) >= 2, "show:streams", "the step call and the two capturing writers"):
        for bi, t in steps[:1]:
            for pos, want, other in ((1, "stdout", "stderr"), (2, "stderr", "stdout")):
                k = vars_.root_key(t["args"][pos])
                cl = news.get(k[1]) if k and k[0] == "L" else None
                texts = lits.get(cl, set())
                ok = cl is not None and any(want in x for x in texts) and not any(other in x for x in texts)
                R.check(ok, "show:label:%s" % want, "the writer passed to the interpreter step as its %s stream announces its text as [%s] (callback %s prints %s)" % ("output" if pos == 1 else "error", want, cl, sorted(x for x in texts if x.strip() and len(x) < 12)), t["span"]["at"])


RULES = [
    ("C11.SNAPSHOT", "steps run on a clone of the newest snapshot; history only via push/pop/last/len; previous pops once under len > 1", rule_snapshot),
    ("C11.BP", "breakpoints entered by the user are range-checked before insertion; run consults the set before every step", rule_bp),
    ("C11.ONCE", "captured output is delivered exactly once: writer append/flush shape, flush points of the debugger", rule_once),
    ("C11.EXITFLUSH", "program-requested exits flush both writers first", p_c01.rule_pop),
    ("C11.NOPANIC", "panic-capable sites of the debugger are discharged or audited", rule_nopanic),
    ("C11.NOPANIC2", "panic-capable sites of every crate function the debugger can reach (listing, step, display) are discharged or audited", rule_nopanic_callees),
    ("C11.FRESH", "views of the newest history entry are re-read after every push/pop before they are used", rule_fresh),
    ("C11.BPX", "breakpoint membership alone decides stop/step while running; run steps once first", rule_bp_exact),
    ("C11.EOFMARK", "an entered empty line is not taken for end of input (reader keeps the terminator)", rule_eofmark),
    ("C11.SHOW", "the display callbacks of the capturing writers show every non-empty text", rule_show),
]


RULES.append(("C11.STATECELL", "the state that is displayed and stepped obeys the NaN rule of the stack cell (shared with C01.NAN): NaN is stored on a non-empty stack and never at the bottom of an empty one", p_c01.rule_nan))


def rule_showstate(ctx, R):
    """what `state` prints is the whole state, in a fixed order: the selected stack, then every stack of the map,
    ordered by its number, with its index and all its values"""
    from .templates import templates_of
    fb = ctx.fb
    name = "<core::state::UnOptState as core::fmt::Debug>::fmt"
    cands = [n for n in fb.bodies if n.endswith("UnOptState as core::fmt::Debug>::fmt") or n.endswith("UnOptState as std::fmt::Debug>::fmt")]
    if not R.anchor(len(cands) == 1, "unoptstate_debug", "impl Debug for UnOptState"):
        return
    b = fb.bodies[cands[0]]
    R.analyse(b.name)
    roles = Roles(b, fb, param_roles={1: "SELF", 2: "F"})
    names = [callee_name(t["f"], fb) for _, t in b.calls()]
    SELECT = ("filter", "filter_map", "skip", "skip_while", "take", "take_while", "step_by", "rev", "dedup", "retain", "truncate", "pop", "remove", "nth", "last", "first")
    sel = sorted({n for n in names if n.rsplit("::", 1)[-1] in SELECT})
    R.check(not sel, "showstate:all_stacks", "every stack of the state is listed (no selecting adapter): %s" % sel, b.span)
    ev_ = Events(b, fb, roles=roles)
    cfg_ = normal_cfg(b)
    conds = set()
    for gb, blk in enumerate(b.blocks):
        tt = blk["term"]
        if tt["k"] == "switch" and not blk["cleanup"]:
            for s_ in cfg_.succ[gb]:
                lab = ev_.generic_edge(gb, tt, s_)
                if lab and lab[:3] in ("BR[", "LT[", "EQ["):
                    conds.add(lab.rsplit("=", 1)[0])
    R.check(not conds, "showstate:unconditional", "no stack is left out of the listing on a condition (an empty stack is part of the state): %s" % sorted(c[:60] for c in conds), b.span)
    sorts = [(bi, t) for bi, t in b.calls() if callee_name(t["f"], fb).rsplit("::", 1)[-1] in ("sort_by", "sort_unstable_by", "sort_by_key", "sort_unstable_by_key", "sort", "sort_unstable")]
    if R.anchor(len(sorts) == 1, "showstate:sort", "the sort that fixes the order of the listing (the map iterates in arbitrary order)"):
        sb_, st_ = sorts[0]
        kind = callee_name(st_["f"], fb).rsplit("::", 1)[-1]
        R.check("HashMap::iter(SELF.stack)" in roles.of_operand(st_["args"][0], sb_) or "SELF.stack" in roles.of_operand(st_["args"][0], sb_), "showstate:sort_source", "the sorted sequence is the state's stack map: %s" % roles.of_operand(st_["args"][0], sb_)[:80], st_["span"]["at"])
        keys = []
        for c in fb.closures_of(b):
            cr = Roles(c, fb, param_roles={i: "P%d" % i for i in range(1, c.argc + 1)})
            ccfg = normal_cfg(c)
            for r_ in ccfg.returns:
                keys.append(cr.of_origin(cr.org.of_place({"l": 0, "proj": []}, r_, "t")))
        if kind in ("sort", "sort_unstable"):
            ok = True
        elif "key" in kind:
            ok = keys in (["P2.0"], ["COPY(P2.0)"])
        else:
            ok = len(keys) == 1 and keys[0] in ("Ord::cmp(P2.0,P3.0)", "UNWRAP(PartialOrd::partial_cmp(P2.0,P3.0))", "PartialOrd::partial_cmp(P2.0,P3.0)")
        R.check(ok, "showstate:numeric_order", "stacks are listed in the order of their numbers (the stack index itself is the sort key): %s %s" % (kind, keys), st_["span"]["at"])
    # the `state` command hands the newest history entry's *state* to this printer
    M_ = DebugModel(fb)
    if R.anchor(M_.ok, "debug_model", "debug::run anchors"):
        dbg_args = []
        for t in templates_of(M_.b, fb, M_.roles.org):
            for a_, k_ in zip(t.args, t.kinds):
                if k_ == "debug":
                    dbg_args.append(M_.roles.of_origin(a_))
        R.check(dbg_args == ["UNWRAP([T]::last(HIST)).0"], "showstate:what", "the only value the debugger prints with {:?} is the state of the newest history entry: %s" % dbg_args, M_.b.span)
    try:
        ts = templates_of(b, fb, roles.org)
    except Exception as e:
        R.fail("showstate:templates", "templates cannot be recovered: %s" % e, b.span)
        return
    sk = [t.skeleton() for t in ts]
    R.check(any("current stack: {0}" in x for x in sk) and any("stack {0}: {1}" in x for x in sk), "showstate:lines", "the listing has the selected stack and one line per stack with index and contents: %s" % sk, b.span)
    for t in ts:
        if "current stack" in t.skeleton():
            R.check(roles.of_origin(t.args[0]) == "SELF.cur", "showstate:cur", "the selected stack shown is the state's: %s" % roles.of_origin(t.args[0]), t.where)
        if t.skeleton().startswith("stack {0}: {1}"):
            rs = [roles.of_origin(a) for a in t.args]
            R.check(rs[0].endswith(".0") and rs[1].endswith(".1") and rs[0][:-2] == rs[1][:-2] and t.kinds == ["display", "debug"], "showstate:pairs", "each line shows a stack's own index and its own contents: %s" % rs, t.where)


def rule_step(ctx, R):
    return p_c01.rule_arms(ctx, R)


RULES.append(("C11.SHOWSTATE", "`state` prints the selected stack and every stack in the order of their numbers, each with its own contents", rule_showstate))
RULES.append(("C11.STEP", "the command a step executes is the language's command: six arms of execute_one equal the language table (shared with C01.ARM)", rule_step))


RULES.append(("C11.JUMP", "a step follows the language's jump rules: area evaluation, label lookup/registration and ♡ return of execute_one (shared with C01.JUMP)", p_c01.rule_area_jump))

RULES.append(("C11.INIT", "the state a session starts from (and `clear` returns to): empty, stack 3 selected, no jump source (shared with C01.INIT)", p_c01.rule_init))

RULES.append(("C11.STATEAPI", "the accessors of the state (selected stack, jump source, label table, command log) read and write exactly their field (shared with C01.STATEAPI)", p_c01.rule_stateapi))


def rule_session(ctx, R):
    """what has to hold around the steps for the displayed state to be the interpreter's: the whole program is in the
    state's command log before the first step; a step is followed by the bound test before the next command index is
    used; words of a command line are read only behind the test on their number; `break N` toggles exactly N"""
    from .util import dominating_edge_labels
    fb = ctx.fb
    M = DebugModel(fb)
    if not R.anchor(M.ok, "debug_model", "debug::run anchors"):
        return
    b, roles, cfg, vars_ = M.b, M.roles, M.cfg, M.vars
    R.analyse(b.name)
    ev = Events(b, fb, roles=roles)
    LAST = "UNWRAP([T]::last(HIST))"
    # 1. the program is logged: one push_code per command of the parsed program, unconditionally, before the history exists
    pcs = [(bi, t) for bi, t in b.calls() if callee_name(t["f"], fb).endswith("State::push_code")]
    ok, why = False, "no call of push_code"
    if len(pcs) == 1:
        pb, pt = pcs[0]
        a = [roles.of_operand(x, pb) for x in pt["args"]]
        lps = [(be, cfg.natural_loop(be)) for be in cfg.back_edges() if pb in cfg.natural_loop(be)]
        its = [roles.of_operand(t["args"][0], bi) for bi, t in b.calls() if callee_name(t["f"], fb) == "core::iter::traits::collect::IntoIterator::into_iter" and reaches_without(cfg, [bi], pb)]
        if lps:
            be_, lp_ = min(lps, key=lambda x: len(x[1]))
            out_ = [x for x in range(len(b.blocks)) if x not in lp_]
            sws = [x for x in lp_ if b.blocks[x]["term"]["k"] == "switch" and any(y not in lp_ for y in cfg.succ[x])]
            stay_ = [y for x in sws for y in cfg.succ[x] if y in lp_]
            every = bool(stay_) and not reaches_without(cfg, stay_, [be_[1]], cut_blocks=[pb] + out_)
            hist_init = [bi for bi, blk in enumerate(b.blocks) for st in blk["stmts"] if st["k"] == "assign" and not st["p"]["proj"] and st["p"]["l"] == M.hist]
            hist_calls = [bi for bi, t in b.calls() if not t["dest"]["proj"] and t["dest"]["l"] == M.hist]
            before = all(reaches_without(cfg, [pb], x) and not reaches_without(cfg, [x], pb) for x in hist_init + hist_calls)
            ok = a[0] == "UnOptState::new()" and a[1] in ("COPY(ELEM<PROGRAM>)", "COPY(ELEM<[T]::iter(PROGRAM)>)") and "PROGRAM" in its[-1:] + its and every and before
            why = "state %s, command %s, iterates %s, every iteration %s, before the history is created %s" % (a[0], a[1], its, every, before)
        else:
            why = "push_code is not in a loop"
    R.check(ok, "session:program_logged", "every command of the program is appended to the initial state's command log before the session starts (execute_one fetches commands from that log): %s" % why, pcs[0][1]["span"]["at"] if pcs else b.span)
    # 2. after a step, the bound test of the session loop is passed before a command index derived from the newest entry is used
    heads = []
    for gb, blk in enumerate(b.blocks):
        tt = blk["term"]
        if tt["k"] == "switch" and not blk["cleanup"]:
            for s_ in cfg.succ[gb]:
                if (ev.generic_edge(gb, tt, s_) or "") == "LT[%s.1,Vec::len(PROGRAM)]=1" % LAST:
                    heads.append(gb)
    pushes = [bi for bi, t in b.calls() if callee_name(t["f"], fb) == "std::vec::Vec::push" and roles.of_operand(t["args"][0], bi) == "HIST"]
    uses = [bi for bi, t in b.calls() if (callee_name(t["f"], fb) == EXEC_ONE and roles.of_operand(t["args"][4], bi) == LAST + ".1") or (callee_name(t["f"], fb) == "core::ops::index::Index::index" and roles.of_operand(t["args"][0], bi) == "PROGRAM" and roles.of_operand(t["args"][1], bi) == LAST + ".1")]
    if R.anchor(len(heads) == 1 and bool(pushes) and bool(uses), "session:bound_test", "the bound test of the session loop, the pushes of new history entries and the uses of the newest position as a command index"):
        bad = [b.blocks[p]["term"]["span"]["at"] for p in pushes if reaches_without(cfg, cfg.succ[p], uses, cut_blocks=heads)]
        R.check(not bad, "session:step_then_bound", "after every step the position of the new entry is compared with the program length before it is used as a command index (the prompt is left after `next` and `run`): %s" % bad, b.blocks[heads[0]]["term"]["span"]["at"])
    # 3. words of the command line
    n_w = 0
    for bi, t in b.calls():
        if callee_name(t["f"], fb) == "core::ops::index::Index::index":
            base = roles.of_operand(t["args"][0], bi)
            ix = roles.of_operand(t["args"][1], bi)
            if "str::split(" in base and ix.startswith("K") and ix[1:].isdigit():
                n_w += 1
                k = int(ix[1:])
                labs = dominating_edge_labels(cfg, b, ev, bi)
                R.check(k == 0 or ("LT[Vec::len(%s),K%d]=0" % (base, k + 1)) in labs, "session:word:%d:%d" % (k, n_w), "word %d of the command line is read only when the line has more than %d word(s) (split always yields the first)" % (k, k), t["span"]["at"])
    R.floor("word_reads", n_w, 2, "reads of a word of the command line")
    # 4. break N toggles N
    tog = {}
    for bi, t in b.calls():
        n = callee_name(t["f"], fb)
        if n in ("std::collections::HashSet::insert", "std::collections::HashSet::remove") and roles.of_operand(t["args"][0], bi) == "BPS":
            v = roles.of_operand(t["args"][1], bi)
            if v == "K0":
                continue
            labs = [l for l in dominating_edge_labels(cfg, b, ev, bi) if l.startswith("BR[HashSet::contains(BPS,")]
            tog.setdefault(n.rsplit("::", 1)[-1], []).append((v, labs))
    ok = len(tog.get("insert", [])) == 1 and len(tog.get("remove", [])) == 1
    if ok:
        (vi, li), (vr, lr) = tog["insert"][0], tog["remove"][0]
        ok = vi == vr and li == ["BR[HashSet::contains(BPS,%s)]=0" % vi] and lr == ["BR[HashSet::contains(BPS,%s)]=1" % vi]
    R.check(ok, "session:bp_toggle", "`break N` sets the breakpoint N when it is not set and removes it when it is: %s" % {k: [(v[:30], [x[-12:] for x in l]) for v, l in vs] for k, vs in tog.items()}, b.span)


RULES.append(("C11.SESSION", "the session around the steps: program logged before the first step, bound test after every step, words read behind the word-count test, `break N` toggles N", rule_session))


def _codeapi(ctx, R):
    from . import p_c01
    return p_c01.rule_codeapi(ctx, R)


RULES.append(("C11.CODEAPI", "the words kind / syllable count / dot count / area count / area mean the fields of the command record: getters and constructors of UnOptCode and OptCode (shared with C01.CODEAPI)", _codeapi))


def _clones(ctx, R):
    from . import p_c01
    return p_c01.rule_clones(ctx, R)


RULES.append(("C11.CLONE", "snapshots and copies are complete: Clone of states, commands, areas and numbers copies every field (shared with C01.CLONE)", _clones))


# rules of other properties re-run under this property's name; resolved by rules/main.py (see rules/share.py)
DEFERRED_BUNDLES = [
    {'prop': 'C11', 'tag': 'INT', 'module': 'p_c05', 'only': ('CTOR', 'DIVLESS', 'LIMBS', 'NORMALISE', 'CONSTS'), 'skip': (), 'why': 'the audited panic sites of the numeric core (NUMERIC table: limb vectors are never empty, result vectors are long enough) rest on the lengths these rules decide'},
]
