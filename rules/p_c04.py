"""C04 — parsing is total and yields exactly the commands the grammar defines (structural clauses)."""
from .audit import sites, auto_justify
from .cfg import CFG
from .facts import callee_name
from .interp import Events, normal_cfg
from .lang import Roles
from .origin import Origins, show, walk
from .util import Vars, reaches_without

TECHNIQUE = 'static analysis: typestate may-analysis over all paths of the parser; dominance/cut queries; decision tables of tree-construction effects over path-precise origins; literal-table agreement; panic-site audit'
LEVEL = "other"
EXPLANATION = (
    "All-paths analysis of parse::parse: (RESET) a forward may-analysis over the typestate {Reset, Built} of the two "
    "partially built area trees shows that both are Reset at every command start on every path (so text before the "
    "first command or between commands cannot leak into a command); (GROUP) the fields of the pending command "
    "(kind, counts, location, raw text) are (re)assigned only as part of an accepted command start: from any "
    "assignment of the location no path returns to the loop head without the start being completed, and start "
    "syllables without a later end syllable are skipped before anything is assigned; (DEFS) dot counting (1 for '.', 3 "
    "for the ellipses, only before the area began), line/column tracking and the location expression have their "
    "defining shape, and the pre-pass and the main pass index characters the same way; (FIRSTHEART) a heart is stored "
    "into an operator's right slot only when that slot is empty; (TABLES) the literal tables agree with each other and "
    "with the byte-offset arithmetic (all table characters 3 bytes); (TOTAL) no panic-capable site in the parser "
    "outside an audited table; (TREE) the right-nested construction of the area tree is decided handler by handler: for "
    "`?`, `!`, a heart and the two places where a finished command is stored, the set of (guards, effects) over all "
    "acyclic paths - which slot or tree is written with which node, where each cursor points afterwards - equals the "
    "decision table of the grammar (path-precise origins; effects compared as sets). NOT decided: that these per-step "
    "tables compose to the grammar's tree for every character sequence (an induction over the input that is argued in "
    "DESIGN.md, not mechanised)."
)
ASSUMPTIONS = ["rustc MIR (nightly 1.97, mir-opt-level=0); unwind edges ignored", "std str::find/chars/enumerate/position behave as documented", "audited panic sites: justifications in rules/p_c04.py AUDITED"]
TRUSTED = ["rustc nightly MIR", "/verif/rules A-DOM/A-ORG/A-AUD"]

PARSE = "hyeong::core::parse::parse"
NEW = "core::code::UnOptCode::new"
AREA_TY = "core::area::Area"


class ParserModel:
    """semantic anchors of the parser: variables by the argument position at which they reach UnOptCode::new"""

    def __init__(self, fb):
        self.fb = fb
        self.b = fb.bodies.get(PARSE)
        self.ok = False
        if self.b is None:
            return
        b = self.b
        self.cfg = normal_cfg(b)
        self.vars = Vars(b)
        self.org = Origins(b, fb)
        self.roles = Roles(b, fb, param_roles={1: "CODE"})
        news = [(bi, t) for bi, t in b.calls() if callee_name(t["f"], fb) == NEW]
        self.news = news
        if len(news) < 2:
            return
        keys = []
        for bi, t in news:
            keys.append([self.vars.root_key(a) for a in t["args"]])
        self.kind, self.hangul, self.dot, self.loc, _, self.raw = keys[0]
        self.new_keys = keys
        if any(k is None for k in (self.kind, self.hangul, self.dot, self.loc, self.raw)):
            return
        # area trees: named Area-typed locals with a Nil assignment
        self.trees = []
        for l, ds in self.vars.defs.items():
            if b.lty(l) == AREA_TY and l in b.local_names() and len(ds) >= 2:
                if any(d[0] == "assign" and d[3]["r"]["k"] == "agg" and d[3]["r"].get("variant") == "Nil" for d in ds):
                    self.trees.append(l)
        # main loop: the loop that contains the in-loop UnOptCode::new
        self.head = None
        for be in self.cfg.back_edges():
            loop = set()
            for e in self.cfg.back_edges():
                if e[1] == be[1]:
                    loop |= self.cfg.natural_loop(e)
            if any(bi in loop for bi, _ in news):
                self.head, self.loop = be[1], loop
        # command start: hangul := const 1
        self.start = None
        for d in self.vars.defs.get(self.hangul[1], []):
            if d[0] == "assign" and d[3]["r"]["k"] == "use" and d[3]["r"]["x"].get("int") == "1" and d[1] in (self.loop or ()):
                self.start = (d[1], d[2])
        self.ok = self.head is not None and self.start is not None and len(self.trees) == 2


def rule_reset(ctx, R):
    fb = ctx.fb
    M = ParserModel(fb)
    if not R.anchor(M.b is not None and M.ok, "parser_model", "parse(): command variables (by UnOptCode::new argument position), the two area trees, the main loop, the command start"):
        return
    b = M.b
    R.analyse(b.name)
    trees = M.trees
    ptr_tys = ("&mut core::area::Area", "&mut std::boxed::Box<core::area::Area>")

    def effect(s, pos=None):
        """per tree: 'reset' / 'build' / None for one statement"""
        if s["k"] != "assign":
            return {}
        p = s["p"]
        r = s["r"]
        if not p["proj"] and p["l"] in trees:
            o = M.org.of_rvalue(r, *pos) if pos else None
            if (r["k"] == "agg" and r.get("variant") == "Nil") or (o is not None and o[0] == "agg" and o[1].endswith("Area::Nil")):
                return {p["l"]: "reset"}
            return {p["l"]: "build"}
        if "deref" in p["proj"] and b.lty(p["l"]).startswith("&mut") and "Area" in b.lty(p["l"]):
            # store through a cursor: which tree it points into is not tracked -> both
            return {t: "build" for t in trees}
        return {}

    # forward may-analysis at statement granularity
    IN = {i: None for i in range(len(b.blocks))}
    IN[0] = {t: frozenset(["Reset"]) for t in trees}
    work = [0]
    at_start = None
    while work:
        bi = work.pop()
        st = dict(IN[bi])
        blk = b.blocks[bi]
        for si, s in enumerate(blk["stmts"]):
            if (bi, si) == M.start:
                at_start = dict(st) if at_start is None else {t: at_start[t] | st[t] for t in trees}
            for t, e in effect(s, (bi, si)).items():
                st[t] = frozenset(["Reset"]) if e == "reset" else frozenset(["Built"])
        term = blk["term"]
        # moving a tree into UnOptCode::new leaves it moved-out: treat as Built until reset
        for s2 in M.cfg.succ[bi]:
            old = IN[s2]
            new = st if old is None else {t: old[t] | st[t] for t in trees}
            if new != old:
                IN[s2] = new
                work.append(s2)
    where = b.blocks[M.start[0]]["stmts"][M.start[1]]["span"]["at"]
    if R.anchor(at_start is not None, "start_reached", "command start reachable"):
        for t in trees:
            R.check(at_start[t] == frozenset(["Reset"]), "parse:reset:%s" % ("tree%d" % trees.index(t)), "area tree %r is Reset at every command start on every path (states: %s)" % (b.lname(t), sorted(at_start[t])), where)
    # the cursors are re-pointed to the trees as part of the same reset (a stale cursor would write into the flushed command)
    n_resets = sum(1 for bi, blk in enumerate(b.blocks) for si, s in enumerate(blk["stmts"]) if list(effect(s, (bi, si)).values()) == ["reset"])
    R.floor("reset_statements", n_resets, 4, "assignments of Area::Nil to the trees")


def rule_group(ctx, R):
    fb = ctx.fb
    M = ParserModel(fb)
    if not R.anchor(M.b is not None and M.ok, "parser_model", "parser anchors"):
        return
    b, cfg, vars_ = M.b, M.cfg, M.vars
    R.analyse(b.name)
    sb = M.start[0]
    for nm, key in (("kind", M.kind), ("location", M.loc), ("raw text", M.raw), ("dot count", M.dot)):
        for (db, di) in vars_.def_sites(key):
            if db not in M.loop or (db, di) == M.start:
                continue
            s = b.blocks[db]["stmts"][di] if di != "t" else b.blocks[db]["term"]
            # definitions in the syllable-counting state (kind := 0..5 on an end syllable, dot := 0) are not starts
            if nm in ("kind", "dot count"):
                o = M.org.of_rvalue(s["r"], db, di) if di != "t" else None
                if nm == "kind" and o is not None and not any(isinstance(x, tuple) and x[0] == "call" and "find" in x[1] and "혀하흐" in str(x) for x in walk(o)):
                    continue
                if nm == "dot count":
                    continue
            if nm == "raw text" and di == "t" and callee_name(s["f"], fb) != "alloc::string::ToString::to_string" and not callee_name(s["f"], fb).endswith("to_string"):
                continue
            # from this definition, the loop head cannot be reached again without completing the start
            ok = db == sb or not reaches_without(cfg, [M.head], db, cut_blocks=[sb]) or not reaches_without(cfg, cfg.succ[db], M.head, cut_blocks=[sb])
            R.check(ok, "parse:group:%s" % nm, "the pending command's %s is assigned only as part of an accepted command start (no path back to the loop head that skips the start)" % nm, s["span"]["at"])
    # an accepted command start (re)initialises every field of the pending command: from the start, no path reaches
    # the loop head again without assigning kind, dot count, location and raw text
    for nm, key in (("kind", M.kind), ("dot count", M.dot), ("location", M.loc), ("raw text", M.raw)):
        dblocks = [db for (db, di) in vars_.def_sites(key) if db in M.loop]
        # (the assignments of one start may stand before or after the statement that marks it: a whole iteration
        # that passes the start passes the assignment)
        after = sb in dblocks or not reaches_without(cfg, cfg.succ[sb], M.head, cut_blocks=dblocks)
        before = sb in dblocks or not reaches_without(cfg, cfg.succ[M.head] if M.head not in dblocks else [], sb, cut_blocks=dblocks)
        R.check(bool(dblocks) and (after or before), "parse:start:resets:%s" % nm.replace(" ", "_"), "every accepted command start assigns the pending command's %s before the next character is read (no value of the previous command or of ignored text survives)" % nm, b.blocks[sb]["stmts"][M.start[1]]["span"]["at"])
    from .util import check_whole_loops
    check_whole_loops(R, "parse:total:whole_text", b, cfg, "the parser reads the whole text: an ignored character continues with the next one")
    # every place that stores a finished command hands over the same variables in the same positions
    k0 = M.new_keys[0]
    for k_, ks in enumerate(M.new_keys[1:], 1):
        same = [i for i in (0, 1, 2, 3, 5) if ks[i] == k0[i]]
        R.check(len(same) == 5, "parse:flush:fields:%d" % k_, "the store after the last character passes kind, syllable count, dot count, location and source text like the store inside the loop (positions that agree: %s of [0, 1, 2, 3, 5]; variables %s)" % (same, [vars_.name(k) for k in ks]), M.news[k_][1]["span"]["at"])
    # a finished command is stored exactly when one is pending: "nothing pending" is the value the kind variable has
    # before the first start (not a kind); every store site lies behind the test against it and cannot be bypassed
    outs = [d for d in vars_.defs.get(M.kind[1], []) if d[1] not in M.loop]
    sent = None
    if len(outs) == 1 and outs[0][0] == "assign" and outs[0][3]["r"]["k"] == "use" and "int" in outs[0][3]["r"]["x"]:
        sent = int(outs[0][3]["r"]["x"]["int"])
    if R.anchor(sent is not None, "pending_sentinel", "the constant the kind variable holds before the first command starts"):
        R.check(sent > 8, "parse:pending:sentinel", "the 'nothing pending' marker (%d) is not a command kind (0..5 finished, 6..8 unfinished)" % sent, outs[0][3]["span"]["at"])
        rk = Roles(b, fb, param_roles={1: "CODE"}, overrides={M.kind[1]: "KIND"})
        evk = Events(b, fb, roles=rk)
        pend = []
        for gb, blk in enumerate(b.blocks):
            tt = blk["term"]
            if tt["k"] == "switch" and not blk["cleanup"]:
                for sx in cfg.succ[gb]:
                    lab = evk.generic_edge(gb, tt, sx) or ""
                    if lab in ("EQ[K%d,KIND]=0" % sent, "EQ[KIND,K%d]=0" % sent, "NE[K%d,KIND]=1" % sent, "NE[KIND,K%d]=1" % sent):
                        pend.append((gb, sx))
        for k_, (nb, nt) in enumerate(M.news):
            doms = [(gb, sx) for gb, sx in pend if not reaches_without(cfg, [0], nb, cut_edges=[(gb, sx)])]
            stop = [M.head] + list(cfg.returns) if nb in M.loop else list(cfg.returns)
            ok = len(doms) >= 1 and all(not reaches_without(cfg, [sx], [x for x in stop if x != nb], cut_blocks=[nb]) for gb, sx in doms[-1:])
            R.check(ok, "parse:flush:iff:%d" % k_, "a finished command is stored exactly when a command is pending (the store lies behind the test kind != %d and on every path from it)" % sent, nt["span"]["at"])
    # the skip test for start syllables without a later end syllable precedes every such assignment:
    # find the `continue` edge of the comparison max_pos[..] <= i
    found = False
    for bi in M.loop:
        t = b.blocks[bi]["term"]
        if t["k"] == "switch" and t["xty"] == "bool":
            o = M.org.of_operand(t["x"], bi, "t")
            if o[0] == "bin" and o[1] in ("Le", "Lt", "Ge", "Gt") and any(isinstance(x, tuple) and x[0] == "index" for x in walk(o)):
                found = True
                # the outcome  max_pos <= i  must lead back to the loop head without touching the command fields
                r = M.roles.of_origin(o)
                sides = [M.roles.of_origin(o[2]), M.roles.of_origin(o[3])]
                R.check("ELEM<ENUMERATE(CHARS(CODE))>.0" in sides, "parse:skip:index", "the skip test compares the recorded last end-syllable position with the current character index: %s" % r[:160], t["span"]["at"])
    R.anchor(found, "skip_test", "comparison of max_pos[class] with the current index")


def _same_straight_line(cfg, a, b_):
    x = a
    for _ in range(50):
        if x == b_:
            return True
        ss = cfg.succ[x]
        if len(ss) != 1:
            return False
        x = ss[0]
    return False


def _state0_edges(M):
    """edges of the main loop on which the parser state is known to be 0 (before the area part): `state == 0` taken,
    or `state != 0` not taken, with the state variable named by the role STATE"""
    T = TreeModel(M)
    if not T.ok or T.state is None:
        return []
    b, fb, cfg = M.b, M.fb, M.cfg
    rs = Roles(b, fb, param_roles={1: "CODE"}, overrides={T.state: "STATE"})
    evs = Events(b, fb, roles=rs)
    out = []
    for gb in M.loop:
        tt = b.blocks[gb]["term"]
        if tt["k"] == "switch":
            for sx in cfg.succ[gb]:
                lab = evs.generic_edge(gb, tt, sx) or ""
                if lab in ("EQ[K0,STATE]=1", "EQ[STATE,K0]=1", "NE[K0,STATE]=0", "NE[STATE,K0]=0", "SW[STATE]=0", "LT[STATE,K1]=1"):
                    out.append((gb, sx))
    return out


def rule_defs(ctx, R):
    fb = ctx.fb
    M = ParserModel(fb)
    if not R.anchor(M.b is not None and M.ok, "parser_model", "parser anchors"):
        return
    b, cfg, vars_, org, roles = M.b, M.cfg, M.vars, M.org, M.roles
    R.analyse(b.name)
    ev = Events(b, fb, roles=roles)
    st0 = _state0_edges(M)
    I = "ELEM<ENUMERATE(CHARS(CODE))>.0"
    Cc = "ELEM<ENUMERATE(CHARS(CODE))>.1"
    # both passes iterate chars().enumerate() of the input
    iters = [(bi, roles.of_operand(t["args"][0], bi)) for bi, t in b.calls() if callee_name(t["f"], fb) == "core::iter::traits::collect::IntoIterator::into_iter"]
    R.check(len(iters) >= 2 and all(r == "ENUMERATE(CHARS(CODE))" for _, r in iters), "parse:index_kind", "the pre-pass and the main pass both index the text by character position (chars().enumerate()): %s" % [r for _, r in iters])
    # dot counting
    for (db, di) in vars_.def_sites(M.dot):
        if di == "t":
            continue
        s = b.blocks[db]["stmts"][di]
        o = org.of_rvalue(s["r"], db, di)
        r = roles.of_origin(o)
        if o[0] == "const":
            R.check(o[2] == 0, "parse:dot:init", "dot count is only ever reset to 0", s["span"]["at"])
        else:
            ok = o[0] == "bin" and o[1] == "Add" and roles.of_origin(o[3]) in ("PHI(K1|K3)", "PHI(K3|K1)")
            R.check(ok, "parse:dot:step", "a dot character adds 1 ('.') or 3 (ellipsis) to the dot count: %s" % r[:100], s["span"]["at"])
            # guarded by state == 0 : the increment is reachable only through an edge EQ[state,0]=1
            guards = []
            for gb in M.loop:
                tt = b.blocks[gb]["term"]
                if tt["k"] == "switch":
                    for sx in cfg.succ[gb]:
                        lab = ev.generic_edge(gb, tt, sx)
                        if lab and lab.startswith("EQ[K0,") and lab.endswith("=1") and "LOOPVAR" in lab or (lab and lab.startswith("EQ[K0,PHI(") and lab.endswith("=1")):
                            guards.append((gb, sx))
            guards = sorted(set(guards) | set(st0))
            ok2 = bool(guards) and not reaches_without(cfg, [M.head], db, cut_edges=guards)
            R.check(ok2, "parse:dot:state0", "dots are counted only before the area part began (parser state 0)", s["span"]["at"])
    # ... and they are counted: the increment exists and cannot be bypassed once state 0 was established on a dot character
    adds_ = []
    for (db, di) in vars_.def_sites(M.dot):
        if di != "t":
            o = org.of_rvalue(b.blocks[db]["stmts"][di]["r"], db, di)
            if o[0] == "bin" and o[1] == "Add":
                adds_.append(db)
    g0 = []
    for gb in M.loop:
        tt = b.blocks[gb]["term"]
        if tt["k"] == "switch":
            for sx in cfg.succ[gb]:
                lab = ev.generic_edge(gb, tt, sx)
                if lab and lab.startswith("EQ[K0,") and lab.endswith("=1") and ("LOOPVAR" in lab or lab.startswith("EQ[K0,PHI(")) and any(reaches_without(cfg, [sx], a, cut_blocks=[M.head]) for a in adds_):
                    g0.append(sx)
    g0 = sorted(set(g0) | {sx for gb, sx in st0 if any(reaches_without(cfg, [sx], a, cut_blocks=[M.head]) for a in adds_)})
    outside_ = [x for x in range(len(b.blocks)) if x not in M.loop]
    R.check(len(adds_) == 1 and bool(g0) and not reaches_without(cfg, g0, [M.head], cut_blocks=adds_ + outside_), "parse:dot:counted", "every dot character met before the area part is counted (the increment exists and lies on every path from the state-0 test back to the loop head): %d increment(s), %d test edge(s)" % (len(adds_), len(g0)), b.blocks[adds_[0]]["stmts"][0]["span"]["at"] if adds_ and b.blocks[adds_[0]]["stmts"] else b.span)
    # syllable counting: inside the syllable part every Hangul syllable adds exactly one
    for (db, di) in vars_.def_sites(M.hangul):
        if di == "t" or db not in M.loop or (db, di) == M.start:
            continue
        s_ = b.blocks[db]["stmts"][di]
        r_ = roles.of_origin(org.of_rvalue(s_["r"], db, di))
        guards_ = []
        for gb in M.loop:
            tt = b.blocks[gb]["term"]
            if tt["k"] == "switch":
                for sx in cfg.succ[gb]:
                    lab = ev.generic_edge(gb, tt, sx)
                    if lab and lab.startswith("BR[parse::is_hangul_syllable(") and lab.endswith("=1"):
                        guards_.append((gb, sx))
        R.check(r_.endswith(" Add K1)") and "LOOPVAR" in r_ and bool(guards_) and not reaches_without(cfg, [M.head], db, cut_edges=guards_), "parse:syllables:step", "the syllable count grows by exactly one, and only for a Hangul syllable: %s" % r_[:80], s_["span"]["at"])
    # which constant goes with '.'
    for bi in M.loop:
        for si, s in enumerate(b.blocks[bi]["stmts"]):
            if s["k"] == "assign" and s["r"]["k"] == "use" and s["r"]["x"].get("int") in ("1", "3") and s["r"]["x"].get("ty") == "usize" and not s["p"]["proj"]:
                # is this temp the dot increment? it must feed an Add into dot
                uses = [d for d in vars_.def_sites(M.dot)]
                tmp = s["p"]["l"]
                feeds = False
                for (db, di) in uses:
                    if di != "t":
                        o = org.of_rvalue(b.blocks[db]["stmts"][di]["r"], db, di)
                        if o[0] == "bin" and o[1] == "Add" and o[3][0] == "phi":
                            feeds = True
                if not feeds or len(vars_.defs.get(tmp, [])) != 2:
                    continue
                val = int(s["r"]["x"]["int"])
                # edge label leading here
                labs = []
                for gb in cfg.pred[bi]:
                    tt = b.blocks[gb]["term"]
                    lab = ev.generic_edge(gb, tt, bi)
                    if lab:
                        labs.append(lab)
                want = "EQ[%s,K46]=%d" % (Cc, 1 if val == 1 else 0)
                R.check(want in labs, "parse:dot:value%d" % val, "the increment %d is chosen exactly when the character %s '.'" % (val, "is" if val == 1 else "is not"), s["span"]["at"], labs)
    # location expression
    for (db, di) in vars_.def_sites(M.loc):
        if db not in M.loop or di == "t":
            continue
        s = b.blocks[db]["stmts"][di]
        o = org.of_rvalue(s["r"], db, di)
        ok = o[0] == "agg" and o[1] == "tuple" and len(o[2]) == 2
        if ok:
            line, col = o[2]
            rl, rc = roles.of_origin(line), roles.of_origin(col)
            ok = rl.endswith(" Add K1)") and rc.startswith("(%s Sub " % I)
            R.check(ok, "parse:loc:expr", "location = (lines seen + 1, current index - index where the line started): (%s, %s)" % (rl[:80], rc[:120]), s["span"]["at"])
            # line start variable: defs are 0 and i+1 under c == '\\n'
            lk = vars_.key_of_operand({"k": "copy", "p": {"l": 0, "proj": []}})
    # newline handling: the two updates happen exactly on '\n'
    nl_edges = []
    for gb in M.loop:
        tt = b.blocks[gb]["term"]
        if tt["k"] == "switch":
            for sx in cfg.succ[gb]:
                if ev.generic_edge(gb, tt, sx) == "EQ[%s,K10]=1" % Cc:
                    nl_edges.append((gb, sx))
    if R.anchor(len(nl_edges) == 1, "newline_edge", "test c == '\\n'"):
        tgt = nl_edges[0][1]
        stmts = [s for s in b.blocks[tgt]["stmts"] if s["k"] == "assign" and not s["p"]["proj"]]
        incs = [roles.of_origin(org.of_rvalue(s["r"], tgt, b.blocks[tgt]["stmts"].index(s))) for s in stmts]
        # collect along the straight line until the continue
        seen = []
        x = tgt
        for _ in range(8):
            for si, s in enumerate(b.blocks[x]["stmts"]):
                if s["k"] == "assign" and not s["p"]["proj"] and s["p"]["l"] in b.local_names():
                    seen.append((b.lname(s["p"]["l"]), roles.of_origin(org.of_rvalue(s["r"], x, si))))
            ss = cfg.succ[x]
            if len(ss) != 1 or ss[0] == M.head:
                break
            x = ss[0]
        vals = [v for _, v in seen]
        R.check(any(v == "(%s Add K1)" % I for v in vals) and any(v.endswith(" Add K1)") and I not in v for v in vals), "parse:newline:updates", "on a line feed the line counter is incremented and the line start becomes the next index: %s" % vals, b.blocks[tgt]["term"]["span"]["at"])
        # ... and only there: every definition, inside the loop, of the line counter and of the line-start index
        # is reachable only through the line-feed edge
        tracked = {}
        for l, ds in vars_.defs.items():
            if b.lty(l) != "usize" or l not in b.local_names():
                continue
            for d in ds:
                if d[0] == "assign" and d[1] in M.loop:
                    v = roles.of_origin(org.of_rvalue(d[3]["r"], d[1], d[2]))
                    if v == "(%s Add K1)" % I:
                        tracked.setdefault(l, "line start")
                    elif v.endswith(" Add K1)") and I not in v and "LOOPVAR" in v and l != M.hangul[1] and ("L", l) not in (M.dot, M.hangul, M.kind):
                        tracked.setdefault(l, "line count")
        if R.anchor(sorted(tracked.values()) == ["line count", "line start"], "newline_vars", "the line counter and the line-start index (found %s)" % sorted(tracked.values())):
            for l, what in sorted(tracked.items()):
                init = [roles.of_origin(org.of_rvalue(d[3]["r"], d[1], d[2])) for d in vars_.defs.get(l, []) if d[0] == "assign" and d[1] not in M.loop]
                R.check(init == ["K0"], "parse:newline:init:%s" % what.replace(" ", "_"), "the %s starts at 0 (the first line is reported as 1, its first character as column 0): %s" % (what, init))
            for l, what in sorted(tracked.items()):
                for d in vars_.defs.get(l, []):
                    if d[1] in M.loop:
                        R.check(not reaches_without(cfg, [M.head], d[1], cut_edges=nl_edges), "parse:newline:only:%s" % what.replace(" ", "_"), "the %s changes only on a line feed" % what, (d[3].get("span") or {}).get("at"))


def rule_firstheart(ctx, R):
    fb = ctx.fb
    M = ParserModel(fb)
    if not R.anchor(M.b is not None and M.ok, "parser_model", "parser anchors"):
        return
    b, cfg, org = M.b, M.cfg, M.org
    R.analyse(b.name)
    n = 0
    for bi, blk in enumerate(b.blocks):
        if blk["cleanup"]:
            continue
        for si, s in enumerate(blk["stmts"]):
            if s["k"] != "assign" or "deref" not in s["p"]["proj"]:
                continue
            if b.lty(s["p"]["l"]) != "&mut std::boxed::Box<core::area::Area>":
                continue
            val = org.of_rvalue(s["r"], bi, si)
            is_leaf = val[0] == "call" and val[1].endswith("Box::new") and val[2] and val[2][0][0] == "call" and val[2][0][1] == "core::area::Area::new"
            if not (is_leaf and any(isinstance(x, tuple) and x[0] == "call" and x[1].endswith("Iterator::position") for x in walk(val))):
                continue  # not a heart leaf
            n += 1
            # dominated by an edge  discriminant(**right) == Nil
            guards = []
            for gb, gblk in enumerate(b.blocks):
                tt = gblk["term"]
                if tt["k"] == "switch" and tt["xty"] == "isize":
                    o = org.of_operand(tt["x"], gb, "t")
                    if o[0] == "discr" and any(isinstance(x, tuple) and x[0] == "field" and x[1] == "right" for x in walk(o)):
                        for v, tg in tt["arms"]:
                            if v == "1":
                                guards.append((gb, tg))
                        if "1" not in [v for v, _ in tt["arms"]] and [v for v, _ in tt["arms"]] == ["0"]:
                            guards.append((gb, tt["otherwise"]))
            ok = bool(guards) and not reaches_without(cfg, [0], bi, cut_edges=guards)
            if bool(guards) and not ok:
                # the emptiness test may be folded into a flag (`cond && matches!(slot, Nil)`): follow the paths of
                # one iteration with path-precise values and drop those that test the flag against its own value
                from .paths import acyclic_paths, PathOriginsOv
                gset = set(guards)
                ok = True
                try:
                    for p_ in acyclic_paths(cfg, M.head, [bi], 6000):
                        if any((p_[i], p_[i + 1]) in gset for i in range(len(p_) - 1)):
                            continue
                        org_ = PathOriginsOv(b, fb, p_)
                        feasible = True
                        for i in range(len(p_) - 1):
                            t_ = b.blocks[p_[i]]["term"]
                            if t_["k"] == "switch" and t_.get("xty") == "bool":
                                o_ = org_.of_operand(t_["x"], p_[i], "t")
                                if o_[0] == "const" and isinstance(o_[2], (int, bool)):
                                    w_ = [bb for v_, bb in t_["arms"] if int(v_) == int(o_[2])]
                                    w_ = w_[0] if w_ else t_["otherwise"]
                                    if p_[i + 1] != w_:
                                        feasible = False
                                        break
                        if feasible:
                            ok = False
                            break
                except RuntimeError:
                    ok = False
            R.check(ok, "parse:firstheart:%d" % n, "a heart is stored into an operator's right slot only when that slot is still empty (first heart of a slot wins)", s["span"]["at"])
    R.floor("heart_slot_stores", n, 1, "stores of a heart leaf into a right slot")


# audited panic-capable sites of the parser (confirmed by reading; keyed without line numbers)
AUDITED = {
    (PARSE, "Overflow(Sub):(SOME(str::find(K'형항핫흣흡흑혀하흐',ELEM<ENUMERATE(CHARS(P1))>.1)) Div K3),K6"): "t - 6 is evaluated only after t >= 6 (short-circuit &&); checked: dominated by that edge",
    (PARSE, "BoundsCheck:K3,((SOME(str::find(K'형항핫흣흡흑혀하흐',ELEM<ENUMERATE(CHARS(P1))>.1)) Div K3...#ec855c"): "max_pos has 3 entries; t = byte offset / 3 of a 9-character table of 3-byte characters, so 6 <= t <= 8 here (C04.TABLES checks the table)",
    (PARSE, "Overflow(Sub):ELEM<ENUMERATE(CHARS(P1))>.0,PHI((ELEM<ENUMERATE(CHARS(P1))>.0 Add K1)|K0)"): "i - last_line_started: last_line_started is 0 or (index of an earlier line feed) + 1, hence <= i",
}


def rule_total(ctx, R):
    fb = ctx.fb
    cg = ctx.cg
    reach = sorted(n for n in cg.reachable([PARSE]) if not n.startswith("<") or True)
    n_sites = 0
    for name in reach:
        body = fb.bodies[name]
        R.analyse(name)
        for s in sites(body, fb):
            n_sites += 1
            why = auto_justify(s) or AUDITED.get((name, s["key"]))
            if why is None and name.startswith("number::"):
                why = None
            R.check(why is not None, "total:%s:%s" % (name, s["key"]), "panic-capable site %s in %s: %s" % (s["key"][:90], name.rsplit("::", 1)[-1], why or "NOT in the audited table"), s["where"])
            if (name, s["key"]) in AUDITED and s["key"].startswith("Overflow(Sub):(SOME(str::find"):
                # verify the stated guard: reachable only through t >= 6
                b = body
                cfg = normal_cfg(b)
                ev = Events(b, fb, roles=Roles(b, fb, param_roles={1: "P1"}))
                guards = []
                for gb, gblk in enumerate(b.blocks):
                    tt = gblk["term"]
                    if tt["k"] == "switch":
                        for sx in cfg.succ[gb]:
                            lab = ev.generic_edge(gb, tt, sx)
                            if lab and lab.startswith("LT[") and lab.endswith(",K6]=0"):
                                guards.append((gb, sx))
                R.check(bool(guards) and not reaches_without(cfg, [0], s["block"], cut_edges=guards), "total:guard:t>=6", "the subtraction t - 6 is reached only after the test t >= 6", s["where"])
    R.floor("parser_panic_sites", n_sites, 15, "panic-capable sites enumerated in the parser")
    # no process termination / unwrap in the parser
    bad = [s for name in reach for s in sites(fb.bodies[name], fb) if s["kind"] in ("terminate", "panic", "unwrap(Option)", "unwrap(Result)", "expect(Option)", "expect(Result)")]
    R.check(not bad, "total:no_unwrap", "the parser contains no unwrap/expect/panic!/process::exit", None, [s["key"] for s in bad])


def rule_tables(ctx, R):
    # the pre-pass files the last position of every end syllable under the class of its start syllable:
    # 엉 -> 혀 (0), 앙 앗 -> 하 (1), 읏 읍 윽 -> 흐 (2)
    pb0 = ctx.fb.bodies.get(PARSE)
    if pb0 is not None:
        from .paths import acyclic_paths as _ap, PathOriginsOv as _PO, simplify as _simp
        cfg0 = normal_cfg(pb0)
        stores = []
        for bi_, blk_ in enumerate(pb0.blocks):
            for si_, st_ in enumerate(blk_["stmts"]):
                if st_["k"] == "assign" and any(isinstance(e, dict) and "i" in e for e in st_["p"]["proj"]) and pb0.lty(st_["p"]["l"]).startswith("[usize; 3]"):
                    stores.append((bi_, si_, [e["i"] for e in st_["p"]["proj"] if isinstance(e, dict) and "i" in e][0]))
        if R.anchor(len(stores) == 1, "prepass_store", "the store into the table of last end-syllable positions"):
            sb_, ss_, il_ = stores[0]
            loops0 = {}
            for be in cfg0.back_edges():
                loops0.setdefault(be[1], set()).update(cfg0.natural_loop(be))
            lp = min((bl for h, bl in loops0.items() if sb_ in bl), key=len)
            h0 = [h for h, bl in loops0.items() if bl is lp][0]
            got_c = {}
            for ch in "엉앙앗읏읍윽":
                vals = set()
                for p_ in _ap(cfg0, h0, [sb_], 2000):
                    if any(x not in lp for x in p_):
                        continue
                    org_ = _PO(pb0, ctx.fb, p_)
                    r_ = Roles(pb0, ctx.fb, param_roles={1: "CODE"}, org=org_)
                    env = {"kind": 10, "ch": ch}
                    ok_ = True
                    for i_, b2 in enumerate(p_[:-1]):
                        t_ = pb0.blocks[b2]["term"]
                        if t_["k"] != "switch":
                            continue
                        try:
                            v_ = _syl_eval(_simp(org_.of_operand(t_["x"], b2, "t")), env, r_)
                        except _SylUnknown:
                            continue
                        v_ = int(v_) if isinstance(v_, bool) else v_
                        if not isinstance(v_, int):
                            continue
                        tk_ = None
                        for a_, bb_ in t_["arms"]:
                            if int(a_) == v_:
                                tk_ = bb_
                        if tk_ is None:
                            tk_ = t_["otherwise"]
                        if tk_ != p_[i_ + 1]:
                            ok_ = False
                            break
                    if ok_:
                        try:
                            vals.add(int(_syl_eval(_simp(org_.of_local(il_, sb_, ss_)), env, r_)))
                        except _SylUnknown as e_:
                            vals.add("unknown: %s" % e_)
                got_c[ch] = sorted(vals, key=str)
            want_c = {"엉": [0], "앙": [1], "앗": [1], "읏": [2], "읍": [2], "윽": [2]}
            R.check(got_c == want_c, "tables:end_classes", "each end syllable is recorded under the class of its start syllable (엉:0, 앙 앗:1, 읏 읍 윽:2): %s" % got_c, pb0.span)
    # a heart is recognised by equality with an entry of the heart table (the lookup closure compares, nothing else)
    pb_ = ctx.fb.bodies.get(PARSE)
    if pb_ is not None:
        pos_clos = []
        for c_ in ctx.fb.closures_of(pb_):
            cr_ = Roles(c_, ctx.fb, param_roles={i: "P%d" % i for i in range(1, c_.argc + 1)})
            cc_ = normal_cfg(c_)
            rets_ = sorted({cr_.of_origin(cr_.org.of_place({"l": 0, "proj": []}, r_, "t")) for r_ in cc_.returns})
            pos_clos.append(rets_)
        R.check(pos_clos == [["(P2 Eq UPVAR:c)"]] or pos_clos == [["(UPVAR:c Eq P2)"]], "tables:heart_lookup", "the heart lookup compares each table entry with the current character for equality: %s" % pos_clos, pb_.span)
    # the Hangul syllable block: exactly U+AC00 ..= U+D7A3 (filler syllables are counted and kept in the raw text;
    # anything else, including the Jamo Extended-B block right behind it, is not a syllable)
    from . import evalo
    hb = ctx.fb.bodies.get("hyeong::core::parse::is_hangul_syllable")
    if R.anchor(hb is not None, "is_hangul_syllable", "parse::is_hangul_syllable"):
        R.analyse(hb.name)
        probes = {0x61: 0, 0x3131: 0, 0x1100: 0, 0xABFF: 0, 0xAC00: 1, 0xAC01: 1, 0xC5B4: 1, 0xD7A3: 1, 0xD7A4: 0, 0xD7B0: 0, 0xD7FF: 0, 0xE000: 0, 0x1F495: 0, 0x10FFFF: 0}
        got = {}
        for cp in probes:
            try:
                got[cp] = int(evalo.decide(hb, ctx.fb, [(lambda o: o == ("arg", 1), cp)]))
            except evalo.Unknown as e:
                got[cp] = "unknown: %s" % (e,)
        R.check(got == probes, "tables:hangul_block", "is_hangul_syllable is true exactly on U+AC00..=U+D7A3 (decision table over the block boundaries and probes outside): %s" % {hex(k): v for k, v in got.items() if probes[k] != v}, hb.span)
    fb = ctx.fb
    b = fb.bodies.get(PARSE)
    if not R.anchor(b is not None, "parse", "parse::parse"):
        return
    org = Origins(b, fb)
    strs = {}
    for bi, t in b.calls():
        n = callee_name(t["f"], fb)
        for a in t["args"]:
            o = org.of_operand(a, bi, "t")
            if o[0] == "const" and isinstance(o[2], str) and len(o[2]) >= 1:
                strs.setdefault(o[2], []).append(n.rsplit("::", 1)[-1])
    R.analyse("string tables of parse(): %s" % sorted(strs))
    start = [s for s in strs if s.startswith("형") and len(s) == 9]
    if R.anchor(len(start) == 1, "start_table", "9-character start table"):
        st = start[0]
        cmds = const_chars(fb, "hyeong::core::parse::COMMANDS")
        R.check(cmds == list(st[:6]), "tables:commands", "COMMANDS is the first six characters of the start table (kinds 0..5): %s vs %s" % (cmds, st[:6]))
        R.check(all(len(c.encode()) == 3 for c in st) and len(set(st)) == 9, "tables:start3bytes", "all start-table characters are distinct 3-byte characters (byte offset / 3 is the index)")
        R.check(st[6:] == "혀하흐", "tables:start_syllables", "start syllables 혀 하 흐 are entries 6..8")
    ends = [s for s in strs if s.startswith("엉") and len(s) == 6]
    if R.anchor(len(ends) == 1, "end_table", "6-character end table"):
        e = ends[0]
        R.check(e == "엉앙앗읏읍윽" and all(len(c.encode()) == 3 for c in e), "tables:end", "end table lists the end syllables of kinds 0..5 in order, 3 bytes each")
        chars = set("".join(strs))
        for bi2, t2 in b.calls():
            pass
        for blk in b.blocks:
            for st in blk["stmts"]:
                r = st.get("r", {})
                for x in ([r.get("x")] if r.get("k") == "use" else [r.get("l"), r.get("r")] if r.get("k") == "bin" else []):
                    if isinstance(x, dict) and x.get("k") == "const" and x.get("ty") == "char" and "int" in x:
                        chars.add(chr(int(x["int"])))
        R.check(all(c in chars for c in "엉앙앗읏읍윽"), "tables:end_classes", "every end syllable 엉 앙 앗 읏 읍 윽 is recognised while counting syllables")
    R.check(".…⋯⋮" in strs, "tables:dots", "dot table is . … ⋯ ⋮")
    hearts = const_chars(fb, "hyeong::core::parse::HEARTS")
    R.check(hearts is not None and len(hearts) == 12 and len(set(hearts)) == 12 and hearts[-1] == "♡", "tables:hearts", "HEARTS has 12 distinct characters ending with ♡ (types 2..13): %s" % hearts)
    # renderer tables in area.rs
    tabs = []
    for nm in ("hyeong::core::area::area_to_string_debug", "hyeong::core::area::area_to_string_display"):
        ab = fb.bodies.get(nm)
        if not R.anchor(ab is not None, nm, nm):
            continue
        ao = Origins(ab, fb)
        for bi, t in ab.calls():
            for a in t["args"]:
                o = ao.of_operand(a, bi, "t")
                if o[0] == "const" and isinstance(o[2], str) and len(o[2]) > 3:
                    tabs.append((nm.rsplit("::", 1)[-1], o[2]))
        # the same table kept as a `const NAME: [char; N]` item and indexed directly
        for blk in ab.blocks:
            for st_ in blk["stmts"]:
                x = st_.get("r", {}).get("x")
                if isinstance(x, dict) and x.get("k") == "const" and x.get("uneval") and str(x.get("ty", "")).startswith("[char;"):
                    cs = const_chars(fb, x["uneval"])
                    if cs and len(cs) > 3:
                        tabs.append((nm.rsplit("::", 1)[-1], "".join(cs)))
    R.check(len(tabs) == 2 and tabs[0][1] == tabs[1][1], "tables:renderers_equal", "the two renderings of area trees use the same character table: %s" % tabs)
    if tabs and hearts:
        R.check(all(t == "?!" + "".join(hearts) for _, t in tabs), "tables:renderer_vs_parser", "renderer table = '?', '!' followed by HEARTS in order (14 distinct characters: rendering is injective and matches the parser's numbering)")


def const_chars(fb, path):
    cb = fb.by_path.get(path)
    if cb is None:
        return None
    # the char array lives in a promoted or in the const body
    out = []
    for body in [cb] + [pb for (p, i), pb in fb.promoted.items() if p == path]:
        for blk in body.blocks:
            for s in blk["stmts"]:
                r = s.get("r", {})
                if r.get("k") == "agg" and r.get("agg") == "array":
                    out = [chr(int(f["int"])) for f in r["fields"] if "int" in f]
    return out or None


RULES = [
    ("C04.RESET", "both partially built area trees are Reset at every command start", rule_reset),
    ("C04.GROUP", "command fields are assigned only as part of an accepted command start", rule_group),
    ("C04.DEFS", "dot counting, location expression, newline tracking, index kind", rule_defs),
    ("C04.FIRSTHEART", "only the first heart of a slot counts", rule_firstheart),
    ("C04.TABLES", "literal tables agree with each other and the byte-offset arithmetic", rule_tables),
    ("C04.TOTAL", "no unaudited panic-capable site in the parser", rule_total),
]


# ------------------------------------------------------------------------------------------------ tree construction
class TreeModel:
    """the two partially built trees and their cursors, named by what they are used for:
    QAREA = the tree that is rebuilt around the other one when a `?` arrives, AREA = the other;
    LEAF / QLEAF = the cursor that initially points to AREA / QAREA"""

    def __init__(self, M):
        b = M.b
        self.ok = False
        cur = [l for l in range(len(b.locals)) if b.lty(l) == "&mut core::area::Area" and l in b.local_names() and len(M.vars.defs.get(l, [])) >= 2]
        if len(cur) != 2 or len(M.trees) != 2:
            return
        t0, t1 = M.trees
        q = None
        for t, other in ((t0, t1), (t1, t0)):
            # AREA is the tree that is assigned freshly made leaves (Area::new(..)); QAREA never is
            leafy = lambda x: any(d[0] == "assign" and (lambda o: o[0] == "call" and o[1] == "core::area::Area::new")(M.org.of_rvalue(d[3]["r"], d[1], d[2])) for d in M.vars.defs.get(x, []))
            if leafy(other) and not leafy(t):
                q = (t, other)
        if q is None:
            return
        self.qarea, self.area = q
        self.names = {self.area: "AREA", self.qarea: "QAREA"}
        # cursors by their first target
        self.cur = {}
        for c in cur:
            ds = sorted(M.vars.defs.get(c, []), key=lambda d: (d[1], d[2] if d[2] != "t" else 1 << 20))
            first = [d for d in ds if d[1] not in M.loop]
            if not first:
                return
            tgt = self.ref_target(b, M.vars, first[0][3]["r"])
            if tgt == self.area:
                self.cur[c] = "LEAF"
            elif tgt == self.qarea:
                self.cur[c] = "QLEAF"
        self.ok = sorted(self.cur.values()) == ["LEAF", "QLEAF"]
        # the parser state: the named integer local switched on in the loop with the values 0 and 2 sharing a target
        self.state = None
        for gb in sorted(M.loop):
            tt = b.blocks[gb]["term"]
            if tt["k"] == "switch" and {v for v, _ in tt["arms"]} == {"0", "2"} and len({bb for _, bb in tt["arms"]}) == 1:
                k = M.vars.root_key(tt["x"])
                if k is not None and k[0] == "L" and k[1] in b.local_names():
                    self.state = k[1]

    @staticmethod
    def _moves(b, bi, local):
        for blk_i in range(max(0, bi - 6), bi + 1):
            for s in b.blocks[blk_i]["stmts"]:
                if s["k"] == "assign" and s["r"]["k"] == "use" and s["r"]["x"].get("k") == "move" and s["r"]["x"]["p"] == {"l": local, "proj": []}:
                    yield True

    @staticmethod
    def ref_target(b, vars_, r, depth=0):
        """local that a chain  &mut (*(&mut X))  / move temp  finally borrows, or None"""
        while depth < 12:
            depth += 1
            if r["k"] == "ref":
                p = r["p"]
                if not p["proj"]:
                    return p["l"]
                if p["proj"] == ["deref"]:
                    ds = vars_.defs.get(p["l"], [])
                    if len(ds) == 1 and ds[0][0] == "assign":
                        r = ds[0][3]["r"]
                        continue
                return None
            if r["k"] == "use" and r["x"].get("k") in ("move", "copy") and not r["x"]["p"]["proj"]:
                ds = vars_.defs.get(r["x"]["p"]["l"], [])
                if len(ds) == 1 and ds[0][0] == "assign":
                    r = ds[0][3]["r"]
                    continue
            return None
        return None


HEART_RE = None


def _tree_norm(s):
    import re
    global HEART_RE
    if HEART_RE is None:
        HEART_RE = re.compile(r"CAST\[usize->u8\]\(\(SOME\(Iterator::position\(\[T\]::iter\(CONST:HEARTS\),CLOSURE\)\) Add K2\)\)|\(CAST\[usize->u8\]\(SOME\(Iterator::position\(\[T\]::iter\(CONST:HEARTS\),CLOSURE\)\)\) Add K2\)")
    s = HEART_RE.sub("HEART", s)
    s = s.replace(".0.pointer.pointer", "").replace(".0.pointer", "")
    s = s.replace("@Val.", ".")
    return s


def tree_effects(M, T, entry, exits, extra=None, track=None, guard_extra=()):
    """per acyclic path entry -> exits: (guards on the trees/cursors, ordered effects on trees, cursors, slots)"""
    from .paths import acyclic_paths, PathOriginsOv
    b, fb, cfg = M.b, M.fb, M.cfg
    ov = {c: ("role", n) for c, n in T.cur.items()}
    ov.update({t: ("role", n) for t, n in T.names.items()})
    if T.state is not None:
        ov[T.state] = ("role", "STATE")
    track = track or {}
    for l_, n_ in track.items():
        ov[l_] = ("role", n_)
    rows = []
    for p in acyclic_paths(cfg, entry, exits, 4000):
        org = PathOriginsOv(b, fb, p, overrides=ov)
        r = Roles(b, fb, param_roles={1: "CODE"}, org=org)
        ev = Events(b, fb, roles=r)
        guards, effects = [], []
        # a path on which a flag that was given a constant on this very path (`matches!(..)`, `a && b`) is then tested
        # the other way round does not exist
        feasible = True
        for i, bi in enumerate(p[:-1]):
            t_ = b.blocks[bi]["term"]
            if t_["k"] == "switch" and t_.get("xty") == "bool":
                o_ = org.of_operand(t_["x"], bi, "t")
                if o_[0] == "const" and isinstance(o_[2], (int, bool)):
                    want_ = [bb for v_, bb in t_["arms"] if int(v_) == int(o_[2])]
                    want_ = want_[0] if want_ else t_["otherwise"]
                    if p[i + 1] != want_:
                        feasible = False
                        break
        if not feasible:
            continue
        for i, bi in enumerate(p):
            blk = b.blocks[bi]
            for si, s in enumerate(blk["stmts"]):
                if s["k"] != "assign":
                    continue
                pl = s["p"]
                if not pl["proj"] and pl["l"] in T.cur:
                    tgt = TreeModel.ref_target(b, M.vars, s["r"])
                    if tgt in T.names:
                        effects.append("%s:=&%s" % (T.cur[pl["l"]], T.names[tgt]))
                    else:
                        effects.append("%s:=NODE(%s)" % (T.cur[pl["l"]], _tree_norm(r.of_origin(org.of_rvalue(s["r"], bi, si)))))
                elif not pl["proj"] and T.state is not None and pl["l"] == T.state:
                    effects.append("STATE:=%s" % _tree_norm(r.of_origin(org.of_rvalue(s["r"], bi, si))))
                elif not pl["proj"] and pl["l"] in track:
                    effects.append("%s:=%s" % (track[pl["l"]], _tree_norm(r.of_origin(org.of_rvalue(s["r"], bi, si)))))
                elif not pl["proj"] and pl["l"] in T.names:
                    effects.append("%s:=%s" % (T.names[pl["l"]], _tree_norm(r.of_origin(org.of_rvalue(s["r"], bi, si)))))
                elif "deref" in pl["proj"] and "Area" in b.lty(pl["l"]):
                    effects.append("SLOT(%s):=%s" % (_tree_norm(r.of_origin(org.of_local(pl["l"], bi, si))), _tree_norm(r.of_origin(org.of_rvalue(s["r"], bi, si)))))
            t = blk["term"]
            if extra is not None:
                e = extra(bi, t, r)
                if e:
                    effects.append(_tree_norm(e))
            if i + 1 < len(p) and t["k"] == "switch":
                lab = ev.generic_edge(bi, t, p[i + 1])
                if lab and any(k in lab for k in ("LEAF", "AREA", "STATE") + tuple(track.values()) + tuple(guard_extra)):
                    guards.append(_tree_norm(lab))
        rows.append((tuple(sorted(set(guards))), tuple(sorted(effects))))
    return rows


VAL0 = "Area::Val{K0,Box::new(AREA),Box::new(Area::Nil{})}"
TREE_SPEC = {
    "question": {
        (("SW[DISCR(QLEAF)]=1",), ("QAREA:=" + VAL0, "QLEAF:=&QAREA", "AREA:=Area::Nil{}", "LEAF:=&AREA")),
        (("SW[DISCR(QLEAF)]=0",), ("SLOT(QLEAF.right):=Box::new(%s)" % VAL0, "QLEAF:=NODE(QLEAF.right)", "AREA:=Area::Nil{}", "LEAF:=&AREA")),
    },
    "bang": {
        (("SW[DISCR(LEAF)]=1",), ("AREA:=Area::new(K1)", "LEAF:=&AREA")),
        (("LT[LEAF.type_,K2]=1", "SW[DISCR(LEAF)]=0", "SW[DISCR(LEAF.right)]=1"), ("SLOT(LEAF.right):=Box::new(Area::new(K1))", "LEAF:=NODE(LEAF.right)")),
        (("LT[LEAF.type_,K2]=1", "SW[DISCR(LEAF)]=0", "SW[DISCR(LEAF.right)]=0"), ("SLOT(LEAF.right):=Box::new(Area::Val{K1,Box::new(Area::new(LEAF.right.type_)),Box::new(Area::Nil{})})", "LEAF:=NODE(LEAF.right)")),
        (("LT[LEAF.type_,K2]=0", "SW[DISCR(LEAF)]=0"), ("AREA:=Area::Val{K1,Box::new(Area::new(LEAF.type_)),Box::new(Area::Nil{})}", "LEAF:=&AREA")),
    },
    "heart": {
        (("SW[DISCR(LEAF)]=1",), ("AREA:=Area::new(HEART)", "LEAF:=&AREA")),
        (("LT[LEAF.type_,K2]=1", "SW[DISCR(LEAF)]=0", "SW[DISCR(LEAF.right)]=1"), ("SLOT(LEAF.right):=Box::new(Area::new(HEART))",)),
        (("LT[LEAF.type_,K2]=1", "SW[DISCR(LEAF)]=0", "SW[DISCR(LEAF.right)]=0"), ()),
        (("LT[LEAF.type_,K2]=0", "SW[DISCR(LEAF)]=0"), ()),
    },
    "flush": {
        (("SW[DISCR(QLEAF)]=1",), ("EMIT(AREA)",)),
        (("SW[DISCR(QLEAF)]=0",), ("SLOT(QLEAF.right):=Box::new(AREA)", "EMIT(QAREA)")),
    },
}
# every area character leaves the parser in the area state (2)
for _h in ("question", "bang", "heart"):
    TREE_SPEC[_h] = {(g, e + ("STATE:=K2",)) for g, e in TREE_SPEC[_h]}
TREE_SPEC = {h: {(g, tuple(sorted(e))) for g, e in rows} for h, rows in TREE_SPEC.items()}
TREE_DESC = {
    "question": "`?`: the tree built so far becomes the left operand of a new ? node appended at the right end of the ?-spine (or the spine's first node); the !-tree starts empty again",
    "bang": "`!`: empty -> a new ! node; cursor on an operator -> its right slot gets a new ! node (taking over a heart already there as left operand) and the cursor descends; cursor on a heart -> the heart becomes the left operand of a new ! root",
    "heart": "heart: empty -> a leaf; cursor on an operator with an empty right slot -> fills it; otherwise ignored (first heart of a slot wins)",
    "flush": "finished command: the !-tree is hung into the right end of the ?-spine (or is the area itself when there is no ?)",
}


def _discr_two_way(lab):
    return lab


class _SylUnknown(Exception):
    pass


def _syl_eval(o, env, roles):
    """finite-domain evaluation for the syllable handler: env gives the pending kind and the current character"""
    from . import evalo
    r = None
    try:
        r = roles.of_origin(o)
    except Exception:
        pass
    if r == "KIND":
        return env["kind"]
    if r == "ELEM<ENUMERATE(CHARS(CODE))>.1":
        return ord(env["ch"])
    k = o[0]
    if k == "const":
        return o[2]
    if k == "cast":
        v = _syl_eval(o[3], env, roles)
        return v
    if k == "bin":
        a, b_ = _syl_eval(o[2], env, roles), _syl_eval(o[3], env, roles)
        if isinstance(a, str) and len(a) == 1:
            a = ord(a)
        if isinstance(b_, str) and len(b_) == 1:
            b_ = ord(b_)
        if not (isinstance(a, int) and isinstance(b_, int)):
            raise _SylUnknown("operands %r %r" % (a, b_))
        return {"Add": a + b_, "Sub": a - b_, "Mul": a * b_, "Div": a // b_ if b_ else 0, "Eq": a == b_, "Ne": a != b_, "Lt": a < b_, "Le": a <= b_, "Gt": a > b_, "Ge": a >= b_}[o[1]]
    if k == "un" and o[1] == "Not":
        return not _syl_eval(o[2], env, roles)
    if k in ("ref", "deref", "clone"):
        return _syl_eval(o[-1], env, roles)
    if k == "call":
        sn = o[1].rsplit("::", 1)[-1]
        if sn in ("find", "contains", "position") and len(o[2]) == 2:
            hay, nee = _syl_eval(o[2][0], env, roles), _syl_eval(o[2][1], env, roles)
            if isinstance(hay, str) and isinstance(nee, int):
                i = hay.find(chr(nee))
                if sn == "contains":
                    return i >= 0
                return ("opt", None if i < 0 else len(hay[:i].encode("utf-8")))
        if sn in ("eq", "ne") and len(o[2]) == 2:
            a, b_ = _syl_eval(o[2][0], env, roles), _syl_eval(o[2][1], env, roles)
            return (a == b_) if sn == "eq" else (a != b_)
        raise _SylUnknown("call %s" % o[1])
    if k == "discr":
        v = _syl_eval(o[1], env, roles)
        if isinstance(v, tuple) and v[0] == "opt":
            return 0 if v[1] is None else 1
        raise _SylUnknown("discr")
    if k == "some":
        v = _syl_eval(o[1], env, roles)
        if isinstance(v, tuple) and v[0] == "opt" and v[1] is not None:
            return v[1]
        raise _SylUnknown("some of None")
    raise _SylUnknown("origin %s" % k)


def _syllable_table(M, T, entry):
    """(pending kind, character) -> set of effect tuples on KIND / DOT / STATE along the feasible paths"""
    from .paths import acyclic_paths, PathOriginsOv, simplify
    b, fb, cfg = M.b, M.fb, M.cfg
    ov = {T.state: ("role", "STATE"), M.kind[1]: ("role", "KIND"), M.dot[1]: ("role", "DOT")}
    names = {T.state: "STATE", M.kind[1]: "KIND", M.dot[1]: "DOT"}
    paths = acyclic_paths(cfg, entry, [M.head], 4000)
    out, problems = {}, []
    for kind in (6, 7, 8):
        for ch in ["엉", "앙", "앗", "읏", "읍", "윽", "어", "a", "형"]:
            env = {"kind": kind, "ch": ch}
            rows = set()
            for p in paths:
                org = PathOriginsOv(b, fb, p, overrides=ov)
                roles = Roles(b, fb, param_roles={1: "CODE"}, org=org)
                ok = True
                try:
                    for i, bi in enumerate(p[:-1]):
                        t = b.blocks[bi]["term"]
                        if t["k"] != "switch":
                            continue
                        try:
                            v = _syl_eval(simplify(org.of_operand(t["x"], bi, "t")), env, roles)
                        except _SylUnknown:
                            continue  # a condition on something else (is the character a Hangul syllable, ...)
                        v = int(v) if isinstance(v, bool) else v
                        if not isinstance(v, int):
                            continue
                        taken = None
                        for a_, bb in t["arms"]:
                            if int(a_) == v:
                                taken = bb
                        if taken is None:
                            taken = t["otherwise"]
                        if taken != p[i + 1]:
                            ok = False
                            break
                    if not ok:
                        continue
                    eff = []
                    for bi in p:
                        for si, st in enumerate(b.blocks[bi]["stmts"]):
                            if st["k"] == "assign" and not st["p"]["proj"] and st["p"]["l"] in names:
                                val = _syl_eval(simplify(org.of_rvalue(st["r"], bi, si)), env, roles)
                                eff.append("%s:=%s" % (names[st["p"]["l"]], int(val) if not isinstance(val, tuple) else val))
                    rows.add(tuple(sorted(eff)))
                except _SylUnknown as e:
                    problems.append("%d/%s: %s" % (kind, ch, e))
            out[(kind, ch)] = rows
    return out, problems


def rule_tree(ctx, R):
    """the right-nested tree construction, handler by handler, as decision tables over path-precise effects"""
    fb = ctx.fb
    M = ParserModel(fb)
    if not R.anchor(M.b is not None and M.ok, "parser_model", "parser anchors"):
        return
    b, cfg = M.b, M.cfg
    R.analyse(b.name)
    T = TreeModel(M)
    if not R.anchor(T.ok, "tree_model", "the two area trees (AREA, QAREA) and their cursors (LEAF, QLEAF)"):
        return
    ev0 = Events(b, fb, roles=M.roles)
    C = "ELEM<ENUMERATE(CHARS(CODE))>.1"
    entries = {}
    for gb in sorted(M.loop):
        tt = b.blocks[gb]["term"]
        if tt["k"] != "switch":
            continue
        for s_ in cfg.succ[gb]:
            lab = ev0.generic_edge(gb, tt, s_) or ""
            if lab == "EQ[%s,K63]=1" % C or lab == "EQ[K63,%s]=1" % C:
                entries.setdefault("question", []).append(s_)
            elif lab == "EQ[%s,K33]=1" % C or lab == "EQ[K33,%s]=1" % C:
                entries.setdefault("bang", []).append(s_)
            elif lab.startswith("SW[DISCR(Iterator::position([T]::iter(CONST:HEARTS),CLOSURE))]=1"):
                entries.setdefault("heart", []).append(s_)
    # dot characters: they never change the parser state (counted before the area began, ignored after)
    for gb in sorted(M.loop):
        tt = b.blocks[gb]["term"]
        if tt["k"] == "switch":
            for s_ in cfg.succ[gb]:
                lab = ev0.generic_edge(gb, tt, s_) or ""
                if lab.startswith("BR[str::contains(K'.") and lab.endswith("=1") and C in lab:
                    entries.setdefault("dots", []).append(s_)
    if R.anchor(len(entries.get("dots", [])) == 1 and T.state is not None, "tree:entry:dots", "the branch that handles dot characters, and the parser's state variable"):
        rows = {(tuple(g for g in gs if "STATE" in g), tuple(e for e in es if e.startswith("STATE") or "AREA" in e or "LEAF" in e)) for gs, es in tree_effects(M, T, entries["dots"][0], [M.head])}
        # the state after a dot is the state before it: written back as it was, left alone, or (where it is known to
        # be 0) set to 0
        def _z(gs):
            zs = {("Z" if (g in ("EQ[K0,STATE]=1", "NE[K0,STATE]=0", "SW[STATE]=0")) else "NZ" if g in ("EQ[K0,STATE]=0", "NE[K0,STATE]=1", "SW[STATE]!=0") else g) for g in gs}
            return tuple(sorted(zs))
        norm = {(_z(gs), es) for gs, es in rows}
        okd = {(("Z",), ("STATE:=STATE",)), (("Z",), ()), (("Z",), ("STATE:=K0",)), (("NZ",), ("STATE:=STATE",)), (("NZ",), ())}
        wantd = okd
        rows = norm if (norm <= okd and {g for g, _ in norm} == {("Z",), ("NZ",)}) else norm | {(("?",), ("both outcomes of the state test must appear",))}
        R.check(rows <= wantd, "tree:dots", "a dot or ellipsis leaves the parser state, the trees and the cursors as they are (before the area: counted; after it began: ignored)", None, {"unexpected": sorted(map(str, rows - wantd)), "missing": sorted(map(str, wantd - rows))})
    # inside the syllable part (state 1): an end syllable of the pending kind closes the syllables (kind becomes the
    # command kind, dots restart at 0, state 0); anything else leaves the parser where it is
    s1 = None
    for gb in sorted(M.loop):
        tt = b.blocks[gb]["term"]
        if tt["k"] == "switch" and {v for v, _ in tt["arms"]} == {"0", "2"} and len({bb for _, bb in tt["arms"]}) == 1:
            s1 = tt["otherwise"]
    if R.anchor(s1 is not None and T.state is not None, "tree:entry:syllables", "the branch for parser state 1 (inside the syllable part)"):
        got1, problems1 = _syllable_table(M, T, s1)
        want1 = {}
        ENDS = {"엉": (6, 0), "앙": (7, 1), "앗": (7, 2), "읏": (8, 3), "읍": (8, 4), "윽": (8, 5)}
        for kind in (6, 7, 8):
            for ch in list(ENDS) + ["어", "a", "형"]:
                if ch in ENDS and ENDS[ch][0] == kind:
                    want1[(kind, ch)] = {("DOT:=0", "KIND:=%d" % ENDS[ch][1], "STATE:=0")}
                else:
                    want1[(kind, ch)] = {("STATE:=1",)}
        bad = {"%d/%s" % k: sorted(v) for k, v in got1.items() if v != want1.get(k)}
        R.check(not bad and not problems1, "tree:syllables", "state 1: 엉 closes a 혀-command as kind 0; 앙/앗 close a 하-command as kind 1/2; 읏/읍/윽 close a 흐-command as kind 3/4/5; the dot count restarts and the parser returns to state 0; any other character keeps state 1 (decision table over pending kind x character)", None, {"differs": bad, "undecided": problems1[:4]})
    # a command start: a one-syllable command (형 항 핫 흣 흡 흑) is complete at once (state 0), a start syllable 혀 하 흐
    # opens the syllable part (state 1); only the latter can be skipped (no end syllable later in the text)
    from .paths import acyclic_paths as _ap, PathOriginsOv as _PO, simplify as _simp
    st_entry = None
    for gb in sorted(M.loop):
        tt = b.blocks[gb]["term"]
        if tt["k"] == "switch":
            for s_ in cfg.succ[gb]:
                lab = ev0.generic_edge(gb, tt, s_) or ""
                if lab.startswith("SW[DISCR(str::find(K'형항핫흣흡흑혀하흐',") and lab.endswith("=1"):
                    st_entry = s_
    if R.anchor(st_entry is not None and T.state is not None, "tree:entry:start", "the branch that handles a command-start syllable"):
        ov_ = {T.state: ("role", "STATE")}
        got_s, prob_s = {}, []
        paths_ = _ap(cfg, st_entry, [M.head], 6000)
        for ch in "형항핫흣흡흑혀하흐":
            env = {"kind": 10, "ch": ch}
            vals = set()
            for p_ in paths_:
                org_ = _PO(b, fb, p_, overrides=ov_)
                r_ = Roles(b, fb, param_roles={1: "CODE"}, org=org_)
                ok_ = True
                for i_, bi_ in enumerate(p_[:-1]):
                    t_ = b.blocks[bi_]["term"]
                    if t_["k"] != "switch":
                        continue
                    try:
                        v_ = _syl_eval(_simp(org_.of_operand(t_["x"], bi_, "t")), env, r_)
                    except _SylUnknown:
                        continue
                    v_ = int(v_) if isinstance(v_, bool) else v_
                    if not isinstance(v_, int):
                        continue
                    tk_ = None
                    for a_, bb_ in t_["arms"]:
                        if int(a_) == v_:
                            tk_ = bb_
                    if tk_ is None:
                        tk_ = t_["otherwise"]
                    if tk_ != p_[i_ + 1]:
                        ok_ = False
                        break
                if not ok_:
                    continue
                assigned = None
                for bi_ in p_:
                    for si_, st_ in enumerate(b.blocks[bi_]["stmts"]):
                        if st_["k"] == "assign" and not st_["p"]["proj"] and st_["p"]["l"] == T.state:
                            try:
                                assigned = int(_syl_eval(_simp(org_.of_rvalue(st_["r"], bi_, si_)), env, r_))
                            except _SylUnknown as e_:
                                prob_s.append("%s: %s" % (ch, e_))
                vals.add(("start" if M.start[0] in p_ else "skip", assigned))
            got_s[ch] = vals
        want_s = {ch: {("start", 0)} for ch in "형항핫흣흡흑"}
        want_s.update({ch: {("start", 1), ("skip", None)} for ch in "혀하흐"})
        bad_s = {k: sorted(map(str, v)) for k, v in got_s.items() if v != want_s[k]}
        R.check(not bad_s and not prob_s, "tree:start", "a one-syllable command leaves the parser in state 0 and is never skipped; 혀/하/흐 enter state 1 or are skipped as a whole", None, {"differs": bad_s, "undecided": prob_s[:3]})
    tables = {}
    for h in ("question", "bang", "heart"):
        if not R.anchor(len(entries.get(h, [])) == 1, "tree:entry:" + h, "the branch of the area state that handles %s" % h):
            continue
        tables[h] = set(tree_effects(M, T, entries[h][0], [M.head]))
    # flush sites: from the test of the ?-spine cursor to the UnOptCode::new that takes the area
    fl = []
    for nb, nt in M.news:
        r0 = Roles(b, fb, param_roles={1: "CODE"}, overrides={**{c: n for c, n in T.cur.items()}, **{t: n for t, n in T.names.items()}})
        cands = [gb for gb in range(len(b.blocks)) if b.blocks[gb]["term"]["k"] == "switch" and r0.of_operand(b.blocks[gb]["term"]["x"], gb, "t") == "DISCR(QLEAF)" and reaches_without(cfg, [gb], nb, cut_blocks=[M.head])]
        # the closest one: no other candidate between it and the call
        cands = [g for g in cands if not any(g2 != g and reaches_without(cfg, [g], g2, cut_blocks=[M.head, nb]) for g2 in cands)]
        if not R.anchor(len(cands) == 1, "tree:flush:%d" % len(fl), "the test of the ?-spine cursor before a finished command is stored"):
            continue

        def extra(bi, t, r, nb=nb):
            if bi == nb:
                return "EMIT(%s)" % r.of_operand(t["args"][4], bi)
            return None

        fl.append(set(tree_effects(M, T, cands[0], [nb], extra=extra)))
    R.floor("flush_sites", len(fl), 2, "places where a finished command is stored")
    n = 0
    for h, got in sorted(tables.items()):
        want = TREE_SPEC[h]
        n += len(got)
        R.check(got == want, "tree:" + h, TREE_DESC[h], None, {"unexpected": sorted(map(str, got - want)), "missing": sorted(map(str, want - got))})
    for i, got in enumerate(fl):
        n += len(got)
        R.check(got == TREE_SPEC["flush"], "tree:flush:%d" % i, TREE_DESC["flush"], M.news[i][1]["span"]["at"], {"unexpected": sorted(map(str, got - TREE_SPEC["flush"])), "missing": sorted(map(str, TREE_SPEC["flush"] - got))})
    R.floor("tree_paths", n, 14, "paths through the area handlers and flush sites")


RULES.append(("C04.TREE", "right-nested construction of the area tree: per-handler decision tables of the effects on the two trees, their cursors and the slots", rule_tree))


def rule_listing_total(ctx, R):
    """the `check` command prints what was parsed: every panic-capable site between check::run and the listing is
    mechanically discharged or audited (the whole-binary audit of C13 restricted to what check::run reaches,
    the parser itself excluded: C04.TOTAL has it)"""
    from . import p_c13
    fb = ctx.fb_all
    skip = set(ctx.cg.reachable([PARSE])) if PARSE in fb.bodies else set()
    n = p_c13.rule_panic(ctx, R, roots=["hyeong::app::check::run", "hyeong::app::check::print_un_opt_codes"], skip=skip)
    R.floor("listing_sites", n or 0, 9, "panic-capable sites below check::run")


RULES.append(("C04.LISTING", "`hyeong check` lists any parse result without crashing (empty listings, multi-line files): panic audit below check::run", rule_listing_total))


def rule_render(ctx, R):
    from . import p_c08
    return p_c08.rule_render(ctx, R)


RULES.append(("C04.RENDER", "what the parser built is shown faithfully: decision tables of the Debug and Display renderings of an area tree (shared with C08)", rule_render))


def rule_listfmt(ctx, R):
    from . import p_c08
    return p_c08.rule_listing(ctx, R)


RULES.append(("C04.LISTFMT", "the `check` listing line prints kind, syllable count, dot count and area, in that order (shared with C08.LISTING)", rule_listfmt))


def _codeapi(ctx, R):
    from . import p_c01
    return p_c01.rule_codeapi(ctx, R)


RULES.append(("C04.CODEAPI", "the words kind / syllable count / dot count / area count / area mean the fields of the command record: getters and constructors of UnOptCode and OptCode (shared with C01.CODEAPI)", _codeapi))


def _raw(ctx, R):
    from . import p_c08
    return p_c08.rule_raw(ctx, R)


RULES.append(("C04.RAW", "each command reports its own significant source characters: what is appended to the raw text and when (shared with C08.RAW)", _raw))


def _file(ctx, R):
    from . import p_c08
    return p_c08.rule_file(ctx, R)


RULES.append(("C04.FILE", "what the front ends parse is the text of the file, untouched (shared with C08.FILE)", _file))
