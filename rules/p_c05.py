"""C05 — big integers compute exactly like mathematical integers.

Decided: constructor bit coverage (A-BITS), sign dispatch truth tables of add/sub/mul/div/partial_cmp/eq/neg/minus
(decision tables over path-precise origins), normalisation, operator impls delegate with operands in order,
rem = a - (a/b)*b, Euclid step of gcd, the per-iteration conservation laws of the carry, borrow and
partial-product loops (A-LIN), the greedy bit search of div_core and the magnitude comparison of less_core.
NOT decided: the induction from the per-iteration laws to the whole-number statement (argued in DESIGN.md)."""
from .cfg import CFG
from .facts import callee_name
from .gea import Seq, Star, Alt, Opt
from .interp import Events, normal_cfg, language
from .lang import Roles
from .origin import Origins, show, walk
from .interp import Events
from .paths import path_event_set, acyclic_paths, PathOriginsOv
from .util import Vars, reaches_without
from . import p_c01

TECHNIQUE = 'static analysis: bit-provenance of the constructor; sign decision tables by finite-domain evaluation of branch conditions; linear-form/interval analysis of one loop iteration (conservation laws of carry, borrow, partial product); event-language equality for less_core/div_core'
LEVEL = "other"
EXPLANATION = (
    "Sign/normalisation shell of the big-integer type decided on all CFG paths: (CTOR) bit-provenance analysis shows "
    "that construction from a machine integer stores every bit of |n| exactly once in limb order and takes the sign "
    "from n >= 0; (SIGN) path enumeration over the sign flags gives the truth table of add, sub, mul, div, "
    "partial_cmp, eq, neg and minus, compared with the mathematically required table (which magnitude routine, "
    "operand order, when the result is negated, zero stays non-negative); (NORM) every public arithmetic result "
    "passes through the normalising constructor; (OPS) each operator impl is a single call of its namesake with "
    "(self, rhs) in order and each assigning variant stores op(&*self, rhs) back; (REM) rem(a,b) = a - (a/b)*b; "
    "(GCD) one Euclid step per iteration; (LIMBS) for every loop of add_core, sub_core and mult_core each path of one "
    "iteration is evaluated over linear forms of the limbs with interval-checked casts and must satisfy the "
    "conservation law of that loop (digit + carry*2^32 = lhs[i] + rhs[i] + carry_in; the borrow form; every "
    "accumulator cell reduced below 2^32 before the truncating conversion), results are normalised and digits stay "
    "below 2^32; (DIVLESS) div_core tries every bit of every quotient limb from the top and keeps a bit exactly when "
    "dividend >= quotient*divisor, less_core's event language equals the definition of magnitude comparison. NOT "
    "decided: the induction from these per-iteration laws to the whole-number statement (textbook argument, given in "
    "DESIGN.md, not mechanised)."
)
ASSUMPTIONS = [
    "rustc MIR (nightly 1.97, mir-opt-level=0); unwind edges ignored",
    "a loop whose every iteration conserves (partial result + carry*base^i) computes the exact sum/difference/product (induction not mechanised)",
    "casts are evaluated with the interval of their operand; an interval the analysis cannot bound fails the obligation",
    "isize is 64 bits wide (the extraction target); unsigned_abs() is std's",
]
TRUSTED = ["rustc nightly MIR", "/verif/rules A-PATH/A-ORG/A-BITS", "sign tables in rules/p_c05.py (from the arithmetic of signed magnitudes)"]

B = "number::big_number::BigNum::"
PR = lambda b: {i: "P%d" % i for i in range(1, b.argc + 1)}
EPS = {"core::ops::deref::Deref::deref", "core::clone::Clone::clone", "core::ops::deref::DerefMut::deref_mut"}


def fn_paths(fb, name, overrides=None, set_events=False, epsilon=EPS):
    b = fb.bodies.get(name)
    if b is None:
        return None, None
    cfg = normal_cfg(b)

    def mk(org):
        roles = Roles(b, fb, param_roles=PR(b), org=org)
        ev = Events(b, fb, roles=roles, epsilon=set(epsilon))
        ev.set_events = set_events
        return ev

    return b, path_event_set(b, fb, cfg, 0, cfg.returns, mk, overrides=overrides)


# ---------------------------------------------------------------------------------------------- CTOR
def bits_of(o, width_hint=None):
    """bit provenance of an unsigned value: list (LSB first) of source-bit index of |n|, 0 for known-zero,
    None for unknown; returns (bits, width) or None"""
    W = {"u8": 8, "u16": 16, "u32": 32, "u64": 64, "u128": 128, "usize": 64}
    k = o[0]
    if k == "call" and o[1].endswith("::unsigned_abs") and o[2] and o[2][0][0] == "arg":
        return list(range(64))
    if k == "cast":
        inner = bits_of(o[3])
        if inner is None or o[2] not in W:
            return None
        w = W[o[2]]
        if o[1] not in W:
            return None
        res = inner[:w] + [0] * max(0, w - len(inner))
        return res
    if k == "bin" and o[3][0] == "const" and isinstance(o[3][2], int):
        inner = bits_of(o[2])
        c = o[3][2]
        if inner is None:
            return None
        n = len(inner)
        if o[1] == "Shr":
            return inner[c:] + [0] * min(c, n)
        if o[1] == "Shl":
            return ([0] * c + inner)[:n]
        if o[1] == "BitAnd":
            return [inner[i] if (c >> i) & 1 else 0 for i in range(n)]
        if o[1] == "Div" and c > 0 and c & (c - 1) == 0:
            s = c.bit_length() - 1
            return inner[s:] + [0] * min(s, n)
        if o[1] == "Rem" and c > 0 and c & (c - 1) == 0:
            s = c.bit_length() - 1
            return inner[:s] + [0] * (n - s)
        return None
    return None


def rule_ctor(ctx, R):
    fb = ctx.fb
    b = fb.bodies.get(B + "new")
    if not R.anchor(b is not None, "new", "BigNum::new"):
        return
    R.analyse(b.name)
    org = Origins(b, fb)
    cfg = normal_cfg(b)
    # limb arrays built in the constructor
    arrays = []
    for bi, blk in enumerate(b.blocks):
        if blk["cleanup"]:
            continue
        for si, s in enumerate(blk["stmts"]):
            if s["k"] == "assign" and s["r"]["k"] == "agg" and s["r"]["agg"] == "array" and s["r"].get("elem") == "u32":
                arrays.append((bi, si, s))
    # single-limb construction `vec![x as u32]` also shows up as an array of one element
    if not R.anchor(len(arrays) >= 1, "new:limbs", "limb array(s) built by BigNum::new"):
        return
    for bi, si, s in arrays:
        limbs = [org.of_operand(f, bi, si) for f in s["r"]["fields"]]
        cover = {}
        ok = True
        detail = []
        for li, o in enumerate(limbs):
            bits = bits_of(o)
            detail.append("limb%d=%s" % (li, show(o, b)))
            if bits is None or len(bits) != 32:
                ok = False
                continue
            for i, src in enumerate(bits):
                if src is None:
                    ok = False
                elif src != 0 or (li == 0 and i == 0):
                    if src != 32 * li + i:
                        ok = False
                    cover[src] = cover.get(src, 0) + 1
        full = all(cover.get(i, 0) == 1 for i in range(64))
        # is this array reachable on every path to return? (if there are several arrays, together they must cover)
        R.check(ok and full, "new:bits@%d" % len(limbs), "limbs built from a machine integer hold every bit of |n| exactly once, in little-endian limb order (%s)" % "; ".join(detail), s["span"]["at"])
    # the sign: pos derives from  n >= 0
    sign_ok = False
    for bi, blk in enumerate(b.blocks):
        for si, s in enumerate(blk["stmts"]):
            if s["k"] == "assign" and s["p"]["proj"] and any(isinstance(e, dict) and e.get("n") == "pos" for e in s["p"]["proj"]):
                o = org.of_rvalue(s["r"], bi, si)
                if o[0] == "bin" and ((o[1] == "Ge" and o[2] == ("arg", 1) and o[3] == ("const", "isize", 0)) or (o[1] == "Le" and o[3] == ("arg", 1) and o[2] == ("const", "isize", 0)) or (o[1] == "Gt" and o[2] == ("arg", 1) and o[3] == ("const", "isize", -1))):
                    sign_ok = True
                else:
                    R.fail("new:sign", "sign flag is not derived from n >= 0: %s" % show(o, b), s["span"]["at"])
    R.check(sign_ok, "new:sign_from_n", "the sign flag of the constructed value is n >= 0 (zero is non-negative)")
    # no negation of the signed argument (isize::MIN)
    negs = [s for blk in b.blocks for s in blk["stmts"] if s["k"] == "assign" and s["r"]["k"] == "un" and s["r"]["op"] == "Neg"]
    R.check(not negs, "new:no_signed_negation", "the constructor does not negate the signed argument (overflow for isize::MIN)")
    # result normalised
    names = [callee_name(t["f"], fb) for _, t in b.calls()]
    R.check(B + "from_vec" in names or B + "shrink_to_fit" in names, "new:normalised", "the constructed value is normalised (no leading zero limb)")
    # callers: conversions feeding BigNum::new / Num::from_num are value preserving
    n_sites = 0
    for body in fb.bodies.values():
        o2 = None
        for bi, t in body.calls():
            n = callee_name(t["f"], fb)
            if n in (B + "new", "number::num::Num::from_num", "number::num::Num::new"):
                o2 = o2 or Origins(body, fb)
                for a in t["args"]:
                    for x in walk(o2.of_operand(a, bi, "t")):
                        if isinstance(x, tuple) and x and x[0] == "cast":
                            n_sites += 1
                            from .lang import cast_is_value_preserving
                            R.check(cast_is_value_preserving(x[1], x[2]), "caller:%s:%s->%s" % (body.name, x[1], x[2]), "conversion %s -> %s feeding %s in %s cannot change the value" % (x[1], x[2], n.rsplit("::", 1)[-1], body.name), t["span"]["at"])
    R.floor("caller_casts", n_sites, 8, "integer conversions feeding BigNum::new / Num::from_num")


# ---------------------------------------------------------------------------------------------- SIGN
# Truth tables by path enumeration with finite-domain evaluation of the branch conditions: for every
# assignment of the boolean atoms (sign flags, "swapped", magnitude comparisons, zero tests) exactly one
# path of the function is feasible; what that path does is compared with the arithmetic of signed
# magnitudes.  The shape of the decision tree (nested ifs, match on a tuple, helper functions) is irrelevant.
import itertools
from .evalo import ev as evalo, Unknown
from .paths import acyclic_paths as _acyclic, PathOriginsOv as _PO, simplify as _simp
from .paths import path_preds

A_P1 = lambda o: o == ("field", "pos", ("arg", 1))
A_P2 = lambda o: o == ("field", "pos", ("arg", 2))
A_SW = lambda o: o[0] == "field" and o[1] == "1" and o[2][0] == "call" and o[2][1] == B + "sub_core"
A_L12 = lambda o: o[0] == "call" and o[1] == B + "less_core" and o[2] == (("field", "val", ("arg", 1)), ("field", "val", ("arg", 2)))
A_L21 = lambda o: o[0] == "call" and o[1] == B + "less_core" and o[2] == (("field", "val", ("arg", 2)), ("field", "val", ("arg", 1)))
A_Z1 = lambda o: o[0] == "call" and o[1] == B + "is_zero" and o[2] == (("arg", 1),)
A_Z2 = lambda o: o[0] == "call" and o[1] == B + "is_zero" and o[2] == (("arg", 2),)
A_EQ = lambda o: o[0] == "call" and o[1] == "core::cmp::PartialEq::eq" and set(o[2]) == {("arg", 1), ("arg", 2)}
A_VEQ = lambda o: o[0] == "call" and o[1] == "core::cmp::PartialEq::eq" and set(o[2]) == {("field", "val", ("arg", 1)), ("field", "val", ("arg", 2))}


def decision_table(fb, name, atoms, describe):
    """{assignment tuple -> set of outcomes}; describe(body, org, path, roles) -> hashable outcome"""
    b = fb.bodies.get(name)
    if b is None:
        return None, None
    cfg = normal_cfg(b)
    rows = {}
    paths = []
    for p in _acyclic(cfg, 0, cfg.returns, 20000):
        org = _PO(b, fb, p)
        preds = path_preds(b, org, p)
        paths.append((p, org, preds))
    for vals in itertools.product((0, 1), repeat=len(atoms)):
        env = [(m, v) for m, v in zip(atoms, vals)]
        outs = set()
        for p, org, preds in paths:
            try:
                ok = all(bool(evalo(_simp(c), env, fb, b)) == t for c, t, _ in preds)
            except Unknown as e:
                outs.add(("unknown-condition", show(e.args[0], b)[:80]))
                continue
            if ok:
                roles = Roles(b, fb, param_roles=PR(b), org=org)
                outs.add(describe(b, org, p, roles, env))
        rows[vals] = outs
    return b, rows


def _calls_on(b, fb, p, roles):
    out = []
    for bi in p:
        t = b.blocks[bi]["term"]
        if t["k"] == "call" and not b.blocks[bi]["cleanup"]:
            n = callee_name(t["f"], fb)
            if n.startswith(B) and n.rsplit("::", 1)[-1] in ("add_core", "sub_core", "mult_core", "div_core", "minus", "from_vec", "shrink_to_fit"):
                out.append((n.rsplit("::", 1)[-1], tuple(roles.of_operand(a, bi) for a in t["args"])))
    return out


def _describe_arith(b, org, p, roles, env):
    calls = _calls_on(b, b_fb[0], p, roles)
    core = [c for c in calls if c[0].endswith("_core")]
    return (tuple(core), sum(1 for c in calls if c[0] == "minus") % 2, any(c[0] == "from_vec" for c in calls))


b_fb = [None]


def rule_sign(ctx, R):
    fb = ctx.fb
    b_fb[0] = fb
    V = ("P1.val", "P2.val")
    # ---- add / sub : rows over (lhs.pos, rhs.pos, swapped)
    for name, table in ((B + "add", lambda p1, p2, sw: ("add_core", 0) if p1 and p2 else ("sub_core", sw) if p1 and not p2 else ("sub_core", 1 - sw) if p2 else ("add_core", 1)),
                        (B + "sub", lambda p1, p2, sw: ("add_core", 0) if p1 and not p2 else ("sub_core", sw) if p1 and p2 else ("sub_core", 1 - sw) if not p2 else ("add_core", 1))):
        b, rows = decision_table(fb, name, [A_P1, A_P2, A_SW], _describe_arith)
        if not R.anchor(b is not None, name, name):
            continue
        R.analyse(name)
        for (p1, p2), grp in itertools.groupby(sorted(rows), key=lambda v: v[:2]):
            bad = []
            for vals in grp:
                core, flip = table(*vals)
                want = {(((core, V),), flip, True)}
                if rows[vals] != want:
                    bad.append((vals, sorted(map(str, rows[vals]))))
            core, _ = table(p1, p2, 0)
            R.check(not bad, "%s:signs%d%d" % (name, p1, p2), "%s with signs (lhs %s, rhs %s): exactly one feasible path; it calls %s(lhs,rhs), normalises, and negates the result %s" % (name.rsplit("::", 1)[-1], "+-"[1 - p1], "+-"[1 - p2], core, {("add_core", 0): "never", ("add_core", 1): "always"}.get(table(p1, p2, 0), "iff swapped" if table(p1, p2, 1)[1] == 1 else "iff not swapped")), b.span, bad[:2])
    # ---- mul / div
    for name, core in ((B + "mul", "mult_core"), (B + "div", "div_core")):
        b, rows = decision_table(fb, name, [A_P1, A_P2], _describe_arith)
        if not R.anchor(b is not None, name, name):
            continue
        R.analyse(name)
        bad = [(v, sorted(map(str, o))) for v, o in rows.items() if o != {(((core, V),), v[0] ^ v[1], True)}]
        R.check(not bad, name + ":sign", "%s: magnitude routine %s(lhs,rhs), normalised, negated iff exactly one operand is negative (through minus(), which keeps zero non-negative)" % (name.rsplit("::", 1)[-1], core), b.span, bad[:2])
    # ---- partial_cmp : rows over (eq, p1, p2, less(l,r), less(r,l))
    name = "<number::big_number::BigNum as core::cmp::PartialOrd>::partial_cmp"

    def d_cmp(b, org, p, roles, env):
        rets = []
        for bi in p:
            for si, s in enumerate(b.blocks[bi]["stmts"]):
                if s["k"] == "assign" and s["p"]["l"] == 0 and not s["p"]["proj"]:
                    rets.append(roles.of_origin(org.of_rvalue(s["r"], bi, si)))
        return tuple(rets[-1:])

    b, rows = decision_table(fb, name, [A_EQ, A_P1, A_P2, A_L12, A_L21], d_cmp)
    if R.anchor(b is not None, name, "BigNum::partial_cmp"):
        R.analyse(name)
        S = lambda x: ("Option::Some{Ordering::%s{}}" % x,)
        bad = []
        for (e, p1, p2, l12, l21), outs in rows.items():
            if e:
                want = S("Equal")
            elif p1 and p2:
                want = S("Less") if l12 else S("Greater")
            elif p1 and not p2:
                want = S("Greater")
            elif p2:
                want = S("Less")
            else:
                want = S("Less") if l21 else S("Greater")
            if outs != {want}:
                bad.append(((e, p1, p2, l12, l21), sorted(map(str, outs))))
        R.check(not bad, name + ":table", "ordering: equal first; both non-negative -> |a|<|b|; a>=0>b -> Greater; a<0<=b -> Less; both negative -> |b|<|a| (32 rows, one feasible path each)", b.span, bad[:3])
    # ---- eq : rows over (zero(l), zero(r), l.pos, r.pos, limbs equal)
    name = "<number::big_number::BigNum as core::cmp::PartialEq>::eq"

    def d_bool(b, org, p, roles, env):
        last = p[-1]
        try:
            return ("ret", int(bool(evalo(_simp(org.of_local(0, last, "t")), env, fb, b))))
        except Unknown as e:
            return ("unknown-result", show(e.args[0], b)[:80])

    b, rows = decision_table(fb, name, [A_Z1, A_Z2, A_P1, A_P2, A_VEQ], d_bool)
    if R.anchor(b is not None, name, "BigNum::eq"):
        R.analyse(name)
        bad = [(v, sorted(map(str, o))) for v, o in rows.items() if o != {("ret", int((v[0] and v[1]) or (v[2] == v[3] and v[4])))}]
        R.check(not bad, name + ":table", "equality: both zero, or same sign and same limbs (32 rows)", b.span, bad[:3])
    # ---- neg / minus keep zero non-negative
    def d_neg(b, org, p, roles, env):
        last = p[-1]
        o = _simp(org.of_local(0, last, "t"))
        if o[0] == "agg" and len(o[2]) == 2:
            try:
                return ("pos", int(bool(evalo(_simp(o[2][0]), env, fb, b))), roles.of_origin(o[2][1]))
            except Unknown as e:
                return ("unknown", show(e.args[0], b)[:60])
        return ("shape", roles.of_origin(o)[:60])

    b, rows = decision_table(fb, B + "neg", [A_Z1, A_P1], d_neg)
    if R.anchor(b is not None, "neg", "BigNum::neg"):
        R.analyse(b.name)
        bad = [(v, sorted(map(str, o))) for v, o in rows.items() if o != {("pos", v[1] if v[0] else 1 - v[1], "COPY(P1.val)")}]
        R.check(not bad, "neg:table", "negation flips the sign flag unless the value is zero; limbs copied", b.span, bad[:2])

    def d_minus(b, org, p, roles, env):
        sets = []
        for bi in p:
            for si, s in enumerate(b.blocks[bi]["stmts"]):
                if s["k"] == "assign" and "deref" in s["p"]["proj"]:
                    dst = roles.of_origin(org.of_place(s["p"], bi, si))
                    try:
                        sets.append((dst, int(bool(evalo(_simp(org.of_rvalue(s["r"], bi, si)), env, fb, b)))))
                    except Unknown as e:
                        sets.append((dst, "?"))
        return tuple(sets)

    b, rows = decision_table(fb, B + "minus", [A_Z1, A_P1], d_minus)
    if R.anchor(b is not None, "minus", "BigNum::minus"):
        R.analyse(b.name)
        bad = [(v, sorted(map(str, o))) for v, o in rows.items() if o != ({()} if v[0] else {(("P1.pos", 1 - v[1]),)})]
        R.check(not bad, "minus:table", "in-place negation flips the sign flag unless the value is zero", b.span, bad[:2])
    # ---- from_vec / is_pos
    b, paths = fn_paths(fb, B + "from_vec")
    if R.anchor(b is not None, "from_vec", "BigNum::from_vec"):
        seqs = {s for s, _ in paths}
        R.check(seqs == {("BigNum::shrink_to_fit(BigNum::BigNum{K1,P1})", "RET(BigNum::BigNum{K1,P1})")}, "from_vec:norm", "from_vec builds a non-negative value and strips leading zero limbs", b.span, sorted(seqs))
    b, paths = fn_paths(fb, B + "is_pos")
    if R.anchor(b is not None, "is_pos", "BigNum::is_pos"):
        seqs = {s for s, _ in paths}
        R.check(seqs == {("RET(P1.pos)",)}, "is_pos", "is_pos returns the sign flag", b.span, sorted(seqs))


# ---------------------------------------------------------------------------------------------- OPS / REM / GCD
OPS = [("Add", "add", "add"), ("Sub", "sub", "sub"), ("Mul", "mul", "mul"), ("Div", "div", "div"), ("Rem", "rem", "rem")]


def rule_ops(ctx, R):
    fb = ctx.fb
    n = 0
    for tr, m, inherent in OPS:
        name = "<&number::big_number::BigNum as core::ops::arith::%s>::%s" % (tr, m)
        b, paths = fn_paths(fb, name)
        if R.anchor(b is not None, name, "operator impl %s for &BigNum" % tr):
            R.analyse(name)
            n += 1
            seqs = {s for s, _ in paths}
            c = "BigNum::%s(P1,P2)" % inherent
            R.check(seqs == {(c, "RET(%s)" % c)}, name, "&a %s &b is BigNum::%s(a, b) with the operands in order" % (tr, inherent), b.span, sorted(seqs))
        aname = "<number::big_number::BigNum as core::ops::arith::%sAssign>::%s_assign" % (tr, m)
        b, paths = fn_paths(fb, aname)
        if R.anchor(b is not None, aname, "operator impl %sAssign for BigNum" % tr):
            R.analyse(aname)
            n += 1
            seqs = {s for s, _ in paths}
            c = "%s::%s(P1,P2)" % (tr, m)
            cr = {"Add": "ADD(P1,P2)", "Mul": "MUL(P1,P2)"}.get(tr, c)
            R.check(seqs == {(c, "BigNum::set_move(P1,%s)" % cr, "RET(K'()')")}, aname, "a %s= b stores (&*a %s b) back into a" % (tr, tr), b.span, sorted(seqs))
    name = "<&number::big_number::BigNum as core::ops::arith::Neg>::neg"
    b, paths = fn_paths(fb, name)
    if R.anchor(b is not None, name, "Neg for &BigNum"):
        n += 1
        seqs = {s for s, _ in paths}
        R.check(seqs == {("BigNum::neg(P1)", "RET(BigNum::neg(P1))")}, name, "-&a is BigNum::neg(a)", b.span, sorted(seqs))
    R.floor("operator_impls", n, 11, "operator impls of BigNum")
    # set_move / set_copy copy both fields
    for nm, val in (("set_move", "P2.val"), ("set_copy", "COPY(P2.val)")):
        b, paths = fn_paths(fb, B + nm, set_events=True)
        if R.anchor(b is not None, nm, "BigNum::" + nm):
            seqs = {frozenset(s) for s, _ in paths}
            want = {frozenset({"SET(P1.val,%s)" % val, "SET(P1.pos,P2.pos)", "RET(K'()')"})}
            R.check(seqs == want, nm, "%s overwrites limbs and sign from the right-hand side" % nm, b.span, [sorted(x) for x in seqs])
    # REM
    b, paths = fn_paths(fb, B + "rem")
    if R.anchor(b is not None, "rem", "BigNum::rem"):
        R.analyse(b.name)
        seqs = {s for s, _ in paths}
        q = "BigNum::div(P1,P2)"
        m1 = "BigNum::mul(%s,P2)" % q
        m2 = "BigNum::mul(P2,%s)" % q
        ok = any(seqs == {(q, m, "BigNum::sub(P1,%s)" % m, "RET(BigNum::sub(P1,%s))" % m)} for m in (m1, m2))
        R.check(ok, "rem:definition", "rem(a, b) = a - (a / b) * b (remainder takes the sign of the dividend because division truncates)", b.span, sorted(seqs))
    # GCD: one Euclid step per iteration
    b = fb.bodies.get(B + "gcd")
    if R.anchor(b is not None, "gcd", "BigNum::gcd"):
        R.analyse(b.name)
        cfg = normal_cfg(b)
        bes = cfg.back_edges()
        if R.anchor(len(bes) == 1, "gcd:loop", "the single loop of gcd"):
            tail, head = bes[0]
            vars_ = Vars(b)
            loop = cfg.natural_loop(bes[0])
            # loop variables: BigNum locals assigned inside the loop and named by the user
            lv = [l for l, ds in vars_.defs.items() if b.lty(l) == "number::big_number::BigNum" and l in b.local_names() and any(d[1] in loop for d in ds) and any(d[1] not in loop for d in ds)]
            if R.anchor(len(lv) == 2, "gcd:vars", "two loop-carried BigNum variables (found %d)" % len(lv)):
                # which is tested for zero in the loop condition
                org0 = Origins(b, fb, overrides={lv[0]: ("role", "X"), lv[1]: ("role", "Y")})
                roles0 = Roles(b, fb, org=org0)
                cond_var = None
                for bi in loop:
                    t = b.blocks[bi]["term"]
                    if t["k"] == "call" and callee_name(t["f"], fb) == B + "is_zero":
                        cond_var = roles0.of_operand(t["args"][0], bi)
                bvar = lv[0] if cond_var == "X" else lv[1]
                avar = lv[1] if cond_var == "X" else lv[0]
                ov = {avar: ("role", "A"), bvar: ("role", "B")}
                # one iteration: head -> tail, stop when coming back to head
                body_paths = []
                sub = CFG(b, pruned_edges=set(), removed_blocks=set(range(len(b.blocks))) - loop)
                for p in acyclic_paths(sub, head, [tail]):
                    org = PathOriginsOv(b, fb, p, overrides=ov)
                    roles = Roles(b, fb, org=org)
                    last = p[-1]
                    n_st = len(b.blocks[last]["stmts"])
                    a_end = roles.of_origin(org.of_local(avar, last, "t"))
                    b_end = roles.of_origin(org.of_local(bvar, last, "t"))
                    body_paths.append((a_end, b_end))
                ok = bool(body_paths) and all(x == ("B", "Rem::rem(A,B)") for x in body_paths)
                # polarity of the loop test: the body is entered exactly when b is not zero
                from .interp import Events as _Ev
                ev_ = _Ev(b, fb, roles=Roles(b, fb, org=Origins(b, fb, overrides=ov)))
                ent, ext = [], []
                for gb in loop:
                    tt = b.blocks[gb]["term"]
                    if tt["k"] == "switch":
                        for sx in cfg.succ[gb]:
                            lab = ev_.generic_edge(gb, tt, sx)
                            if lab and "BigNum::is_zero(" in lab:
                                (ent if sx in loop else ext).append(lab)
                R.check(ent == ["BR[BigNum::is_zero(B)]=0"] and ext == ["BR[BigNum::is_zero(B)]=1"], "gcd:loop_condition", "the loop of gcd continues while b is not zero and stops when it is: stays on %s, leaves on %s" % (ent, ext), b.blocks[head]["term"]["span"]["at"])
                R.check(ok, "gcd:euclid_step", "each iteration replaces (a, b) by (b, a % b); the loop runs while b is not zero", b.blocks[head]["term"]["span"]["at"], body_paths)
                # returns a, starts from clones of the arguments
                rets = []
                o = Origins(b, fb, overrides=ov)
                r2 = Roles(b, fb, org=o, param_roles=PR(b))
                for bi, blk in enumerate(b.blocks):
                    for si, s in enumerate(blk["stmts"]):
                        if s["k"] == "assign" and s["p"]["l"] == 0 and not s["p"]["proj"] and not blk["cleanup"]:
                            rets.append(r2.of_origin(o.of_rvalue(s["r"], bi, si)))
                R.check(rets == ["A"], "gcd:returns_a", "gcd returns the last non-zero remainder (variable a)", b.span, rets)
                inits = {}
                o3 = Origins(b, fb)
                r3 = Roles(b, fb, org=o3, param_roles=PR(b))
                for l, nm in ((avar, "a"), (bvar, "b")):
                    for d in vars_.defs[l]:
                        if d[1] not in loop:
                            inits[nm] = r3.of_origin(o3._site(l, d, 0, ()))
                R.check(inits == {"a": "COPY(P1)", "b": "COPY(P2)"}, "gcd:init", "gcd starts from (lhs, rhs)", b.span, inits)


RULES = [
    ("C05.CTOR", "construction from a machine integer keeps every bit and the sign", rule_ctor),
    ("C05.SIGN", "sign dispatch truth tables of add/sub/mul/div/partial_cmp/eq/neg/minus; normalisation", rule_sign),
    ("C05.OPS", "operator impls delegate in order; in-place variants agree; rem = a-(a/b)*b; Euclid step of gcd", rule_ops),
]


# ---------------------------------------------------------------------------------------------- LIMBS
def rule_limbs(ctx, R):
    """per-iteration conservation laws of the carry / borrow / schoolbook loops (A-LIN)"""
    from . import limbs
    from .limbs import LimbBody, conservation, innermost, B32
    from .linear import Lin
    fb = ctx.fb
    U32 = (0, B32 - 1)

    def ranges_carry(arr, atom):
        return (0, 1) if arr == "V" else U32

    # ---- add_core
    L = LimbBody(fb, B + "add_core", {1: "LHS", 2: "RHS"})
    if R.anchor(L.b is not None and L.V is not None, "add_core", "BigNum::add_core and its result vector"):
        _zeroed(L, R, "add_core")
        _whole(L, R, "add_core")
        R.analyse(L.b.name)
        inner = sorted(innermost(L.heads).items(), key=lambda kv: _pos(L.b, kv[0]))
        if R.anchor(len(inner) == 2, "add_core:loops", "the two digit loops of add_core (found %d)" % len(inner)):
            def exp0(res):
                n = list(res["names"].values())
                if len(n) != 1:
                    return None
                return Lin({"LHS[+1*%s]" % n[0]: 1, "RHS[+1*%s]" % n[0]: 1})

            def exp1(res):
                n = list(res["names"].values())
                if len(n) != 1:
                    return None
                return Lin({"PHI(LHS|RHS)[+1*%s]" % n[0]: 1})

            conservation(L, R, "add_core:loop0", "add_core, common digits (digit + carry*2^32 = lhs[i] + rhs[i] + carry in)", inner[0][0], inner[0][1], +1, -1, 0, exp0, ranges_carry)
            conservation(L, R, "add_core:loop1", "add_core, remaining digits of the longer operand", inner[1][0], inner[1][1], +1, -1, 0, exp1, ranges_carry)
        _carry_cells(L, R, "add_core")
        _addsub_structure(L, R, "add_core")
    # ---- sub_core
    L = LimbBody(fb, B + "sub_core", {1: "LHS", 2: "RHS"})
    if R.anchor(L.b is not None and L.V is not None, "sub_core", "BigNum::sub_core and its result vector"):
        _zeroed(L, R, "sub_core")
        _whole(L, R, "sub_core")
        R.analyse(L.b.name)
        inner = sorted(innermost(L.heads).items(), key=lambda kv: _pos(L.b, kv[0]))
        if R.anchor(len(inner) == 2, "sub_core:loops", "the two digit loops of sub_core (found %d)" % len(inner)):
            def sexp0(res):
                n = list(res["names"].values())
                if len(n) != 1:
                    return None
                return Lin({"SEL.0[+1*%s]" % n[0]: 1, "SEL.1[+1*%s]" % n[0]: -1})

            def sexp1(res):
                n = list(res["names"].values())
                if len(n) != 1:
                    return None
                return Lin({"SEL.0[+1*%s]" % n[0]: 1})

            conservation(L, R, "sub_core:loop0", "sub_core, common digits (digit - borrow*2^32 = a[i] - b[i] - borrow in)", inner[0][0], inner[0][1], -1, +1, 0, sexp0, ranges_carry)
            conservation(L, R, "sub_core:loop1", "sub_core, remaining digits of the larger operand", inner[1][0], inner[1][1], -1, +1, 0, sexp1, ranges_carry)
        _carry_cells(L, R, "sub_core")
        _sub_selection(L, R)
    # ---- mult_core
    L = LimbBody(fb, B + "mult_core", {1: "LHS", 2: "RHS"})
    if R.anchor(L.b is not None and L.V is not None, "mult_core", "BigNum::mult_core and its accumulator vector"):
        _zeroed(L, R, "mult_core")
        _whole(L, R, "mult_core")
        R.analyse(L.b.name)
        inner = sorted(innermost(L.heads).items(), key=lambda kv: _pos(L.b, kv[0]))
        if R.anchor(len(inner) == 1, "mult_core:loops", "the inner product loop of mult_core (found %d innermost loops)" % len(inner)):
            def mexp(res):
                env = res["env"]
                atoms = set()
                for v in res["store"].values():
                    for a in v.terms:
                        if isinstance(a, str) and a.startswith("MUL("):
                            atoms.add(a)
                    for a in list(env.ranges):
                        if isinstance(a, str) and a.startswith("MUL("):
                            atoms.add(a)
                prods = [a for a in atoms if "LHS[" in a and "RHS[" in a]
                if len(prods) != 1:
                    # an iteration that stores nothing: fine iff a factor is known to be zero on this path
                    if not res["store"] and any(v == 0 and (k.startswith("LHS[") or k.startswith("RHS[")) for k, v in env.subst.items()):
                        return Lin()
                    return None
                a = prods[0]
                if any(v == 0 and ("(%s," % k in a or ",%s)" % k in a) for k, v in env.subst.items()):
                    return Lin()
                return Lin({a: 1})

            def ranges_acc(arr, atom):
                return (0, (1 << 64) - 1) if arr == "V" else U32

            h, info = inner[0]
            conservation(L, R, "mult_core:inner", "mult_core, one partial product (cell + next*2^32 grows by lhs[i]*rhs[j])", h, info, +1, -1, -1, mexp, ranges_acc)
            # normalisation: every inner iteration leaves cell i+j below the base
            from .limbs import iteration_paths
            for pi, p in enumerate(iteration_paths(L, h, info)):
                res = L.analyse_path(p, ranges_acc, True)
                vkeys = [k for k in res["store"] if k[0] == "V"]
                ok = False
                if vkeys and not res["problems"]:
                    base = min(vkeys, key=lambda k: res["idx"][k].const)
                    from .linear import interval
                    try:
                        lo, hi = interval(res["store"][base], res["env"])
                        ok = lo >= 0 and hi < B32
                    except Exception:
                        ok = False
                R.check(ok, "mult_core:normalise:path%d" % pi, "mult_core: every inner iteration reduces the current accumulator cell below 2^32 (the invariant that makes the final truncating conversion exact)", L.b.blocks[h]["term"]["span"]["at"])
        _mult_structure(L, R)


def _pos(b, block):
    at = b.blocks[block]["term"]["span"]["at"].rsplit(":", 2)
    return (int(at[1]), int(at[2]))


def _carry_cells(L, R, nm):
    """cells above the current index only ever receive the constant 1 (so a carry/borrow cell read later is 0 or 1,
    and cells not yet reached are still zero)"""
    b, fb = L.b, L.fb
    org = Origins(b, fb)
    n = 0
    init_ok = L.Vinit[0] == ("const", "u32", 0)
    R.check(init_ok, nm + ":zeroed", "%s: the result vector is created zero-filled" % nm, b.span)
    for bi, blk in enumerate(b.blocks):
        if blk["cleanup"]:
            continue
        for si, s in enumerate(blk["stmts"]):
            if s["k"] == "assign" and "deref" in s["p"]["proj"]:
                dst = org.of_place({"l": s["p"]["l"], "proj": []}, bi, si)
                pr = s["p"]["proj"]
                if len(pr) == 2 and pr[0] == "deref" and isinstance(pr[1], dict) and "i" in pr[1]:
                    # `v[i + 1] = 1` on a `&mut [u32]` view of the result vector (a helper handed `&mut v`)
                    dst = ("call", "core::ops::index::IndexMut::index_mut", (dst, org.of_place({"l": pr[1]["i"], "proj": []}, bi, si)))
                if dst[0] == "call" and dst[1] == "core::ops::index::IndexMut::index_mut" and L.array_key(dst[2][0]) == "V":
                    idx = dst[2][1]
                    if idx[0] == "bin" and idx[1] == "Add" and idx[3] == ("const", "usize", 1):
                        n += 1
                        v = org.of_rvalue(s["r"], bi, si)
                        R.check(v == ("const", "u32", 1), "%s:carrycell:%d" % (nm, n), "%s: the cell above the current digit only receives the constant 1 (carry/borrow flag)" % nm, s["span"]["at"])
    R.floor(nm + ":carry_stores", n, 2, "stores of a carry/borrow into the next cell")


def _addsub_structure(L, R, nm):
    b, fb = L.b, L.fb
    roles = Roles(b, fb, param_roles={1: "LHS", 2: "RHS"})
    iters = sorted((_pos(b, bi), roles.of_operand(t["args"][0], bi)) for bi, t in b.calls() if callee_name(t["f"], fb) == "core::iter::traits::collect::IntoIterator::into_iter")
    mn = "cmp::min([T]::len(LHS),[T]::len(RHS))"
    want0 = "Range::Range{K0,%s}" % mn
    ok = len(iters) == 2 and iters[0][1] == want0 and iters[1][1].startswith("Range::Range{%s," % mn) and "[T]::len(PHI(" in iters[1][1]
    R.check(ok, nm + ":ranges", "%s: digits 0..min(len) are added pairwise, digits min(len)..len(longer) are propagated: %s" % (nm, [x[1][:70] for x in iters]), b.span)
    vlen = roles.of_origin(L.Vinit[1])
    R.check(vlen == "(cmp::max([T]::len(LHS),[T]::len(RHS)) Add K1)", nm + ":length", "%s: the result has max(len) + 1 limbs (room for the final carry): %s" % (nm, vlen), b.span)
    # the longer operand is selected by comparing the lengths
    ev = Events(b, fb, roles=roles)
    cfg = L.cfg
    sel = []
    for bi, blk in enumerate(b.blocks):
        for si, s in enumerate(blk["stmts"]):
            if s["k"] == "assign" and not s["p"]["proj"] and b.lty(s["p"]["l"]) == "&[u32]" and s["r"]["k"] in ("use", "ref"):
                src = roles.of_origin(roles.org.of_rvalue(s["r"], bi, si))
                if src in ("LHS", "RHS") and len(L.vars.defs.get(s["p"]["l"], [])) == 2:
                    from .util import dominating_edge_labels
                    labs = [l for l in dominating_edge_labels(cfg, b, ev, bi) if "[T]::len" in l]
                    sel.append((src, labs))
    want = {("RHS", "LT[[T]::len(LHS),[T]::len(RHS)]=1"), ("LHS", "LT[[T]::len(LHS),[T]::len(RHS)]=0")}
    got = {(a, l[0]) for a, l in sel if l}
    R.check(got == want or got == {("LHS", "LT[[T]::len(RHS),[T]::len(LHS)]=1"), ("RHS", "LT[[T]::len(RHS),[T]::len(LHS)]=0")}, nm + ":longer", "%s: the operand whose remaining digits are propagated is the longer one: %s" % (nm, sorted(got)), b.span)


def _sub_selection(L, R):
    b, fb = L.b, L.fb
    roles = Roles(b, fb, param_roles={1: "LHS", 2: "RHS"})
    ev = Events(b, fb, roles=roles)
    cfg = L.cfg
    got = set()
    for bi, blk in enumerate(b.blocks):
        for si, s in enumerate(blk["stmts"]):
            if s["k"] == "assign" and s["r"]["k"] == "agg" and s["r"]["agg"] == "tuple" and len(s["r"]["fields"]) == 3:
                vals = tuple(roles.of_operand(f, bi, si) for f in s["r"]["fields"])
                labs = [ev.generic_edge(gb, b.blocks[gb]["term"], bi) for gb in cfg.pred[bi]]
                got.add((vals, tuple(l for l in labs if l)))
    want = {(("RHS", "LHS", "K1"), ("BR[BigNum::less_core(LHS,RHS)]=1",)), (("LHS", "RHS", "K0"), ("BR[BigNum::less_core(LHS,RHS)]=0",))}
    R.check(got == want, "sub_core:selection", "sub_core subtracts the smaller magnitude from the larger (a, b, swapped) = (rhs, lhs, true) iff |lhs| < |rhs|: %s" % sorted(got), b.span)
    iters = sorted((_pos(b, bi), roles.of_operand(t["args"][0], bi)) for bi, t in b.calls() if callee_name(t["f"], fb) == "core::iter::traits::collect::IntoIterator::into_iter")
    SEL = "PHI(tuple{LHS,RHS,K0}|tuple{RHS,LHS,K1})"
    ok = len(iters) == 2 and iters[0][1] == "Range::Range{K0,[T]::len(%s.1)}" % SEL and iters[1][1] == "Range::Range{[T]::len(%s.1),[T]::len(%s.0)}" % (SEL, SEL)
    R.check(ok, "sub_core:ranges", "sub_core: digits 0..len(b) are subtracted pairwise, digits len(b)..len(a) only propagate the borrow: %s" % [x[1][:90] for x in iters], b.span)
    vlen = roles.of_origin(L.Vinit[1])
    R.check(vlen in ("(cmp::max([T]::len(LHS),[T]::len(RHS)) Add K1)", "(cmp::max([T]::len(RHS),[T]::len(LHS)) Add K1)", "cmp::max([T]::len(LHS),[T]::len(RHS))", "cmp::max([T]::len(RHS),[T]::len(LHS))"), "sub_core:length", "sub_core: the result has a cell for every digit of the longer operand: %s" % vlen, b.span)
    # returns (v, swapped)
    rets = [roles.of_origin(roles.org.of_rvalue(s["r"], bi, si)) for bi, blk in enumerate(b.blocks) for si, s in enumerate(blk["stmts"]) if s["k"] == "assign" and s["p"]["l"] == 0 and not s["p"]["proj"] and not blk["cleanup"]]
    R.check(len(rets) == 1 and rets[0].startswith("tuple{vec::from_elem(K0,") and rets[0].endswith(".2}"), "sub_core:returns", "sub_core returns the difference and the swapped flag: %s" % [r[:60] + "..." + r[-30:] for r in rets], b.span)


def _whole(L, R, nm):
    from .util import check_whole_loops
    check_whole_loops(R, "%s:loops:whole" % nm, L.b, L.cfg, "%s visits every limb position of its ranges" % nm)


def _zeroed(L, R, nm):
    """the working vector of a core routine starts as all zeros (carries, partial sums and quotient bits are added into it)"""
    roles = Roles(L.b, L.fb, param_roles={1: "LHS", 2: "RHS"})
    fill = roles.of_origin(L.Vinit[0])
    R.check(fill == "K0", "%s:zeroed" % nm, "%s: the working vector is created filled with zeros: %s" % (nm, fill), L.b.span)


def _mult_structure(L, R):
    b, fb = L.b, L.fb
    roles = Roles(b, fb, param_roles={1: "LHS", 2: "RHS"})
    iters = sorted((_pos(b, bi), roles.of_operand(t["args"][0], bi)) for bi, t in b.calls() if callee_name(t["f"], fb) == "core::iter::traits::collect::IntoIterator::into_iter")
    full = lambda r, A: r in ("Range::Range{K0,[T]::len(%s)}" % A, "ENUMERATE([T]::iter(%s))" % A, "[T]::iter(%s)" % A)
    ok = len(iters) >= 2 and full(iters[0][1], "LHS") and full(iters[1][1], "RHS")
    R.check(ok, "mult_core:ranges", "mult_core: every pair (i, j) of digits is visited: %s" % [x[1][:60] for x in iters], b.span)
    vlen = roles.of_origin(L.Vinit[1])
    R.check(vlen in ("(([T]::len(LHS) Add [T]::len(RHS)) Add K1)", "([T]::len(LHS) Add [T]::len(RHS))"), "mult_core:length", "mult_core: the accumulator has at least len(lhs)+len(rhs) cells: %s" % vlen, b.span)
    # skipping a whole row is allowed only when the row's digit (the lhs factor of the products of that row) is zero
    cfg = L.cfg
    LB = {h: d["blocks"] for h, d in L.heads.items()}
    heads = sorted(LB, key=lambda h: len(LB[h]))
    if R.anchor(len(heads) == 2 and LB[heads[0]] < LB[heads[1]], "mult_core:nest", "the row loop of mult_core and the column loop inside it"):
        inner, outer = heads
        uncast = lambda o: uncast(o[3]) if o[0] == "cast" else o
        mentions = lambda o, k: any(x == ("arg", k) for x in walk(o))
        facs = set()
        for bi in LB[inner]:
            for si, st in enumerate(b.blocks[bi]["stmts"]):
                if st["k"] == "assign" and st["r"]["k"] == "bin" and st["r"]["op"] in ("Mul", "MulWithOverflow"):
                    for side in ("l", "r"):
                        o_ = uncast(L.org0.of_operand(st["r"][side], bi, si))
                        if mentions(o_, 1) and not mentions(o_, 2):
                            facs.add(o_)
        # the factors of a partial product: one digit of lhs chosen by the row loop alone, one digit of rhs chosen by the column loop alone
        prods = []
        for bi in LB[inner]:
            for si, st in enumerate(b.blocks[bi]["stmts"]):
                if st["k"] == "assign" and st["r"]["k"] == "bin" and st["r"]["op"] in ("Mul", "MulWithOverflow"):
                    ops_ = [uncast(L.org0.of_operand(st["r"][side], bi, si)) for side in ("l", "r")]
                    if any(mentions(o_, 1) or mentions(o_, 2) for o_ in ops_):
                        prods.append(sorted(("lhs" if mentions(o_, 1) else "") + ("rhs" if mentions(o_, 2) else "") for o_ in ops_))
        R.check(prods == [["lhs", "rhs"]], "mult_core:factors", "a partial product multiplies a digit of lhs addressed by the row index with a digit of rhs addressed by the column index (factors depend on: %s)" % prods, b.blocks[inner]["term"]["span"]["at"])
        skips, odd = [], []
        for gb in LB[outer] - LB[inner]:
            tt = b.blocks[gb]["term"]
            if tt["k"] != "switch" or tt["xty"] != "bool":
                continue
            o_ = L.org0.of_operand(tt["x"], gb, "t")
            if o_[0] == "bin" and o_[1] in ("Eq", "Ne") and ((uncast(o_[2]) in facs and o_[3][0] == "const" and o_[3][2] == 0) or (uncast(o_[3]) in facs and o_[2][0] == "const" and o_[2][2] == 0)):
                truth = 1 if o_[1] == "Eq" else 0
                for v_, bb in tt["arms"]:
                    pass
                zero_t = [bb for v_, bb in tt["arms"] if int(v_) == 0]
                tgt = (tt["otherwise"] if truth == 1 else zero_t[0]) if zero_t else None
                if tgt is not None:
                    skips.append((gb, tgt))
        tails = L.heads[outer]["tails"]
        body_entries = [sx for sx in cfg.succ[outer] if sx in LB[outer]]
        bypass = reaches_without(cfg, body_entries, tails, cut_blocks=[inner, outer] + [x for x in range(len(b.blocks)) if x not in LB[outer]], cut_edges=skips)
        R.check(len(facs) == 1 and not bypass, "mult_core:skip", "a row is skipped only when its own digit (the lhs factor of its products) is zero (row factor %s, skip edges %d)" % ([show(f, b)[:50] for f in facs], len(skips)), b.blocks[outer]["term"]["span"]["at"])


def rule_divless(ctx, R):
    """bitwise quotient search of div_core and magnitude comparison of less_core"""
    from .limbs import LimbBody, innermost, iteration_paths, B32
    from .linear import Lin
    from .paths import PathOriginsOv
    fb = ctx.fb
    # ---- less_core: whole-function language against the definition of magnitude comparison
    b = fb.bodies.get(B + "less_core")
    if R.anchor(b is not None, "less_core", "BigNum::less_core"):
        R.analyse(b.name)
        v = Vars(b)
        o0 = Origins(b, fb)
        r0 = Roles(b, fb, param_roles={1: "LHS", 2: "RHS"})
        ov = {}
        for l, ds in v.defs.items():
            if b.lty(l) == "usize" and l in b.local_names() and len(ds) >= 2:
                for d in ds:
                    if d[0] == "assign":
                        o = r0.of_origin(o0.of_rvalue(d[3]["r"], d[1], d[2]))
                        if o == "([T]::len(LHS) Sub K1)":
                            ov[l] = "A"
                        if o == "([T]::len(RHS) Sub K1)":
                            ov[l] = "B"
        if R.anchor(sorted(ov.values()) == ["A", "B"], "less_core:cursors", "the two top-limb cursors of less_core"):
            roles = Roles(b, fb, param_roles={1: "LHS", 2: "RHS"}, overrides=ov)

            def stmt_events(bi, si, s):
                if s["k"] == "assign" and not s["p"]["proj"] and s["p"]["l"] in ov:
                    return "SET%s(%s)" % (ov[s["p"]["l"]], roles.of_origin(roles.org.of_rvalue(s["r"], bi, si)))
                return NotImplemented

            ev = Events(b, fb, roles=roles, stmt_events=stmt_events, extra_epsilon={"core::slice::<impl [T]>::len", "[T]::len", "std::ops::RangeInclusive::new", "core::ops::range::RangeInclusive::new", "core::ops::RangeInclusive::new"})
            cfg = normal_cfg(b)
            d = language(b, fb, cfg, 0, cfg.returns, ev, stop_at_exit=False)
            E = "ELEM<REV(Range::Range{K0,A})>"

            def skip(X, ARR):
                gt0, le0 = "LT[%s,K1]=0" % X, "LT[%s,K1]=1" % X  # x > 0 in the normal form  not (x < 1)
                return Seq(Star(gt0, "EQ[K0,%s[%s]]=1" % (ARR, X), "SET%s((%s Sub K1))" % (X, X)), Alt(Seq(le0), Seq(gt0, "EQ[K0,%s[%s]]=0" % (ARR, X))))

            def tail_with(E, pre):
                return Alt(
                    Seq("EQ[A,B]=0", "RET((A Lt B))"),
                    Seq("EQ[A,B]=1", *pre, "ITER(%s)" % E[5:-1], Star("EQ[LHS[%s],RHS[%s]]=1" % (E, E)), Alt(Seq("EQ[LHS[%s],RHS[%s]]=0" % (E, E), "RET((LHS[%s] Lt RHS[%s]))" % (E, E)), Seq("RET(K0)"))),
                )

            # the limb scan runs over 0..top+1 from the top; the bound is held in the cursor itself (a += 1), in
            # either cursor (they are equal on this branch) or in a fresh local
            tails = [tail_with(E, ["SETA((A Add K1))"]), tail_with("ELEM<REV(Range::Range{K0,B})>", ["SETB((B Add K1))"]),
                     tail_with("ELEM<REV(Range::Range{K0,(A Add K1)})>", []), tail_with("ELEM<REV(Range::Range{K0,(B Add K1)})>", []),
                     tail_with("ELEM<REV(RangeInclusive::new(K0,A))>", []), tail_with("ELEM<REV(RangeInclusive::new(K0,B))>", [])]
            ia, ib = "SETA(([T]::len(LHS) Sub K1))", "SETB(([T]::len(RHS) Sub K1))"
            specs = []
            for init in ((ia, ib), (ib, ia)):
                for sk in ((skip("A", "LHS"), skip("B", "RHS")), (skip("B", "RHS"), skip("A", "LHS"))):
                    for tl in tails:
                        specs.append(Seq(*init, *sk, tl))
            # each cursor initialised and moved down before the other one is touched (e.g. a helper called twice)
            for tl in tails:
                specs.append(Seq(ia, skip("A", "LHS"), ib, skip("B", "RHS"), tl))
                specs.append(Seq(ib, skip("B", "RHS"), ia, skip("A", "LHS"), tl))
            p_c01.check_lang_any(R, "less_core:definition", "magnitude comparison: ignore leading zero limbs; more significant limbs means larger; otherwise the most significant differing limb decides; equal is not less", d, specs, b.span)
    # ---- div_core
    L = LimbBody(fb, B + "div_core", {1: "LHS", 2: "RHS"})
    if R.anchor(L.b is not None and L.V is not None, "div_core", "BigNum::div_core and its quotient vector"):
        _zeroed(L, R, "div_core")
        _whole(L, R, "div_core")
        b = L.b
        R.analyse(b.name)
        roles = Roles(b, fb, param_roles={1: "LHS", 2: "RHS"}, overrides={L.V: "Q"})
        vlen = Roles(b, fb, param_roles={1: "LHS", 2: "RHS"}).of_origin(L.Vinit[1])
        R.check(vlen in ("cmp::max([T]::len(LHS),[T]::len(RHS))", "[T]::len(LHS)"), "div_core:length", "the quotient has as many limbs as the dividend can need (quotient <= dividend): %s" % vlen, b.span)
        iters = sorted((_pos(b, bi), roles.of_operand(t["args"][0], bi)) for bi, t in b.calls() if callee_name(t["f"], fb) == "core::iter::traits::collect::IntoIterator::into_iter")
        ok = len(iters) == 2 and iters[0][1] == "REV(Range::Range{K0,Vec::len(Q)})" and iters[1][1] == "REV(Range::Range{K0,K32})"
        R.check(ok, "div_core:ranges", "quotient bits are tried from the most significant limb and bit downwards, all 32 bits of every limb: %s" % [x[1] for x in iters], b.span)
        inner = sorted(innermost(L.heads).items(), key=lambda kv: _pos(b, kv[0]))
        if R.anchor(len(inner) == 1, "div_core:inner", "bit loop of div_core"):
            h, info = inner[0]
            got = set()
            U32 = (0, B32 - 1)
            for p in iteration_paths(L, h, info):
                res = L.analyse_path(p, lambda arr, a: U32, True)
                if res["problems"]:
                    got.add(("problem", res["problems"][0][1][:60]))
                    continue
                # branch labels on the path
                org = PathOriginsOv(b, fb, p, overrides={L.V: ("role", "Q")})
                r2 = Roles(b, fb, param_roles={1: "LHS", 2: "RHS"}, org=org)
                ev = Events(b, fb, roles=r2)
                labs = []
                for i, bi in enumerate(p[:-1]):
                    lab = ev.generic_edge(bi, b.blocks[bi]["term"], p[i + 1])
                    if lab and "less_core" in lab:
                        labs.append(lab)
                vk = [k for k in res["store"] if k[0] == "V"]
                if len(vk) != 1:
                    got.add(("cells", len(vk)))
                    continue
                delta = res["store"][vk[0]] - Lin({"V[%s]" % res["idx"][vk[0]]: 1})
                got.add((tuple(labs), repr(delta)))
            names = None
            ok = len(got) == 2 and any(l == ("BR[BigNum::less_core(LHS,BigNum::mult_core(Q,RHS))]=0",) and d.startswith("+1*BIT(") for l, d in got if isinstance(l, tuple)) and any(l == ("BR[BigNum::less_core(LHS,BigNum::mult_core(Q,RHS))]=1",) and d == "+0" for l, d in got if isinstance(l, tuple))
            R.check(ok, "div_core:bit_search", "each step sets one quotient bit and clears it again exactly when dividend < quotient * divisor (greedy search for the largest q with q*d <= n)", b.blocks[h]["term"]["span"]["at"], sorted(map(str, got)))


RULES.append(("C05.DIVLESS", "bitwise quotient search of div_core; magnitude comparison of less_core", rule_divless))
RULES.append(("C05.LIMBS", "carry, borrow and partial-product loops conserve the value on every path of an iteration; normalisation; digit ranges", rule_limbs))


def _array_literals(b):
    """constant array aggregates written in a body (the contents of vec![..] literals)"""
    out = []
    for blk in b.blocks:
        if blk["cleanup"]:
            continue
        for st in blk["stmts"]:
            if st["k"] == "assign" and st["r"]["k"] == "agg" and st["r"].get("agg") == "array":
                vals = [int(f["int"]) if f.get("k") == "const" and "int" in f else None for f in st["r"]["fields"]]
                out.append(vals)
    return out


def rule_consts(ctx, R):
    """the constants and one-line predicates everything else is written in terms of"""
    fb = ctx.fb
    want = {
        B + "one": ("BigNum::BigNum{K1,", [[1]], "one() is +1: non-negative flag, the single limb 1"),
        B + "zero": ("BigNum::BigNum{K1,", [[0]], "zero() is +0: non-negative flag, the single limb 0"),
    }
    for n, (prefix, lits, desc) in want.items():
        b = fb.bodies.get(n)
        if not R.anchor(b is not None, n, n):
            continue
        R.analyse(n)
        r = Roles(b, fb)
        cfg = normal_cfg(b)
        rets = sorted({r.of_origin(r.org.of_place({"l": 0, "proj": []}, x, "t")) for x in cfg.returns})
        R.check(len(rets) == 1 and rets[0].startswith(prefix) and _array_literals(b) == lits, "consts:%s" % n.rsplit("::", 1)[-1], "%s: %s %s" % (desc, rets, _array_literals(b)), b.span)
    simple = {
        B + "is_pos": (["P1.pos"], None, "is_pos reads the sign flag"),
        B + "to_int": (["Index::index(P1.val,K0)"], None, "to_int is the lowest limb"),
        B + "is_zero": (None, [[0]], "is_zero compares the limbs with [0] (the normalised zero)"),
        "number::num::Num::one": (["Num::Num{BigNum::one(),BigNum::one()}"], None, "Num::one is 1/1"),
        "number::num::Num::zero": (["Num::Num{BigNum::zero(),BigNum::one()}"], None, "Num::zero is 0/1"),
        "number::num::Num::nan": (["Num::Num{BigNum::one(),BigNum::zero()}"], None, "NaN is 1/0"),
        "number::num::Num::from_num": (["Num::Num{BigNum::new(P1),BigNum::one()}"], None, "from_num(n) is n/1"),
    }
    for n, (rets_w, lits, desc) in simple.items():
        b = fb.bodies.get(n)
        if not R.anchor(b is not None, n, n):
            continue
        R.analyse(n)
        r = Roles(b, fb, param_roles=PR(b))
        cfg = normal_cfg(b)
        rets = sorted({r.of_origin(r.org.of_place({"l": 0, "proj": []}, x, "t")) for x in cfg.returns})
        ok = (rets_w is None or rets == rets_w) and (lits is None or _array_literals(b) == lits)
        if n.endswith("is_zero"):
            # vec![0] (an array literal boxed into a vector) or the slice constant [0]
            ok = len(rets) == 1 and ((ok and rets[0].startswith("PartialEq::eq(P1.val,")) or rets[0] in ("PartialEq::eq(P1.val,array{K0})", "PartialEq::eq(array{K0},P1.val)"))
        R.check(ok, "consts:%s" % n.rsplit("::", 1)[-1], "%s: %s" % (desc, rets), b.span)


RULES.append(("C05.CONSTS", "the constants and predicates the arithmetic is written in: one, zero, is_zero, is_pos, to_int (and Num's one, zero, nan, from_num)", rule_consts))


def rule_normalise(ctx, R):
    """shrink_to_fit as a decision table of one loop step: a trailing limb is removed exactly when it is zero and
    not the only limb (so zero keeps its single 0 limb and nothing non-zero is ever dropped)"""
    from . import evalo
    from .paths import PathOriginsOv
    fb = ctx.fb
    b = fb.bodies.get(B + "shrink_to_fit")
    if not R.anchor(b is not None, "shrink_to_fit", "BigNum::shrink_to_fit"):
        return
    R.analyse(b.name)
    cfg = normal_cfg(b)
    # normalising the limbs is all it does: it never writes the sign (the callers set it, before or after)
    sign_writes = [st["span"]["at"] for blk in b.blocks if not blk["cleanup"] for st in blk["stmts"] if st["k"] == "assign" and any(isinstance(e, dict) and e.get("n") == "pos" for e in st["p"]["proj"])]
    R.check(not sign_writes, "shrink:sign_untouched", "shrink_to_fit leaves the sign alone (it is called after the sign of a result was set): %s" % sign_writes, b.span)
    heads = sorted({h for (_, h) in cfg.back_edges()})
    if not R.anchor(len(heads) == 1, "shrink:loop", "the normalisation loop"):
        return
    head = heads[0]
    blocks = set()
    for be in cfg.back_edges():
        blocks |= cfg.natural_loop(be)
    LAST, LEN = "[T]::last(P1.val)", "Vec::len(P1.val)"
    domain = {}
    for last in (None, 0, 7):
        for ln in (1, 2, 5):
            if last is None and ln != 1:
                continue
            domain["last=%s,len=%d" % (last, ln)] = {LAST: ("opt", last), LEN: (0 if last is None else ln)}

    def roles_of_path(p):
        return Roles(b, fb, param_roles=PR(b), org=PathOriginsOv(b, fb, p))

    def events_of(bi, t, roles):
        n = callee_name(t["f"], fb)
        if n == "std::vec::Vec::pop":
            return "POP(%s)" % roles.of_operand(t["args"][0], bi)
        if n.rsplit("::", 1)[-1] in ("truncate", "remove", "clear", "push", "insert"):
            return "OTHER(%s)" % n.rsplit("::", 1)[-1]
        return None

    got = evalo.step_table(b, fb, roles_of_path, head, blocks, domain, events_of)
    want = {}
    for name, env in domain.items():
        last, ln = env[LAST][1], env[LEN]
        want[name] = {(("POP(P1.val)",), "loop")} if (last == 0 and ln > 1) else {((), "exit")}
    bad = {k: sorted(map(str, v)) for k, v in got.items() if v != want[k]}
    R.check(not bad, "normalise:shrink_step", "one step of shrink_to_fit pops the last limb exactly when it is 0 and there is more than one limb; otherwise the loop ends", b.span, bad)


RULES.append(("C05.NORMALISE", "shrink_to_fit: decision table of one loop step over (last limb, number of limbs)", rule_normalise))
