"""C05 — big integers compute exactly like mathematical integers.

Decided: constructor bit coverage (A-BITS), sign dispatch truth tables of add/sub/mul/div/partial_cmp/eq/neg/minus
(A-PATH), normalisation, operator impls delegate with operands in order, rem = a - (a/b)*b, Euclid step of gcd.
NOT decided (no sound static argument in reach): carry/borrow chains of add_core/sub_core, mult_core, div_core,
less_core — limb-level arithmetic."""
from .cfg import CFG
from .facts import callee_name
from .gea import Seq, Star, Alt, Opt
from .interp import Events, normal_cfg, language
from .lang import Roles
from .origin import Origins, show, walk
from .paths import path_event_set, acyclic_paths, PathOriginsOv
from .util import Vars, reaches_without
from . import p_c01

LEVEL = "other"
EXPLANATION = (
    "Sign/normalisation shell of the big-integer type decided on all CFG paths: (CTOR) bit-provenance analysis shows "
    "that construction from a machine integer stores every bit of |n| exactly once in limb order and takes the sign "
    "from n >= 0; (SIGN) path enumeration over the sign flags gives the truth table of add, sub, mul, div, "
    "partial_cmp, eq, neg and minus, compared with the mathematically required table (which magnitude routine, "
    "operand order, when the result is negated, zero stays non-negative); (NORM) every public arithmetic result "
    "passes through the normalising constructor; (OPS) each operator impl is a single call of its namesake with "
    "(self, rhs) in order and each assigning variant stores op(&*self, rhs) back; (REM) rem(a,b) = a - (a/b)*b; "
    "(GCD) one Euclid step per iteration. The magnitude routines themselves (carry/borrow chains, schoolbook "
    "multiplication, bitwise division, magnitude comparison) are NOT decided: their correctness depends on limb "
    "values, which no static argument built here can bound."
)
ASSUMPTIONS = [
    "rustc MIR (nightly 1.97, mir-opt-level=0); unwind edges ignored",
    "magnitude routines add_core/sub_core/mult_core/div_core/less_core are correct on magnitudes (NOT verified; limb arithmetic is out of reach of this technique)",
    "isize is 64 bits wide (the extraction target); unsigned_abs() is std's",
]
TRUSTED = ["rustc nightly MIR", "/verif/rules A-PATH/A-ORG/A-BITS", "sign tables in rules/p_c05.py (from the arithmetic of signed magnitudes)"]

B = "number::big_number::BigNum::"
PR = lambda b: {i: "P%d" % i for i in range(1, b.argc + 1)}
EPS = {"core::ops::deref::Deref::deref", "core::clone::Clone::clone", "core::ops::deref::DerefMut::deref_mut"}


def fn_paths(fb, name, overrides=None, set_events=False, epsilon=EPS):
    b = fb.bodies.get(name)
    if b is None:
        return None, None
    cfg = normal_cfg(b)

    def mk(org):
        roles = Roles(b, fb, param_roles=PR(b), org=org)
        ev = Events(b, fb, roles=roles, epsilon=set(epsilon))
        ev.set_events = set_events
        return ev

    return b, path_event_set(b, fb, cfg, 0, cfg.returns, mk, overrides=overrides)


# ---------------------------------------------------------------------------------------------- CTOR
def bits_of(o, width_hint=None):
    """bit provenance of an unsigned value: list (LSB first) of source-bit index of |n|, 0 for known-zero,
    None for unknown; returns (bits, width) or None"""
    W = {"u8": 8, "u16": 16, "u32": 32, "u64": 64, "u128": 128, "usize": 64}
    k = o[0]
    if k == "call" and o[1].endswith("::unsigned_abs") and o[2] and o[2][0][0] == "arg":
        return list(range(64))
    if k == "cast":
        inner = bits_of(o[3])
        if inner is None or o[2] not in W:
            return None
        w = W[o[2]]
        if o[1] not in W:
            return None
        res = inner[:w] + [0] * max(0, w - len(inner))
        return res
    if k == "bin" and o[3][0] == "const" and isinstance(o[3][2], int):
        inner = bits_of(o[2])
        c = o[3][2]
        if inner is None:
            return None
        n = len(inner)
        if o[1] == "Shr":
            return inner[c:] + [0] * min(c, n)
        if o[1] == "Shl":
            return ([0] * c + inner)[:n]
        if o[1] == "BitAnd":
            return [inner[i] if (c >> i) & 1 else 0 for i in range(n)]
        if o[1] == "Div" and c > 0 and c & (c - 1) == 0:
            s = c.bit_length() - 1
            return inner[s:] + [0] * min(s, n)
        if o[1] == "Rem" and c > 0 and c & (c - 1) == 0:
            s = c.bit_length() - 1
            return inner[:s] + [0] * (n - s)
        return None
    return None


def rule_ctor(ctx, R):
    fb = ctx.fb
    b = fb.bodies.get(B + "new")
    if not R.anchor(b is not None, "new", "BigNum::new"):
        return
    R.analyse(b.name)
    org = Origins(b, fb)
    cfg = normal_cfg(b)
    # limb arrays built in the constructor
    arrays = []
    for bi, blk in enumerate(b.blocks):
        if blk["cleanup"]:
            continue
        for si, s in enumerate(blk["stmts"]):
            if s["k"] == "assign" and s["r"]["k"] == "agg" and s["r"]["agg"] == "array" and s["r"].get("elem") == "u32":
                arrays.append((bi, si, s))
    # single-limb construction `vec![x as u32]` also shows up as an array of one element
    if not R.anchor(len(arrays) >= 1, "new:limbs", "limb array(s) built by BigNum::new"):
        return
    for bi, si, s in arrays:
        limbs = [org.of_operand(f, bi, si) for f in s["r"]["fields"]]
        cover = {}
        ok = True
        detail = []
        for li, o in enumerate(limbs):
            bits = bits_of(o)
            detail.append("limb%d=%s" % (li, show(o, b)))
            if bits is None or len(bits) != 32:
                ok = False
                continue
            for i, src in enumerate(bits):
                if src is None:
                    ok = False
                elif src != 0 or (li == 0 and i == 0):
                    if src != 32 * li + i:
                        ok = False
                    cover[src] = cover.get(src, 0) + 1
        full = all(cover.get(i, 0) == 1 for i in range(64))
        # is this array reachable on every path to return? (if there are several arrays, together they must cover)
        R.check(ok and full, "new:bits@%d" % len(limbs), "limbs built from a machine integer hold every bit of |n| exactly once, in little-endian limb order (%s)" % "; ".join(detail), s["span"]["at"])
    # the sign: pos derives from  n >= 0
    sign_ok = False
    for bi, blk in enumerate(b.blocks):
        for si, s in enumerate(blk["stmts"]):
            if s["k"] == "assign" and s["p"]["proj"] and any(isinstance(e, dict) and e.get("n") == "pos" for e in s["p"]["proj"]):
                o = org.of_rvalue(s["r"], bi, si)
                if o[0] == "bin" and ((o[1] == "Ge" and o[2] == ("arg", 1) and o[3] == ("const", "isize", 0)) or (o[1] == "Le" and o[3] == ("arg", 1) and o[2] == ("const", "isize", 0)) or (o[1] == "Gt" and o[2] == ("arg", 1) and o[3] == ("const", "isize", -1))):
                    sign_ok = True
                else:
                    R.fail("new:sign", "sign flag is not derived from n >= 0: %s" % show(o, b), s["span"]["at"])
    R.check(sign_ok, "new:sign_from_n", "the sign flag of the constructed value is n >= 0 (zero is non-negative)")
    # no negation of the signed argument (isize::MIN)
    negs = [s for blk in b.blocks for s in blk["stmts"] if s["k"] == "assign" and s["r"]["k"] == "un" and s["r"]["op"] == "Neg"]
    R.check(not negs, "new:no_signed_negation", "the constructor does not negate the signed argument (overflow for isize::MIN)")
    # result normalised
    names = [callee_name(t["f"], fb) for _, t in b.calls()]
    R.check(B + "from_vec" in names or B + "shrink_to_fit" in names, "new:normalised", "the constructed value is normalised (no leading zero limb)")
    # callers: conversions feeding BigNum::new / Num::from_num are value preserving
    n_sites = 0
    for body in fb.bodies.values():
        o2 = None
        for bi, t in body.calls():
            n = callee_name(t["f"], fb)
            if n in (B + "new", "number::num::Num::from_num", "number::num::Num::new"):
                o2 = o2 or Origins(body, fb)
                for a in t["args"]:
                    for x in walk(o2.of_operand(a, bi, "t")):
                        if isinstance(x, tuple) and x and x[0] == "cast":
                            n_sites += 1
                            from .lang import cast_is_value_preserving
                            R.check(cast_is_value_preserving(x[1], x[2]), "caller:%s:%s->%s" % (body.name, x[1], x[2]), "conversion %s -> %s feeding %s in %s cannot change the value" % (x[1], x[2], n.rsplit("::", 1)[-1], body.name), t["span"]["at"])
    R.floor("caller_casts", n_sites, 8, "integer conversions feeding BigNum::new / Num::from_num")


# ---------------------------------------------------------------------------------------------- SIGN
def classify_path(seq):
    """(p1, p2, core, flip) of one path of add/sub"""
    p1 = p2 = None
    core = None
    flipcond = None
    minus = False
    for e in seq:
        if e.startswith("BR[P1.pos]="):
            p1 = int(e[-1])
        elif e.startswith("BR[P2.pos]="):
            p2 = int(e[-1])
        elif e.startswith("BigNum::add_core(") or e.startswith("BigNum::sub_core("):
            core = e
        elif e.startswith("BR[") and ".1" in e:
            flipcond = e
        elif e.startswith("BigNum::minus("):
            minus = True
    return p1, p2, core, flipcond, minus


ADD_TABLE = {(1, 1): ("add_core", "never"), (1, 0): ("sub_core", "swapped"), (0, 1): ("sub_core", "!swapped"), (0, 0): ("add_core", "always")}
SUB_TABLE = {(1, 0): ("add_core", "never"), (1, 1): ("sub_core", "swapped"), (0, 0): ("sub_core", "!swapped"), (0, 1): ("add_core", "always")}


def check_addsub(R, fb, name, table):
    b, paths = fn_paths(fb, name)
    if not R.anchor(b is not None, name, name):
        return
    R.analyse(name)
    got = {}
    for seq, p in paths:
        p1, p2, core, fc, minus = classify_path(seq)
        if p1 is None or p2 is None or core is None:
            R.fail(name + ":path", "a path of %s does not test both sign flags or calls no magnitude routine: %s" % (name, list(seq)[:8]), b.span)
            continue
        cname = "add_core" if "add_core" in core else "sub_core"
        order_ok = core.endswith("(P1.val,P2.val)")
        if fc is None:
            flip = "always" if minus else "never"
        else:
            pos = "NOT(" not in fc
            val = int(fc[-1])
            # (swapped)=1 with minus / (swapped)=0 without minus  => flip iff swapped
            if (val == 1) == minus:
                flip = "swapped" if pos else "!swapped"
            else:
                flip = "!swapped" if pos else "swapped"
        got.setdefault((p1, p2), set()).add((cname, flip, order_ok))
        # normalisation on every path
        if not any(e.startswith("BigNum::from_vec(") for e in seq):
            R.fail(name + ":norm:%d%d" % (p1, p2), "result of %s does not pass through the normalising constructor on the path signs=(%d,%d)" % (name, p1, p2), b.span)
    for sp, (cname, flip) in sorted(table.items()):
        g = got.get(sp, set())
        ok = g == {(cname, flip, True)}
        R.check(ok, "%s:signs%d%d" % (name, sp[0], sp[1]), "%s with signs (lhs %s, rhs %s): magnitude routine %s(lhs,rhs), result negated %s" % (name.rsplit("::", 1)[-1], "+-"[1 - sp[0]], "+-"[1 - sp[1]], cname, flip), b.span, sorted(g))


def rule_sign(ctx, R):
    fb = ctx.fb
    check_addsub(R, fb, B + "add", ADD_TABLE)
    check_addsub(R, fb, B + "sub", SUB_TABLE)
    for name, core in ((B + "mul", "mult_core"), (B + "div", "div_core")):
        b, paths = fn_paths(fb, name)
        if not R.anchor(b is not None, name, name):
            continue
        R.analyse(name)
        seqs = {s for s, _ in paths}
        c = "BigNum::%s(P1.val,P2.val)" % core
        fv = "BigNum::from_vec(%s)" % c
        want = {(c, fv, "BR[(P1.pos BitXor P2.pos)]=0", "RET(%s)" % fv), (c, fv, "BR[(P1.pos BitXor P2.pos)]=1", "BigNum::minus(%s)" % fv, "RET(%s)" % fv)}
        want2 = {tuple(x.replace("(P1.pos BitXor P2.pos)", "(P2.pos BitXor P1.pos)") for x in w) for w in want}
        R.check(seqs == want or seqs == want2, name + ":sign", "%s: magnitude routine %s(lhs,rhs), normalised, negated iff exactly one operand is negative (through minus(), which keeps zero non-negative)" % (name.rsplit("::", 1)[-1], core), b.span, sorted(seqs))
    # partial_cmp
    name = "<number::big_number::BigNum as core::cmp::PartialOrd>::partial_cmp"
    b, paths = fn_paths(fb, name)
    if R.anchor(b is not None, name, "BigNum::partial_cmp"):
        R.analyse(name)
        seqs = {s for s, _ in paths}
        E = "PartialEq::eq(P1,P2)"
        L = lambda a, b_: "BigNum::less_core(%s.val,%s.val)" % (a, b_)
        SL, SG, SE = "RET(Option::Some{Ordering::Less{}})", "RET(Option::Some{Ordering::Greater{}})", "RET(Option::Some{Ordering::Equal{}})"
        want = {
            (E, "BR[%s]=1" % E, SE),
            (E, "BR[%s]=0" % E, "BR[P1.pos]=1", "BR[P2.pos]=1", L("P1", "P2"), "BR[%s]=1" % L("P1", "P2"), SL),
            (E, "BR[%s]=0" % E, "BR[P1.pos]=1", "BR[P2.pos]=1", L("P1", "P2"), "BR[%s]=0" % L("P1", "P2"), SG),
            (E, "BR[%s]=0" % E, "BR[P1.pos]=1", "BR[P2.pos]=0", SG),
            (E, "BR[%s]=0" % E, "BR[P1.pos]=0", "BR[P2.pos]=1", SL),
            (E, "BR[%s]=0" % E, "BR[P1.pos]=0", "BR[P2.pos]=0", L("P2", "P1"), "BR[%s]=1" % L("P2", "P1"), SL),
            (E, "BR[%s]=0" % E, "BR[P1.pos]=0", "BR[P2.pos]=0", L("P2", "P1"), "BR[%s]=0" % L("P2", "P1"), SG),
        }
        R.check(seqs == want, name + ":table", "ordering: equal first; both non-negative -> |a|<|b|; a>=0>b -> Greater; a<0<=b -> Less; both negative -> |b|<|a|", b.span, sorted(seqs - want)[:3] + ["missing:"] + sorted(want - seqs)[:3])
    # eq
    name = "<number::big_number::BigNum as core::cmp::PartialEq>::eq"
    b = fb.bodies.get(name)
    if R.anchor(b is not None, name, "BigNum::eq"):
        R.analyse(name)
        cfg = normal_cfg(b)
        ev = Events(b, fb, roles=Roles(b, fb, param_roles=PR(b)), epsilon={B + "is_zero", "core::cmp::PartialEq::eq"} | EPS)
        d = language(b, fb, cfg, 0, cfg.returns, ev, stop_at_exit=False)
        Z1, Z2 = "BR[BigNum::is_zero(P1)]", "BR[BigNum::is_zero(P2)]"
        tail = Alt(Seq("EQ[P1.pos,P2.pos]=0", "RET(K0)"), Seq("EQ[P1.pos,P2.pos]=1", "RET(PartialEq::eq(P1.val,P2.val))"))
        spec = Alt(Seq(Z1 + "=1", Z2 + "=1", "RET(K1)"), Seq(Z1 + "=0", tail), Seq(Z1 + "=1", Z2 + "=0", tail))
        p_c01.check_lang(R, name + ":language", "equality: both zero, or same sign and same limbs", d, spec, b.span)
    # neg / minus keep zero non-negative
    b, paths = fn_paths(fb, B + "neg")
    if R.anchor(b is not None, "neg", "BigNum::neg"):
        R.analyse(b.name)
        seqs = {s for s, _ in paths}
        Z = "BigNum::is_zero(P1)"
        want = {(Z, "BR[%s]=1" % Z, "RET(BigNum::BigNum{P1.pos,COPY(P1.val)})"), (Z, "BR[%s]=0" % Z, "RET(BigNum::BigNum{Not(P1.pos),COPY(P1.val)})")}
        R.check(seqs == want, "neg:table", "negation flips the sign flag unless the value is zero; limbs copied", b.span, sorted(seqs))
    b, paths = fn_paths(fb, B + "minus", set_events=True)
    if R.anchor(b is not None, "minus", "BigNum::minus"):
        R.analyse(b.name)
        seqs = {s for s, _ in paths}
        Z = "BigNum::is_zero(P1)"
        want = {(Z, "BR[%s]=1" % Z, "RET(K'()')"), (Z, "BR[%s]=0" % Z, "SET(P1.pos,Not(P1.pos))", "RET(K'()')")}
        R.check(seqs == want, "minus:table", "in-place negation flips the sign flag unless the value is zero", b.span, sorted(seqs))
    # is_pos / is_zero / from_vec / zero / one
    b, paths = fn_paths(fb, B + "from_vec")
    if R.anchor(b is not None, "from_vec", "BigNum::from_vec"):
        seqs = {s for s, _ in paths}
        R.check(seqs == {("BigNum::shrink_to_fit(BigNum::BigNum{K1,P1})", "RET(BigNum::BigNum{K1,P1})")}, "from_vec:norm", "from_vec builds a non-negative value and strips leading zero limbs", b.span, sorted(seqs))
    b, paths = fn_paths(fb, B + "is_pos")
    if R.anchor(b is not None, "is_pos", "BigNum::is_pos"):
        seqs = {s for s, _ in paths}
        R.check(seqs == {("RET(P1.pos)",)}, "is_pos", "is_pos returns the sign flag", b.span, sorted(seqs))


# ---------------------------------------------------------------------------------------------- OPS / REM / GCD
OPS = [("Add", "add", "add"), ("Sub", "sub", "sub"), ("Mul", "mul", "mul"), ("Div", "div", "div"), ("Rem", "rem", "rem")]


def rule_ops(ctx, R):
    fb = ctx.fb
    n = 0
    for tr, m, inherent in OPS:
        name = "<&number::big_number::BigNum as core::ops::arith::%s>::%s" % (tr, m)
        b, paths = fn_paths(fb, name)
        if R.anchor(b is not None, name, "operator impl %s for &BigNum" % tr):
            R.analyse(name)
            n += 1
            seqs = {s for s, _ in paths}
            c = "BigNum::%s(P1,P2)" % inherent
            R.check(seqs == {(c, "RET(%s)" % c)}, name, "&a %s &b is BigNum::%s(a, b) with the operands in order" % (tr, inherent), b.span, sorted(seqs))
        aname = "<number::big_number::BigNum as core::ops::arith::%sAssign>::%s_assign" % (tr, m)
        b, paths = fn_paths(fb, aname)
        if R.anchor(b is not None, aname, "operator impl %sAssign for BigNum" % tr):
            R.analyse(aname)
            n += 1
            seqs = {s for s, _ in paths}
            c = "%s::%s(P1,P2)" % (tr, m)
            cr = {"Add": "ADD(P1,P2)", "Mul": "MUL(P1,P2)"}.get(tr, c)
            R.check(seqs == {(c, "BigNum::set_move(P1,%s)" % cr, "RET(K'()')")}, aname, "a %s= b stores (&*a %s b) back into a" % (tr, tr), b.span, sorted(seqs))
    name = "<&number::big_number::BigNum as core::ops::arith::Neg>::neg"
    b, paths = fn_paths(fb, name)
    if R.anchor(b is not None, name, "Neg for &BigNum"):
        n += 1
        seqs = {s for s, _ in paths}
        R.check(seqs == {("BigNum::neg(P1)", "RET(BigNum::neg(P1))")}, name, "-&a is BigNum::neg(a)", b.span, sorted(seqs))
    R.floor("operator_impls", n, 11, "operator impls of BigNum")
    # set_move / set_copy copy both fields
    for nm, val in (("set_move", "P2.val"), ("set_copy", "COPY(P2.val)")):
        b, paths = fn_paths(fb, B + nm, set_events=True)
        if R.anchor(b is not None, nm, "BigNum::" + nm):
            seqs = {frozenset(s) for s, _ in paths}
            want = {frozenset({"SET(P1.val,%s)" % val, "SET(P1.pos,P2.pos)", "RET(K'()')"})}
            R.check(seqs == want, nm, "%s overwrites limbs and sign from the right-hand side" % nm, b.span, [sorted(x) for x in seqs])
    # REM
    b, paths = fn_paths(fb, B + "rem")
    if R.anchor(b is not None, "rem", "BigNum::rem"):
        R.analyse(b.name)
        seqs = {s for s, _ in paths}
        q = "BigNum::div(P1,P2)"
        m1 = "BigNum::mul(%s,P2)" % q
        m2 = "BigNum::mul(P2,%s)" % q
        ok = any(seqs == {(q, m, "BigNum::sub(P1,%s)" % m, "RET(BigNum::sub(P1,%s))" % m)} for m in (m1, m2))
        R.check(ok, "rem:definition", "rem(a, b) = a - (a / b) * b (remainder takes the sign of the dividend because division truncates)", b.span, sorted(seqs))
    # GCD: one Euclid step per iteration
    b = fb.bodies.get(B + "gcd")
    if R.anchor(b is not None, "gcd", "BigNum::gcd"):
        R.analyse(b.name)
        cfg = normal_cfg(b)
        bes = cfg.back_edges()
        if R.anchor(len(bes) == 1, "gcd:loop", "the single loop of gcd"):
            tail, head = bes[0]
            vars_ = Vars(b)
            loop = cfg.natural_loop(bes[0])
            # loop variables: BigNum locals assigned inside the loop and named by the user
            lv = [l for l, ds in vars_.defs.items() if b.lty(l) == "number::big_number::BigNum" and l in b.local_names() and any(d[1] in loop for d in ds) and any(d[1] not in loop for d in ds)]
            if R.anchor(len(lv) == 2, "gcd:vars", "two loop-carried BigNum variables (found %d)" % len(lv)):
                # which is tested for zero in the loop condition
                org0 = Origins(b, fb, overrides={lv[0]: ("role", "X"), lv[1]: ("role", "Y")})
                roles0 = Roles(b, fb, org=org0)
                cond_var = None
                for bi in loop:
                    t = b.blocks[bi]["term"]
                    if t["k"] == "call" and callee_name(t["f"], fb) == B + "is_zero":
                        cond_var = roles0.of_operand(t["args"][0], bi)
                bvar = lv[0] if cond_var == "X" else lv[1]
                avar = lv[1] if cond_var == "X" else lv[0]
                ov = {avar: ("role", "A"), bvar: ("role", "B")}
                # one iteration: head -> tail, stop when coming back to head
                body_paths = []
                sub = CFG(b, pruned_edges=set(), removed_blocks=set(range(len(b.blocks))) - loop)
                for p in acyclic_paths(sub, head, [tail]):
                    org = PathOriginsOv(b, fb, p, overrides=ov)
                    roles = Roles(b, fb, org=org)
                    last = p[-1]
                    n_st = len(b.blocks[last]["stmts"])
                    a_end = roles.of_origin(org.of_local(avar, last, "t"))
                    b_end = roles.of_origin(org.of_local(bvar, last, "t"))
                    body_paths.append((a_end, b_end))
                ok = bool(body_paths) and all(x == ("B", "Rem::rem(A,B)") for x in body_paths)
                R.check(ok, "gcd:euclid_step", "each iteration replaces (a, b) by (b, a % b); the loop runs while b is not zero", b.blocks[head]["term"]["span"]["at"], body_paths)
                # returns a, starts from clones of the arguments
                rets = []
                o = Origins(b, fb, overrides=ov)
                r2 = Roles(b, fb, org=o, param_roles=PR(b))
                for bi, blk in enumerate(b.blocks):
                    for si, s in enumerate(blk["stmts"]):
                        if s["k"] == "assign" and s["p"]["l"] == 0 and not s["p"]["proj"] and not blk["cleanup"]:
                            rets.append(r2.of_origin(o.of_rvalue(s["r"], bi, si)))
                R.check(rets == ["A"], "gcd:returns_a", "gcd returns the last non-zero remainder (variable a)", b.span, rets)
                inits = {}
                o3 = Origins(b, fb)
                r3 = Roles(b, fb, org=o3, param_roles=PR(b))
                for l, nm in ((avar, "a"), (bvar, "b")):
                    for d in vars_.defs[l]:
                        if d[1] not in loop:
                            inits[nm] = r3.of_origin(o3._site(l, d, 0, ()))
                R.check(inits == {"a": "COPY(P1)", "b": "COPY(P2)"}, "gcd:init", "gcd starts from (lhs, rhs)", b.span, inits)


RULES = [
    ("C05.CTOR", "construction from a machine integer keeps every bit and the sign", rule_ctor),
    ("C05.SIGN", "sign dispatch truth tables of add/sub/mul/div/partial_cmp/eq/neg/minus; normalisation", rule_sign),
    ("C05.OPS", "operator impls delegate in order; in-place variants agree; rem = a-(a/b)*b; Euclid step of gcd", rule_ops),
]
