"""C07 — comparison of rationals is the numeric order; NaN is unordered."""
from .gea import Seq, Alt
from . import p_c01, p_c06, p_c03
from .p_c06 import fn_lang, N

TECHNIQUE = 'static analysis: event-language equality of partial_cmp (NaN, equality, cross-multiplication orientation) and of branch selection in interpreter and emitted code; sign-repair rules of the canonicaliser'
LEVEL = "other"
EXPLANATION = (
    "Num::partial_cmp is compared on all CFG paths with the definition of the order on canonical fractions: unordered "
    "(None) exactly when an operand is NaN and before any arithmetic; Equal from structural equality; otherwise Less "
    "iff a*d < c*b for a/b vs c/d (cross-multiplication with the OTHER side's numerator and denominator, both "
    "denominators positive), else Greater. The two consumers of the comparison are covered by C01.CALC (interpreter: "
    "? takes left iff Less, ! iff Equal, everything else incl. NaN right) and C03.AREA (emitted code). Also decided: "
    "the positive-denominator invariant the cross-multiplication relies on (C06.ARITH/CANON are re-run here). The "
    "numeric correctness of BigNum's < and * is NOT decided (C05's undecided part)."
)
ASSUMPTIONS = p_c06.ASSUMPTIONS + ["structural equality coincides with numeric equality on canonical values (C06)"]
TRUSTED = p_c06.TRUSTED


def rule_cross(ctx, R):
    fb = ctx.fb
    name = "<number::num::Num as core::cmp::PartialOrd>::partial_cmp"
    b, d = fn_lang(fb, name)
    if not R.anchor(b is not None, name, "Num::partial_cmp"):
        return
    R.analyse(name)
    a, c = "BR[Num::is_nan(P1)]", "BR[Num::is_nan(P2)]"
    none = "RET(Option::None{})"
    specs = []
    L, G, E = "RET(Option::Some{Ordering::Less{}})", "RET(Option::Some{Ordering::Greater{}})", "RET(Option::Some{Ordering::Equal{}})"
    for eq in ("BR[PartialEq::eq(P1,P2)]", "BR[PartialEq::eq(P2,P1)]"):
        # lt(self.up*other.down, other.up*self.down)  or the mirrored  lt(other.up*self.down, self.up*other.down) -> Greater
        for lt, on_true, on_false in (
            ("BR[PartialOrd::lt(MUL(P1.up,P2.down),MUL(P1.down,P2.up))]", L, G),
            ("BR[PartialOrd::lt(MUL(P1.down,P2.up),MUL(P1.up,P2.down))]", G, L),
        ):
            tail = Alt(Seq(eq + "=1", E), Seq(eq + "=0", Alt(Seq(lt + "=1", on_true), Seq(lt + "=0", on_false))))
            specs.append(Alt(Seq(a + "=1", none), Seq(a + "=0", c + "=1", none), Seq(a + "=0", c + "=0", tail)))
            specs.append(Alt(Seq(c + "=1", none), Seq(c + "=0", a + "=1", none), Seq(c + "=0", a + "=0", tail)))
    p_c01.check_lang_any(R, "partial_cmp:definition", "a/b ? c/d: None iff NaN involved; Equal iff structurally equal; Less iff a*d < c*b; else Greater", d, specs, b.span)
    # derived PartialEq compares both parts
    name = "<number::num::Num as core::cmp::PartialEq>::eq"
    b, d = fn_lang(fb, name, epsilon=p_c06.EPS)
    if R.anchor(b is not None, name, "derived PartialEq for Num"):
        ok = d.enumerate_strings(8)
        flat = {x for s in ok for x in s}
        R.check(any("PartialEq::eq(P1.up,P2.up)" in x for x in flat) and any("PartialEq::eq(P1.down,P2.down)" in x for x in flat), "eq:both_parts", "structural equality compares numerator with numerator and denominator with denominator", b.span, sorted(flat))


RULES = [
    ("C07.CROSS", "partial_cmp: NaN unordered, equality, cross-multiplication orientation", rule_cross),
    ("C07.CANON", "positive-denominator invariant the comparison relies on (optimize/flip sign repair, canonical aggregates)", p_c06.rule_arith),
    ("C07.CALC", "interpreter branch selection from the comparison result", p_c01.rule_calc),
    ("C07.EMIT", "emitted branch selection: comparison with the count, first arm on Less for ? / Equal for !", p_c03.rule_area),
    ("C07.EMITSET", "the area emitter has no other comparison template", p_c03.rule_templateset),
]


# rules of other properties re-run under this property's name; resolved by rules/main.py once every module can be
# imported (the owners import this module themselves)
DEFERRED_BUNDLES = [
    {'prop': 'C07', 'tag': 'INT', 'module': 'p_c05', 'only': None, 'skip': (), 'why': 'comparison cross-multiplies big integers'},
]
