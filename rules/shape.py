"""A-SHAPE: abstract interpretation of a text decoder over the *shape domain* of the texts its encoder can produce.

The encoder (Num's Display) prints one of finitely many shapes; a shape is a sequence of tokens in which the digit
blocks are opaque symbols:   NAN | D1 | - D1 | D1 / D2 | - D1 / D2
The decoder body (loop-free after abstracting library calls) is evaluated on every acyclic path with path-precise
origins; branch conditions and the returned value are computed in the token domain.  A digit block is never looked
into: any operation that would have to split one (slicing at a position that is not a token boundary, indexing a
character of a block) is Unknown and makes the analysis give up on that path (reported, fail closed).  Because the
digit blocks are symbols, one evaluation covers every text of that shape.

Values:  S(tokens) string | list | int/bool | ("P", k) position at token boundary k | ("Some", v)/("None",) |
         ("Ok", v)/("Err",) | ("int", sign, mag) | ("num", sign, up, down) | ("nan",)
"""
from .facts import callee_name
from .interp import normal_cfg
from .paths import acyclic_paths, PathOriginsOv, simplify


class Unknown(Exception):
    pass


class Panics(Exception):
    pass


SINGLE = {"-", "/"}
IDENT = {"to_string", "clone", "to_owned", "as_str", "deref", "borrow", "as_ref", "into", "from", "to_vec", "into_iter", "iter", "as_slice", "trim"}


def S(*toks):
    return ("S", tuple(toks))


def is_s(v):
    return isinstance(v, tuple) and v and v[0] == "S"


def ch(v):
    """a char / one-char pattern constant -> token"""
    if isinstance(v, int) and not isinstance(v, bool):
        return chr(v)
    if isinstance(v, str) and len(v) == 1:
        return v
    if is_s(v) and len(v[1]) == 1 and v[1][0] in SINGLE:
        return v[1][0]
    raise Unknown("pattern %r" % (v,))


def to_pos(s, n):
    """char offset n (int) or position -> token boundary in s"""
    if isinstance(n, tuple) and n[0] == "P":
        return n[1]
    if isinstance(n, bool):
        n = int(n)
    if isinstance(n, int):
        k = 0
        while n > 0:
            if k >= len(s[1]) or s[1][k] not in SINGLE:
                raise Unknown("offset %d cuts into a digit block of %r" % (n, s[1]))
            k += 1
            n -= 1
        return k
    raise Unknown("position %r" % (n,))


class Shape:
    def __init__(self, body, fb, literals):
        self.b, self.fb = body, fb
        self.lit = literals  # text literal -> token tuple

    # -------------------------------------------------------------- closures
    def closure_is_identity(self, agg):
        name = agg[1].split(":", 1)[1] if agg[1].startswith("closure:") else None
        for c in self.fb.closures_of(self.b):
            if name is None or c.name.rsplit("::", 1)[-1] == name.rsplit("::", 1)[-1]:
                from .origin import Origins
                org = Origins(c, self.fb)
                cfg = normal_cfg(c)
                for r in cfg.returns:
                    o = org.of_place({"l": 0, "proj": []}, r, "t")
                    while isinstance(o, tuple) and ((o[0] == "call" and o[1].rsplit("::", 1)[-1] in IDENT and len(o[2]) == 1) or o[0] == "clone"):
                        o = o[2][0] if o[0] == "call" else o[1]
                    if o != ("arg", 2):
                        return False
                return True
        return False

    # -------------------------------------------------------------- evaluator
    def ev(self, o, env):
        if not isinstance(o, tuple):
            raise Unknown(repr(o))
        k = o[0]
        if k == "arg":
            if o[1] in env:
                return env[o[1]]
            raise Unknown("parameter %d" % o[1])
        if k == "const":
            v = o[2]
            if isinstance(v, str):
                if v in self.lit:
                    return ("S", self.lit[v])
                if v == "":
                    return S()
                if len(v) == 1 and v in SINGLE:
                    return S(v)
                raise Unknown("text literal %r outside the shape alphabet" % v)
            return v
        if k in ("clone", "deref", "ref"):
            return self.ev(o[-1], env)
        if k == "unwrap":
            v = self.ev(o[1], env)
            if v[0] in ("Some", "Ok"):
                return v[1]
            raise Panics("unwrap of %s" % (v[0],))
        if k == "try":
            v = self.ev(o[1], env)
            if v[0] in ("Some", "Ok"):
                return v[1]
            raise Panics("early return")
        if k in ("some", "ok"):
            v = self.ev(o[1], env)
            if v[0] in ("Some", "Ok"):
                return v[1]
            raise Panics("payload of %s" % (v[0],))
        if k == "promoted":
            pb = getattr(self.fb, "promoted", {}).get((o[1], o[2]))
            if pb is None:
                raise Unknown("promoted constant")
            from .origin import Origins
            po = Origins(pb, self.fb)
            last = max(i for i, blk in enumerate(pb.blocks) if blk["term"]["k"] == "return")
            return self.ev(po.of_local(0, last, "t"), env)
        if k == "cast":
            v = self.ev(o[3], env)
            return int(v) if isinstance(v, (bool, int)) else v
        if k == "un" and o[1] == "Not":
            return not self.ev(o[2], env)
        if k == "bin":
            a, b = self.ev(o[2], env), self.ev(o[3], env)
            op = o[1]
            if isinstance(a, tuple) and a[0] == "P" and isinstance(b, int) and op in ("Add", "Sub"):
                return ("P+", a[1], b if op == "Add" else -b)
            if isinstance(a, (int, bool)) and isinstance(b, (int, bool)):
                a, b = int(a), int(b)
                return {"Add": a + b, "Sub": a - b, "Eq": a == b, "Ne": a != b, "Lt": a < b, "Le": a <= b, "Gt": a > b, "Ge": a >= b, "BitAnd": a & b, "BitOr": a | b, "BitXor": a ^ b}[op]
            raise Unknown("operator %s on %r, %r" % (op, a, b))
        if k == "agg":
            name = o[1].rsplit("::", 1)[-1]
            if name in ("RangeFrom", "RangeTo", "Range", "RangeFull"):
                return (name,) + tuple(self.ev(x, env) for x in o[2])
            if name in ("Some", "Ok"):
                return (name, self.ev(o[2][0], env))
            if name in ("None",):
                return ("None",)
            if name == "Err":
                return ("Err",)
            if name == "Num" and len(o[2]) == 2:
                a, b = self.ev(o[2][0], env), self.ev(o[2][1], env)
                return self.mknum(a, b, canonical=False)
            if name in ("tuple",) or o[1] == "tuple":
                return ("T",) + tuple(self.ev(x, env) for x in o[2])
            raise Unknown("aggregate %s" % o[1])
        if k == "field":
            v = self.ev(o[2], env)
            if isinstance(v, tuple) and v and v[0] == "T" and str(o[1]).isdigit():
                return v[1 + int(o[1])]
            raise Unknown("field %s" % (o[1],))
        if k == "variant":
            v = self.ev(o[2], env)
            if isinstance(v, tuple) and v and v[0] in ("Some", "Ok") and o[1] in ("Some", "Ok"):
                return ("T", v[1])
            raise Unknown("variant %s of %r" % (o[1], v))
        if k == "discr":
            v = self.ev(o[1], env)
            if v[0] in ("Some", "Err"):
                return 1
            if v[0] in ("None", "Ok"):
                return 0
            raise Unknown("discriminant of %r" % (v,))
        if k == "call":
            return self.call(o[1], o[2], env)
        raise Unknown("origin kind %s" % k)

    def mknum(self, a, b, canonical=True):
        if not (isinstance(a, tuple) and a[0] == "int" and isinstance(b, tuple) and b[0] == "int"):
            raise Unknown("Num of %r / %r" % (a, b))
        return ("num", a[1] * b[1], a[2], b[2])

    def slice(self, s, rng):
        if rng[0] == "RangeFrom":
            return ("S", s[1][self.pos(s, rng[1]):])
        if rng[0] == "RangeTo":
            return ("S", s[1][: self.pos(s, rng[1])])
        if rng[0] == "Range":
            return ("S", s[1][self.pos(s, rng[1]) : self.pos(s, rng[2])])
        if rng[0] == "RangeFull":
            return s
        raise Unknown("slice %r" % (rng,))

    def pos(self, s, n):
        if isinstance(n, tuple) and n[0] == "P+":
            k = n[1]
            d = n[2]
            while d > 0:
                if k >= len(s[1]) or s[1][k] not in SINGLE:
                    raise Unknown("offset cuts into a digit block")
                k += 1
                d -= 1
            while d < 0:
                if k == 0 or s[1][k - 1] not in SINGLE:
                    raise Unknown("offset cuts into a digit block")
                k -= 1
                d += 1
            return k
        return to_pos(s, n)

    def call(self, name, args, env):
        short = name.rsplit("::", 1)[-1]
        A = lambda i: self.ev(args[i], env)
        if short in IDENT and len(args) == 1:
            return A(0)
        if short == "must_use":
            return A(0)
        if short in ("eq", "ne") and len(args) == 2:
            r = A(0) == A(1)
            return r if short == "eq" else not r
        if short == "is_empty":
            v = A(0)
            return len(v[1]) == 0
        if short == "len":
            v = A(0)
            if isinstance(v, tuple) and v[0] == "L":
                return len(v[1])
            raise Unknown("length of a text (digit blocks have no known length)")
        if short == "starts_with":
            s, p = A(0), ch(A(1))
            return len(s[1]) > 0 and s[1][0] == p
        if short == "ends_with":
            s, p = A(0), ch(A(1))
            return len(s[1]) > 0 and s[1][-1] == p
        if short == "contains":
            s, p = A(0), ch(A(1))
            return p in s[1]
        if short in ("find", "rfind"):
            s, p = A(0), ch(A(1))
            idx = [i for i, t in enumerate(s[1]) if t == p]
            if not idx:
                return ("None",)
            return ("Some", ("P", idx[0] if short == "find" else idx[-1]))
        if short == "strip_prefix":
            s, p = A(0), ch(A(1))
            return ("Some", ("S", s[1][1:])) if s[1] and s[1][0] == p else ("None",)
        if short in ("trim_start_matches", "trim_left_matches"):
            s, p = A(0), ch(A(1))
            t = list(s[1])
            while t and t[0] == p:
                t.pop(0)
            return ("S", tuple(t))
        if short in ("split", "splitn", "split_terminator"):
            s = A(0)
            p = ch(A(1) if short != "splitn" else A(2))
            parts, cur = [], []
            for t in s[1]:
                if t == p and not (short == "splitn" and len(parts) + 1 >= int(A(1))):
                    parts.append(("S", tuple(cur)))
                    cur = []
                else:
                    cur.append(t)
            parts.append(("S", tuple(cur)))
            return ("L", tuple(parts))
        if short == "split_once":
            s, p = A(0), ch(A(1))
            if p in s[1]:
                i = s[1].index(p)
                return ("Some", ("T", ("S", s[1][:i]), ("S", s[1][i + 1 :])))
            return ("None",)
        if short == "map" and len(args) == 2:
            v = A(0)
            if isinstance(v, tuple) and v[0] == "L" and args[1][0] == "agg" and self.closure_is_identity(args[1]):
                return v
            # `.map(str::to_string)` / `.map(String::from)`: a copying function named directly instead of a closure around it
            if isinstance(v, tuple) and v[0] == "L" and args[1][0] == "fnitem" and str(args[1][1]).rsplit("::", 1)[-1] in ("to_string", "to_owned", "clone", "from", "into"):
                return v
            if isinstance(v, tuple) and v[0] in ("Some", "None"):
                raise Unknown("Option::map with a closure")
            raise Unknown("map with a closure that is not a plain copy")
        if short == "collect":
            return A(0)
        if short in ("index", "index_mut") and len(args) == 2:
            v, i = A(0), A(1)
            if is_s(v) and isinstance(i, tuple) and i[0].startswith("Range"):
                return self.slice(v, i)
            if isinstance(v, tuple) and v[0] == "L" and isinstance(i, int):
                if 0 <= i < len(v[1]):
                    return v[1][i]
                raise Panics("index %d out of %d parts" % (i, len(v[1])))
            raise Unknown("indexing %r with %r" % (v, i))
        if short in ("get",) and len(args) == 2:
            v, i = A(0), A(1)
            if isinstance(v, tuple) and v[0] == "L" and isinstance(i, int):
                return ("Some", v[1][i]) if 0 <= i < len(v[1]) else ("None",)
            raise Unknown("get")
        if short == "next" and len(args) == 2:
            v, k_ = A(0), A(1)
            if isinstance(v, tuple) and v[0] == "L" and isinstance(k_, int):
                return ("Some", v[1][k_]) if k_ < len(v[1]) else ("None",)
            raise Unknown("next() on %r" % (v,))
        if short in ("next", "nth", "first", "last") and len(args) >= 1:
            raise Unknown("iterator stepping (%s)" % short)
        if short == "unwrap" or short == "expect":
            v = A(0)
            if v[0] in ("Some", "Ok"):
                return v[1]
            raise Panics("unwrap of %s" % (v[0],))
        if short in ("is_some", "is_ok"):
            return A(0)[0] in ("Some", "Ok")
        if short in ("is_none", "is_err"):
            return A(0)[0] in ("None", "Err")
        if short == "ok":
            v = A(0)
            return ("Some", v[1]) if v[0] == "Ok" else ("None",)
        # ---- the number layer
        if name.endswith("BigNum::from_string"):
            s = A(0)
            t = s[1]
            if len(t) == 1 and t[0].startswith("D"):
                return ("Ok", ("int", 1, t[0]))
            if len(t) == 2 and t[0] == "-" and t[1].startswith("D"):
                return ("Ok", ("int", -1, t[1]))
            return ("Err",)
        if name.endswith("BigNum::one"):
            return ("int", 1, "1")
        if name.endswith("BigNum::zero"):
            return ("int", 1, "0")
        if name.endswith("Num::from_big_num"):
            return self.mknum(A(0), A(1))
        if name.endswith("Num::nan"):
            return ("nan",)
        if name.endswith("Neg::neg"):
            v = A(0)
            if v[0] == "num":
                return ("num", -v[1], v[2], v[3])
            if v[0] == "int":
                return ("int", -v[1], v[2])
            return v
        raise Unknown("call of %s" % name)


class ShapeOrigins(PathOriginsOv):
    """path-precise origins in which every stateful `next()` carries its ordinal on the path (how many earlier
    next() calls on the same iterator variable precede it)"""

    def _site(self, local, site, depth, stack):
        bi, si, kind, payload = site
        if kind == "call":
            name = callee_name(payload["f"], self.fb)
            if name.rsplit("::", 1)[-1] == "next" and payload["args"]:
                from .util import Vars
                if not hasattr(self, "_vars"):
                    self._vars = Vars(self.body)
                me = self._vars.root_key(payload["args"][0])
                k = 0
                for b2 in self.path[: self.pos.get(bi, 0)]:
                    t2 = self.body.blocks[b2]["term"]
                    if t2["k"] == "call" and callee_name(t2["f"], self.fb).rsplit("::", 1)[-1] == "next" and t2["args"] and self._vars.root_key(t2["args"][0]) == me:
                        k += 1
                r = super()._site(local, site, depth, stack)
                if r[0] == "call":
                    return ("call", r[1], r[2] + (("const", "usize", k),))
                return r
        return super()._site(local, site, depth, stack)

    def of_local(self, local, block, idx, depth=0, stack=()):
        """a string from which the first character was removed in place (`s.remove(0)`) earlier on the path reads as
        the string without its first character (the evaluator only accepts the cut at a token boundary)"""
        base = super().of_local(local, block, idx, depth, stack)
        if block not in self.pos:
            return base
        from .util import Vars
        if not hasattr(self, "_vars"):
            self._vars = Vars(self.body)
        k = 0
        here = self.pos[block]
        for b2 in self.path[: here + (1 if idx == "t" else 0)]:
            if b2 == block and idx != "t":
                continue
            t2 = self.body.blocks[b2]["term"]
            if t2["k"] == "call" and callee_name(t2["f"], self.fb).endswith("String::remove") and len(t2["args"]) == 2 and self._vars.root_key(t2["args"][0]) == ("L", local) and t2["args"][1].get("int") == "0" and self.pos[b2] < here + (1 if idx == "t" else 0) and b2 != block:
                k += 1
        for _ in range(k):
            base = ("call", "core::ops::index::Index::index", (base, ("agg", "core::ops::range::RangeFrom", (("const", "usize", 1),))))
        return base


def decode_table(body, fb, inputs, literals, mutators, limit=400):
    """inputs: name -> token tuple.  mutators: callee name -> function(value) applied to the result local when the
    callee is invoked in place on it (e.g. Num::minus).  Returns {name: ("value", v) | ("panic", why) |
    ("unknown", why) | ("none", n_feasible)} and the number of paths."""
    cfg = normal_cfg(body)
    sh = Shape(body, fb, literals)
    paths = acyclic_paths(cfg, 0, cfg.returns, limit)
    if cfg.back_edges():
        return {k: ("unknown", "the decoder contains a loop") for k in inputs}, len(paths)
    out = {}
    for nm, toks in inputs.items():
        env = {1: ("S", tuple(toks))}
        results = []
        for p in paths:
            org = ShapeOrigins(body, fb, p)
            feasible = True
            verdict = None
            try:
                for i, bi in enumerate(p[:-1]):
                    t = body.blocks[bi]["term"]
                    if t["k"] != "switch":
                        continue
                    c = simplify(org.of_operand(t["x"], bi, "t"))
                    v = sh.ev(c, env)
                    v = int(v) if isinstance(v, (bool, int)) else v
                    if not isinstance(v, int):
                        raise Unknown("branch on %r" % (v,))
                    taken = None
                    for val, bb in t["arms"]:
                        if int(val) == v:
                            taken = bb
                    if taken is None:
                        taken = t["otherwise"]
                    if taken != p[i + 1]:
                        feasible = False
                        break
                if not feasible:
                    continue
                val = sh.ev(org.of_place({"l": 0, "proj": []}, p[-1], "t"), env)
                # in-place mutators applied to the returned local on this path
                vars_ = None
                for bi in p:
                    t = body.blocks[bi]["term"]
                    if t["k"] == "call" and callee_name(t["f"], fb) in mutators:
                        val = mutators[callee_name(t["f"], fb)](val)
                verdict = ("value", val)
            except Panics as e:
                verdict = ("panic", str(e))
            except Unknown as e:
                verdict = ("unknown", str(e))
            except (KeyError, IndexError, TypeError) as e:
                verdict = ("unknown", "%s: %s" % (type(e).__name__, e))
            results.append(verdict)
        decided = [r for r in results if r[0] != "unknown"]
        if any(r[0] == "unknown" for r in results) and not decided:
            out[nm] = results[0]
        elif len(set(map(repr, decided))) == 1 and not any(r[0] == "unknown" for r in results):
            out[nm] = decided[0]
        elif not results:
            out[nm] = ("none", 0)
        else:
            # several feasible paths or a mix with undecided ones
            unk = [r for r in results if r[0] == "unknown"]
            if unk:
                out[nm] = unk[0]
            elif len(set(map(repr, decided))) == 1:
                out[nm] = decided[0]
            else:
                out[nm] = ("unknown", "several feasible paths disagree: %s" % sorted(set(map(repr, decided)))[:3])
    return out, len(paths)
