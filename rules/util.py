"""helpers shared by rule instances: variable identity, guard edges, cut queries (A-DOM)."""
from .cfg import CFG, question_mark_error_edges
from .facts import callee_name
from .origin import Origins


def single_defs(body):
    """local -> its unique whole-local definition (assign stmt or call), or None when 0 / >1 defs"""
    cnt = {}
    for bi, b in enumerate(body.blocks):
        if b["cleanup"]:
            continue
        for si, s in enumerate(b["stmts"]):
            if s["k"] == "assign" and not s["p"]["proj"]:
                cnt.setdefault(s["p"]["l"], []).append(("assign", bi, si, s))
        t = b["term"]
        if t["k"] == "call" and not t["dest"]["proj"]:
            cnt.setdefault(t["dest"]["l"], []).append(("call", bi, "t", t))
    return cnt


class Vars:
    """identity of program variables seen through MIR temporaries"""

    def __init__(self, body):
        self.body = body
        self.defs = single_defs(body)

    def key_of_place(self, p, depth=0):
        proj = [e for e in p["proj"] if e != "deref"]
        if not proj:
            l = p["l"]
            ds = self.defs.get(l, [])
            # temporaries: a single definition that copies another place
            if len(ds) == 1 and ds[0][0] == "assign" and l > self.body.argc and depth < 20 and l not in self.body.local_names():
                r = ds[0][3]["r"]
                if r["k"] == "use" and r["x"]["k"] in ("copy", "move"):
                    return self.key_of_place(r["x"]["p"], depth + 1)
                if r["k"] == "ref":
                    return self.key_of_place(r["p"], depth + 1)
            return ("L", l)
        if p["l"] == 1 and self.body.kind == "closure" and len(proj) == 1 and isinstance(proj[0], dict) and "f" in proj[0]:
            return ("U", proj[0]["f"])
        return None

    def root_key(self, op, depth=0):
        """like key_of_operand, but also looks through named single-definition locals, references and
        tuple construction/destructuring (let (a, b) = (&mut x, &mut y))"""
        if op["k"] not in ("copy", "move") or depth > 30:
            return None
        return self._root_place(op["p"], depth)

    def _root_place(self, p, depth):
        proj = [e for e in p["proj"] if e != "deref"]
        l = p["l"]
        ds = self.defs.get(l, [])
        if len(ds) == 1 and ds[0][0] == "assign" and l > self.body.argc and depth < 30:
            r = ds[0][3]["r"]
            if not proj:
                if r["k"] == "use" and r["x"]["k"] in ("copy", "move"):
                    return self._root_place(r["x"]["p"], depth + 1) or ("L", l)
                if r["k"] == "ref":
                    return self._root_place(r["p"], depth + 1) or ("L", l)
            elif len(proj) == 1 and isinstance(proj[0], dict) and "f" in proj[0] and r["k"] == "agg" and r["agg"] == "tuple":
                f = r["fields"][proj[0]["f"]]
                if f["k"] in ("copy", "move"):
                    return self._root_place(f["p"], depth + 1)
        if len(ds) == 1 and ds[0][0] == "call" and not proj and depth < 30:
            from .origin import TRANSPARENT_CALLS
            t = ds[0][3]
            if callee_name(t["f"]) in TRANSPARENT_CALLS and len(t["args"]) == 1 and t["args"][0]["k"] in ("copy", "move"):
                return self._root_place(t["args"][0]["p"], depth + 1)
        if not proj:
            return ("L", l)
        if l == 1 and self.body.kind == "closure" and len(proj) == 1 and isinstance(proj[0], dict) and "f" in proj[0]:
            return ("U", proj[0]["f"])
        return None

    def key_of_operand(self, op):
        if op["k"] in ("copy", "move"):
            return self.key_of_place(op["p"])
        return None

    def const_of_operand(self, op):
        if op["k"] == "const" and "int" in op:
            return int(op["int"])
        if op["k"] == "const" and "uneval" in op and "promoted" not in op:
            from .facts import NAMED_LITERALS
            if op["uneval"] in NAMED_LITERALS:
                return NAMED_LITERALS[op["uneval"]]
        if op["k"] in ("copy", "move") and not op["p"]["proj"]:
            ds = self.defs.get(op["p"]["l"], [])
            if len(ds) == 1 and ds[0][0] == "assign":
                r = ds[0][3]["r"]
                if r["k"] == "use":
                    return self.const_of_operand(r["x"])
        return None

    def def_sites(self, key):
        """(block, idx) of definitions of a variable key ('L', l)"""
        if key[0] != "L":
            return []
        return [(d[1], d[2]) for d in self.defs.get(key[1], [])]

    def name(self, key):
        if key is None:
            return "?"
        if key[0] == "L":
            return self.body.lname(key[1])
        return self.body.upvar_names().get(key[1], "upvar#%d" % key[1])


CMP = {
    "Lt": lambda a, b: a < b,
    "Le": lambda a, b: a <= b,
    "Gt": lambda a, b: a > b,
    "Ge": lambda a, b: a >= b,
    "Eq": lambda a, b: a == b,
    "Ne": lambda a, b: a != b,
}


def comparison_edges(body, vars_, key, implies, domain=range(0, 16)):
    """edges (block, succ) on which a comparison of variable `key` with a constant has an outcome
    that implies `implies(x)` for every x in `domain` consistent with that outcome"""
    edges = []
    for bi, b in enumerate(body.blocks):
        if b["cleanup"]:
            continue
        t = b["term"]
        if t["k"] != "switch" or t["xty"] != "bool":
            continue
        # discriminant defined by a comparison
        x = t["x"]
        if x["k"] not in ("copy", "move") or x["p"]["proj"]:
            continue
        ds = vars_.defs.get(x["p"]["l"], [])
        if len(ds) != 1 or ds[0][0] != "assign":
            continue
        r = ds[0][3]["r"]
        if r["k"] != "bin" or r["op"] not in CMP:
            continue
        kl, kr = vars_.key_of_operand(r["l"]), vars_.key_of_operand(r["r"])
        cl, cr = vars_.const_of_operand(r["l"]), vars_.const_of_operand(r["r"])
        if kl == key and cr is not None:
            f = lambda v, c=cr, op=r["op"]: CMP[op](v, c)
        elif kr == key and cl is not None:
            f = lambda v, c=cl, op=r["op"]: CMP[op](c, v)
        else:
            continue
        # the definition must be in the same block or dominate: comparisons are computed right
        # before the switch in MIR, so we require the same block
        if ds[0][1] != bi:
            continue
        outcomes = {}
        for v, bb in t["arms"]:
            outcomes.setdefault(bb, []).append(int(v))
        arms_vals = {int(v) for v, _ in t["arms"]}
        for truth in (0, 1):
            # which successor is taken for this truth value
            tgt = None
            for v, bb in t["arms"]:
                if int(v) == truth:
                    tgt = bb
            if tgt is None:
                tgt = t["otherwise"]
            xs = [v for v in domain if bool(f(v)) == bool(truth)]
            if xs and all(implies(v) for v in xs):
                edges.append((bi, tgt))
            elif not xs:
                edges.append((bi, tgt))
    return edges


def reaches_without(cfg, starts, target, cut_edges=(), cut_blocks=()):
    """is `target` (a block, or any block of a collection) reachable from any block in `starts` without using cut edges/blocks?"""
    cut_edges = set(cut_edges)
    cut_blocks = set(cut_blocks)
    targets = set(target) if isinstance(target, (list, tuple, set, frozenset)) else {target}
    seen = set()
    st = [s for s in starts if s not in cut_blocks]
    while st:
        x = st.pop()
        if x in seen:
            continue
        seen.add(x)
        if x in targets:
            return True
        for s in cfg.succ[x]:
            if (x, s) in cut_edges or s in cut_blocks:
                continue
            if s not in seen:
                st.append(s)
    return False


def calls_named(body, pred, fb=None):
    out = []
    for bi, t in body.calls():
        n = callee_name(t["f"], fb)
        if pred(n):
            out.append((bi, t, n))
    return out


def where(body, x):
    return x["span"]["at"]


def reaches_with_bool(cfg, body, var, start_blocks, start_val, targets, cut_blocks=()):
    """reachability on the product of the CFG with one boolean local: assignments of constants to the
    variable are tracked, switches on it follow only the consistent edge; start_val in (True, False, None)"""
    cut_blocks = set(cut_blocks)
    targets = set(targets)
    seen = set()
    st = [(b, start_val) for b in start_blocks if b not in cut_blocks]
    while st:
        b, v = st.pop()
        if (b, v) in seen:
            continue
        seen.add((b, v))
        if b in targets:
            return True
        blk = body.blocks[b]
        for s in blk["stmts"]:
            if s["k"] == "assign" and not s["p"]["proj"] and s["p"]["l"] == var:
                r = s["r"]
                if r["k"] == "use" and r["x"]["k"] == "const" and "int" in r["x"]:
                    v = r["x"]["int"] != "0"
                else:
                    v = None
        t = blk["term"]
        succs = list(cfg.succ[b])
        if t["k"] == "switch" and t["x"]["k"] in ("copy", "move") and not t["x"]["p"]["proj"] and v is not None:
            # is the discriminant the variable (possibly through a copy temp)?
            l = t["x"]["p"]["l"]
            is_var = l == var
            if not is_var:
                for s in blk["stmts"]:
                    if s["k"] == "assign" and not s["p"]["proj"] and s["p"]["l"] == l and s["r"]["k"] == "use" and s["r"]["x"].get("p", {}).get("l") == var and not s["r"]["x"]["p"]["proj"]:
                        is_var = True
            if is_var:
                want = None
                for val, bb in t["arms"]:
                    if (int(val) != 0) == v:
                        want = bb
                if want is None:
                    want = t["otherwise"]
                succs = [want] if want in succs else []
        for s2 in succs:
            if s2 not in cut_blocks:
                st.append((s2, v))
    return False


def dominating_edge_labels(cfg, body, ev, block, entry=0):
    """labels of the branch edges every path from the entry to `block` must take"""
    out = []
    for gb, blk in enumerate(body.blocks):
        t = blk["term"]
        if blk["cleanup"] or t["k"] != "switch":
            continue
        for s in cfg.succ[gb]:
            lab = ev.generic_edge(gb, t, s)
            if lab and not reaches_without(cfg, [entry], block, cut_edges=[(gb, s)]):
                out.append(lab)
    return out


def early_exits(body, cfg, loop):
    """edges that leave a `for` loop other than by exhausting its iterator (break, return, ?): list of
    (source block, target block, where).  The exhaustion edge is the one the for-loop desugaring itself takes on None;
    unwinding is not in the normal CFG."""
    out = []
    for x in sorted(loop):
        blk = body.blocks[x]
        if blk["cleanup"]:
            continue
        for s in cfg.succ[x]:
            if s in loop:
                continue
            t = blk["term"]
            if t["k"] == "switch" and "desugar:ForLoop" in t["span"].get("exp", ""):
                continue
            out.append((x, s, t["span"]["at"]))
    return out


def loops_by_head(cfg):
    """head -> all blocks of the loop (union over the back edges that share the head: every `continue` adds one)"""
    out = {}
    for be in cfg.back_edges():
        out.setdefault(be[1], set()).update(cfg.natural_loop(be))
    return out


def for_loops_with_early_exit(body, cfg):
    """`for` loops of a body (loops that have the desugaring's own exhaustion edge) that can also be left early:
    list of (head, where the loop is, [early exit edges])"""
    out = []
    for h, lp in sorted(loops_by_head(cfg).items()):
        is_for = any(body.blocks[x]["term"]["k"] == "switch" and "desugar:ForLoop" in body.blocks[x]["term"]["span"].get("exp", "") and any(s not in lp for s in cfg.succ[x]) for x in lp)
        if not is_for:
            continue
        ee = early_exits(body, cfg, lp)
        if ee:
            out.append((h, body.blocks[h]["term"]["span"]["at"], ee))
    return out


def check_whole_loops(R, key, body, cfg, what, allowed=()):
    """obligation: every `for` loop of the body runs over its whole range (no break / return out of it), except the
    loops whose early exit is part of the definition (`allowed`: predicates on the exit edge's source line text)"""
    bad = []
    for h, at, ee in for_loops_with_early_exit(body, cfg):
        ee = [e for e in ee if not any(a(e) for a in allowed)]
        if ee:
            bad.append("loop at %s left early at %s" % (at, ", ".join(e[2] for e in ee)))
    n = sum(1 for h, lp in loops_by_head(cfg).items())
    R.check(not bad, key, "%s (every `for` loop is left only when its iterator is exhausted; %d loops looked at): %s" % (what, n, bad), body.span)
